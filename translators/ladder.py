"""Re-extract the binary-operator ladder of expression_parser.cpp (and the call structure of
parseTernary / parseAssignment / parseUnary) from the CURRENT C++ text into
coq/C02/Gen_LadderTable.v.  The file is rewritten only when its content changes.

Recognised shape of one ladder function:
    ASTNode *ExpressionParser::parseX() {
        ASTNode *left = parseY();
        while (parser_->check(TokenType::TOK_A) || ...) {
            Token op = parser_->advance();
            ASTNode *right = parseY();        // == operand callee: left associative loop
            ...
If a function does not have this shape the translator reports `recognised: False`; the Gen file
is then left as it is (stale) and the check relies on the correspondence run alone.
"""
import os
import re
import sys

TOK2OP = {
    "TOK_OR": "Or", "TOK_AND": "And", "TOK_BIT_OR": "BOr", "TOK_BIT_XOR": "BXor", "TOK_BIT_AND": "BAnd",
    "TOK_EQ": "EqO", "TOK_NE": "NeO", "TOK_LT": "LtO", "TOK_LE": "LeO", "TOK_GT": "GtO", "TOK_GE": "GeO",
    "TOK_LEFT_SHIFT": "Shl", "TOK_RIGHT_SHIFT": "Shr", "TOK_PLUS": "Add", "TOK_MINUS": "Sub",
    "TOK_MUL": "Mul", "TOK_DIV": "Div", "TOK_MOD": "Mod",
}
OP_TEXT = {"Or": "||", "And": "&&", "BOr": "|", "BXor": "^", "BAnd": "&", "EqO": "==", "NeO": "!=", "LtO": "<",
           "LeO": "<=", "GtO": ">", "GeO": ">=", "Shl": "<<", "Shr": ">>", "Add": "+", "Sub": "-", "Mul": "*",
           "Div": "/", "Mod": "%"}


def _bodies(src, cls):
    funcs = {}
    for m in re.finditer(r'ASTNode \*%s::(parse\w+)\(\)\s*\{' % cls, src):
        i, depth = m.end(), 1
        while depth and i < len(src):
            c = src[i]
            if c == '{':
                depth += 1
            elif c == '}':
                depth -= 1
            i += 1
        funcs[m.group(1)] = src[m.end():i]
    return funcs


def _strip_comments(s):
    s = re.sub(r'/\*.*?\*/', ' ', s, flags=re.S)
    return re.sub(r'//[^\n]*', ' ', s)


def extract(repo):
    """Returns a dict: recognised, levels (list of dicts, lowest first), tern, assign, unary, problems."""
    out = {"recognised": False, "levels": [], "problems": []}
    try:
        ep = _strip_comments(open(os.path.join(repo, "src/frontend/recursive_parser/parsers/expression_parser.cpp"),
                                  encoding="utf-8", errors="replace").read())
        rp = _strip_comments(open(os.path.join(repo, "src/frontend/recursive_parser/recursive_parser.cpp"),
                                  encoding="utf-8", errors="replace").read())
    except OSError as e:
        out["problems"].append("cannot read sources: %s" % e)
        return out
    funcs = _bodies(ep, "ExpressionParser")
    rfuncs = _bodies(rp, "RecursiveParser")
    # ternary: condition / then / else callees
    tb = rfuncs.get("parseTernary", "")
    m = re.search(r'ASTNode \*condition = (parse\w+)\(\);', tb)
    mt = re.search(r'ASTNode \*true_expr = (parse\w+)\(\);', tb)
    mf = re.search(r'ASTNode \*false_expr = (parse\w+)\(\);', tb)
    if not (m and mt and mf):
        out["problems"].append("parseTernary: shape not recognised")
        return out
    out["tern"] = [m.group(1), mt.group(1), mf.group(1)]
    # the delegation ExpressionParser::parseTernary -> parser_->parseTernary and RecursiveParser::parseX -> expression_parser_
    if not re.search(r'return parser_->parseTernary\(\);', funcs.get("parseTernary", "")):
        out["problems"].append("ExpressionParser::parseTernary does not delegate to RecursiveParser::parseTernary")
        return out
    deleg = rfuncs.get(out["tern"][0], "")
    md = re.search(r'return expression_parser_->(parse\w+)\(\);', deleg)
    if not md:
        out["problems"].append("RecursiveParser::%s does not delegate" % out["tern"][0])
        return out
    # assignment
    ab = funcs.get("parseAssignment", "")
    ml = re.search(r'ASTNode \*left = (parse\w+)\(\);', ab)
    mr = re.search(r'ASTNode \*right = (parse\w+)\(\);', ab)
    if not (ml and mr):
        out["problems"].append("parseAssignment: shape not recognised")
        return out
    out["assign"] = [ml.group(1), mr.group(1)]
    em = re.search(r'parseExpression\(\)\s*\{\s*return (parse\w+)\(\);', ep)
    out["entry"] = em.group(1) if em else "?"
    # ladder
    name = md.group(1)
    seen = set()
    while name != "parseUnary":
        if name in seen or name not in funcs:
            out["problems"].append("ladder: chain broken at %s" % name)
            return out
        seen.add(name)
        body = funcs[name]
        m = re.search(r'ASTNode \*left = (parse\w+)\(\);', body)
        loop = re.search(r'\b(while|if)\s*\(((?:[^(){}]|\([^(){}]*\))*)\)\s*\{', body)
        rhs = re.search(r'ASTNode \*right = (parse\w+)\(\);', body)
        if not (m and loop and rhs):
            out["problems"].append("ladder: %s does not have the left/while/right shape" % name)
            return out
        toks = re.findall(r'TokenType::(TOK_\w+)', loop.group(2))
        unknown = [t for t in toks if t not in TOK2OP]
        if unknown or not toks:
            out["problems"].append("ladder: %s loops on unknown tokens %s" % (name, unknown))
            return out
        if not re.search(r'left = binary;', body):
            out["problems"].append("ladder: %s does not fold into `left`" % name)
            return out
        out["levels"].append({"fn": name, "operand": m.group(1), "rhs": rhs.group(1), "kind": loop.group(1),
                              "ops": [TOK2OP[t] for t in toks]})
        name = m.group(1)
    # parseUnary: prefix tokens and the operand callees
    ub = funcs.get("parseUnary", "")
    blocks = list(re.finditer(r'if \(((?:[^(){}]|\((?:[^(){}]|\([^(){}]*\))*\))*)\)\s*\{\s*Token op = parser_->advance\(\);\s*ASTNode \*operand =\s*(parse\w+)\(\);', ub))
    mlast = re.findall(r'return (parse\w+)\(\);', ub)
    pre = [b for b in blocks if "TOK_NOT" in b.group(1)]
    inc = [b for b in blocks if "TOK_INCR" in b.group(1)]
    if not (len(pre) == 1 and len(inc) == 1 and mlast):
        out["problems"].append("parseUnary: shape not recognised")
        return out
    out["unary"] = {"prefix": sorted(re.findall(r'TokenType::(TOK_\w+)', pre[0].group(1))), "prefix_operand": pre[0].group(2),
                    "incdec_operand": inc[0].group(2), "fallthrough": mlast[-1]}
    # parsePrimary: the two look-aheads (absent guard -> empty list / False, so the obligation that names
    # them breaks; this is not an "unrecognised shape")
    try:
        pp = _strip_comments(open(os.path.join(repo, "src/frontend/recursive_parser/parsers/primary_expression_parser.cpp"),
                                  encoding="utf-8", errors="replace").read())
    except OSError:
        pp = ""
    stops = []
    bound = 0
    # optional token bound of the look-ahead (fix 98a0163): `int scanned_tokens = 0; while (...) { if (++scanned_tokens > N) { break; }`
    mg = re.search(r'bool is_function_call = false;\s*(?:int (\w+) = 0;\s*)?while \(depth > 0 && !parser_->isAtEnd\(\)\) \{\s*'
                   r'(?:if \(\+\+(\w+) > (\d+)\)\s*\{\s*break;\s*\}\s*)?'
                   r'if \(((?:[^{}])*?)\)\s*\{\s*break;\s*\}', pp)
    if mg:
        stops = sorted(re.findall(r'TokenType::(TOK_\w+)', mg.group(4)))
        if mg.group(3) and mg.group(1) == mg.group(2):
            bound = int(mg.group(3))
    out["generic_stops"] = stops
    out["generic_bound"] = bound      # 0 = no bound in the code
    out["cast_guard"] = bool(re.search(r'if \(!may_be_type\)\s*\{\s*throw', pp)) and \
        bool(re.search(r'may_be_type\s*=\s*parser_->typedef_map_\.count\(id\)', pp))
    # what decides `( identifier` = type: the declaration maps consulted, and how often may_be_type is assigned at all
    # (declaration, the maps, the type-parameter loop) - a further assignment is a further heuristic
    mm = re.search(r'may_be_type\s*=\s*((?:parser_->\w+\.count\(id\)\s*(?:\|\|)?\s*)+);', pp)
    out["cast_guard_maps"] = sorted(re.findall(r'parser_->(\w+)\.count', mm.group(1))) if mm else []
    out["cast_guard_assigns"] = len(re.findall(r'\bmay_be_type\s*=(?!=)', pp))
    pbody = _bodies(pp, "PrimaryExpressionParser").get("parsePrimary", "")
    # spelling heuristics of parsePrimary (sizeof operand, Name<T>): occurrences of std::isupper
    out["primary_isupper"] = len(re.findall(r'std::isupper\s*\(', pbody))
    mo = re.search(r'after cast type"\);\s*ASTNode \*expr = parser_->(parse\w+)\(\);', pbody)
    out["cast_operand"] = mo.group(1) if mo else "?"
    ms = re.search(r'bool is_cast = false;\s*if \(((?:[^{}])*?)\)\s*\{', pbody)
    out["cast_starts"] = sorted(re.findall(r'TokenType::(TOK_\w+)', ms.group(1))) if ms else []
    # parseUnary: operand callees of the keyword prefix operators await and try / checked
    ma = re.search(r'check\(TokenType::TOK_AWAIT\)\)\s*\{\s*parser_->advance\(\);\s*ASTNode \*operand = (parse\w+)\(\);', ub)
    mt2 = re.search(r'check\(TokenType::TOK_TRY\)\s*\|\|\s*parser_->check\(TokenType::TOK_CHECKED\)\)\s*\{\s*Token keyword = parser_->advance\(\);\s*'
                    r'ASTNode \*operand = (parse\w+)\(\);', ub)
    out["unary_kw_calls"] = [ma.group(1) if ma else "?", mt2.group(1) if mt2 else "?"]
    # parsePostfix: the tokens its loop continues on, and the tokens of the final ++/--
    fb = funcs.get("parsePostfix", "")
    out["postfix_loop"] = sorted(set(re.findall(r'(?:if|else if) \(parser_->check\(TokenType::(TOK_\w+)\)', fb)))
    out["recognised"] = True
    return out


def render(info):
    lv = info["levels"]
    lines = [
        "(* GENERATED by translators/ladder.py from the current text of",
        "   src/frontend/recursive_parser/parsers/expression_parser.cpp and recursive_parser.cpp.",
        "   Do not edit: the file is rewritten on every run of ./check C02 when the C++ changes. *)",
        "From Coq Require Import List String.",
        "From Cb Require Import C02.Model.",
        "Import ListNotations.",
        "Local Open Scope string_scope.",
        "",
        "(* the `while` token sets of the ladder functions, from the one parseTernary calls for its",
        "   condition down to the one that calls parseUnary (lowest precedence first) *)",
        "Definition ladder_table : table :=",
        "  [" + ";\n   ".join("[" + "; ".join(l["ops"]) + "]" for l in lv) + "].",
        "",
        "(* per ladder function: name, operand callee, right-operand callee, loop keyword *)",
        "Definition ladder_shape : list (string * string * string * string) :=",
        "  [" + ";\n   ".join('("%s", "%s", "%s", "%s")' % (l["fn"], l["operand"], l["rhs"], l["kind"]) for l in lv) + "].",
        "",
        "(* parseTernary: callee for the condition, the then-branch, the else-branch *)",
        'Definition ladder_ternary : list string := [%s].' % "; ".join('"%s"' % x for x in info["tern"]),
        "(* parseExpression's callee; parseAssignment: callee for the left side and for the right side *)",
        'Definition ladder_entry : string := "%s".' % info["entry"],
        'Definition ladder_assign : list string := [%s].' % "; ".join('"%s"' % x for x in info["assign"]),
        "(* parseUnary: prefix-operator tokens, their operand callee, the ++/-- operand callee, the fall-through callee *)",
        'Definition ladder_unary_prefix : list string := [%s].' % "; ".join('"%s"' % x for x in info["unary"]["prefix"]),
        'Definition ladder_unary_calls : list string := ["%s"; "%s"; "%s"].' % (
            info["unary"]["prefix_operand"], info["unary"]["incdec_operand"], info["unary"]["fallthrough"]),
        "(* parsePrimary: tokens at which the generic-call look-ahead gives up; is `( identifier` tried as a type",
        "   only when the identifier names a type *)",
        'Definition ladder_generic_stops : list string := [%s].' % "; ".join('"%s"' % x for x in info.get("generic_stops", [])),
        '(* tokens the look-ahead may examine (0 = unbounded) *)',
        'Definition ladder_generic_bound : nat := %d.' % info.get("generic_bound", 0),
        'Definition ladder_cast_guard : bool := %s.' % ("true" if info.get("cast_guard") else "false"),
        "(* parsePrimary: the declaration maps that make `( identifier` a type, the number of assignments to may_be_type,",
        "   the number of spelling tests (std::isupper), the callee for a cast operand, the tokens that may start a cast type;",
        "   parsePostfix: the tokens it tests *)",
        'Definition ladder_cast_guard_maps : list string := [%s].' % "; ".join('"%s"' % x for x in info.get("cast_guard_maps", [])),
        'Definition ladder_cast_guard_assigns : nat := %d.' % info.get("cast_guard_assigns", 0),
        'Definition ladder_primary_isupper : nat := %d.' % info.get("primary_isupper", 0),
        'Definition ladder_cast_operand : string := "%s".' % info.get("cast_operand", "?"),
        'Definition ladder_cast_starts : list string := [%s].' % "; ".join('"%s"' % x for x in info.get("cast_starts", [])),
        'Definition ladder_postfix_tests : list string := [%s].' % "; ".join('"%s"' % x for x in info.get("postfix_loop", [])),
        "(* parseUnary: operand callee of await, of try / checked *)",
        'Definition ladder_unary_kw_calls : list string := [%s].' % "; ".join('"%s"' % x for x in info.get("unary_kw_calls", [])),
        "",
    ]
    return "\n".join(lines)


def regenerate(repo, dest):
    """Returns (info, status) with status in {'unchanged', 'rewritten', 'stale'}."""
    info = extract(repo)
    if not info["recognised"]:
        return info, "stale"
    txt = render(info)
    old = open(dest).read() if os.path.exists(dest) else None
    if old == txt:
        return info, "unchanged"
    tmp = dest + ".tmp%d" % os.getpid()
    with open(tmp, "w") as fh:
        fh.write(txt)
    os.replace(tmp, dest)
    return info, "rewritten"


if __name__ == "__main__":
    sys.path.insert(0, os.path.join(os.path.dirname(os.path.abspath(__file__)), "..", "harness"))
    import common
    info, st = regenerate(common.REPO, os.path.join(common.COQ, "C02", "Gen_LadderTable.v"))
    import json
    print(st)
    print(json.dumps(info, indent=1))
