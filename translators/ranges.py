"""Re-extract the integer range table of TypeManager::check_type_range
(src/backend/interpreter/managers/types/manager.cpp), its rejection test, and the unsigned clamp of
VariableManager::clamp_unsigned_value (managers/variables/initialization.cpp) from the CURRENT C++
text into coq/C04/Gen_RangeTable.v.  The file is rewritten only when its content changes.

Recognised shape:
    switch (type) {
    case TYPE_X:                       (one or more labels)
        if (is_unsigned) { min_allowed = <const>; max_allowed = <const>; }
        else             { min_allowed = <const>; max_allowed = <const>; }
        break;
    ...
    default: has_range = false; break;
    }
    if (!has_range) { return; }
    if (value <op> min_allowed || value <op> max_allowed) { ... throw ... }
and
    if (!target.is_unsigned || value <op> <const>) { return; } ... value = <const>;
<const> is an integer literal, INT32_MIN/INT32_MAX/..., std::numeric_limits<T>::min()/max(),
optionally wrapped in static_cast<int64_t>(...).  Anything else -> `recognised: False`; the Gen file
is then left as it is (stale) and the check relies on the correspondence run alone.
"""
import os
import re
import sys

TYPE2ITY = {"TYPE_TINY": "TTiny", "TYPE_SHORT": "TShort", "TYPE_INT": "TInt", "TYPE_LONG": "TLong",
            "TYPE_CHAR": "TChar", "TYPE_BOOL": "TBool"}
ITY_ORDER = ["TTiny", "TShort", "TInt", "TLong", "TChar", "TBool"]
CMP2COQ = {"<": "Z.ltb", "<=": "Z.leb", ">": "Z.gtb", ">=": "Z.geb", "==": "Z.eqb"}
LIMITS = {
    "int8_t": (-2**7, 2**7 - 1), "uint8_t": (0, 2**8 - 1), "int16_t": (-2**15, 2**15 - 1), "uint16_t": (0, 2**16 - 1),
    "int32_t": (-2**31, 2**31 - 1), "uint32_t": (0, 2**32 - 1), "int64_t": (-2**63, 2**63 - 1), "uint64_t": (0, 2**64 - 1),
    "int": (-2**31, 2**31 - 1), "unsigned int": (0, 2**32 - 1), "long": (-2**63, 2**63 - 1), "long long": (-2**63, 2**63 - 1),
    "short": (-2**15, 2**15 - 1), "unsigned short": (0, 2**16 - 1), "char": (-2**7, 2**7 - 1), "signed char": (-2**7, 2**7 - 1),
    "unsigned char": (0, 2**8 - 1), "unsigned long": (0, 2**64 - 1), "unsigned long long": (0, 2**64 - 1),
}
MACROS = {"INT8_MIN": -2**7, "INT8_MAX": 2**7 - 1, "UINT8_MAX": 2**8 - 1, "INT16_MIN": -2**15, "INT16_MAX": 2**15 - 1,
          "UINT16_MAX": 2**16 - 1, "INT32_MIN": -2**31, "INT32_MAX": 2**31 - 1, "UINT32_MAX": 2**32 - 1,
          "INT64_MIN": -2**63, "INT64_MAX": 2**63 - 1, "UINT64_MAX": 2**64 - 1, "INT_MIN": -2**31, "INT_MAX": 2**31 - 1,
          "LLONG_MIN": -2**63, "LLONG_MAX": 2**63 - 1, "LONG_MIN": -2**63, "LONG_MAX": 2**63 - 1, "SHRT_MIN": -2**15,
          "SHRT_MAX": 2**15 - 1, "SCHAR_MIN": -2**7, "SCHAR_MAX": 2**7 - 1, "UCHAR_MAX": 2**8 - 1, "USHRT_MAX": 2**16 - 1,
          "UINT_MAX": 2**32 - 1}


def _strip_comments(s):
    s = re.sub(r'/\*.*?\*/', ' ', s, flags=re.S)
    return re.sub(r'//[^\n]*', ' ', s)


def _block(src, start):
    """text between the '{' at/after `start` and its matching '}' -> (body, end index)"""
    i = src.index("{", start)
    depth, j = 1, i + 1
    while depth and j < len(src):
        if src[j] == "{":
            depth += 1
        elif src[j] == "}":
            depth -= 1
        j += 1
    return src[i + 1:j - 1], j


def const_value(expr):
    """value of a C++ integer constant expression of the recognised forms, or None.
    The result is what an int64_t variable holds after the assignment (wrapped to 64 bits)."""
    e = " ".join(expr.split())
    for _ in range(4):
        m = re.fullmatch(r'static_cast<\s*([\w ]+?)\s*>\s*\((.*)\)', e)
        if m:
            e = m.group(2).strip()
            continue
        m = re.fullmatch(r'\((.*)\)', e)
        if m and m.group(1).count("(") == m.group(1).count(")"):
            e = m.group(1).strip()
            continue
        break
    v = None
    m = re.fullmatch(r'(-?)\s*(\d+)\s*([uUlL]*)', e)
    if m:
        v = int(m.group(2)) * (-1 if m.group(1) else 1)
    elif re.fullmatch(r'-?\s*0[xX][0-9a-fA-F]+[uUlL]*', e):
        v = int(re.sub(r'[uUlL]+$', '', e.replace(" ", "")), 16)
    elif e in MACROS:
        v = MACROS[e]
    else:
        m = re.fullmatch(r'std::numeric_limits<\s*([\w ]+?)\s*>::(min|max|lowest)\(\)', e)
        if m and m.group(1) in LIMITS:
            lo, hi = LIMITS[m.group(1)]
            v = hi if m.group(2) == "max" else lo
        else:
            m = re.fullmatch(r'(\w+)\s*([-+])\s*(\d+)', e)
            if m and m.group(1) in MACROS:
                v = MACROS[m.group(1)] + (int(m.group(3)) if m.group(2) == "+" else -int(m.group(3)))
    if v is None:
        return None
    # stored in an int64_t
    v &= (1 << 64) - 1
    if v >= 1 << 63:
        v -= 1 << 64
    return v


def extract(repo):
    out = {"recognised": False, "table": {}, "problems": [], "other_types": []}
    try:
        tm = _strip_comments(open(os.path.join(repo, "src/backend/interpreter/managers/types/manager.cpp"),
                                  encoding="utf-8", errors="replace").read())
        ini = _strip_comments(open(os.path.join(repo, "src/backend/interpreter/managers/variables/initialization.cpp"),
                                   encoding="utf-8", errors="replace").read())
    except OSError as e:
        out["problems"].append("cannot read sources: %s" % e)
        return out
    m = re.search(r'void\s+TypeManager::check_type_range\s*\(', tm)
    if not m:
        out["problems"].append("TypeManager::check_type_range not found")
        return out
    body, _ = _block(tm, m.end())
    ms = re.search(r'switch\s*\(\s*type\s*\)', body)
    if not ms:
        out["problems"].append("switch (type) not found")
        return out
    sw, sw_end = _block(body, ms.end())
    # split into label groups
    parts = re.split(r'((?:case\s+\w+\s*:\s*|default\s*:\s*)+)', sw)
    if parts[0].strip():
        out["problems"].append("text before the first case label")
        return out
    default_seen = False
    for k in range(1, len(parts), 2):
        labels = re.findall(r'case\s+(\w+)\s*:|(default)\s*:', parts[k])
        code = parts[k + 1]
        names = [a or b for a, b in labels]
        if "default" in names:
            default_seen = True
            if not re.search(r'has_range\s*=\s*false\s*;', code) or len(names) > 1:
                out["problems"].append("default: is not `has_range = false`")
                return out
            continue
        if not re.search(r'break\s*;\s*$', code.strip()):
            out["problems"].append("case %s does not end in break" % names)
            return out
        mi = re.search(r'if\s*\(\s*is_unsigned\s*\)', code)
        rng = {}
        if mi:
            tb, e1 = _block(code, mi.end())
            me = re.match(r'\s*else\b', code[e1:])
            if not me:
                out["problems"].append("case %s: no else branch" % names)
                return out
            fb, _ = _block(code, e1 + me.end())
            branches = {True: tb, False: fb}
        else:
            branches = {True: code, False: code}
        for u, txt in branches.items():
            assigns = re.findall(r'(min_allowed|max_allowed)\s*=\s*([^;]+);', txt)
            d = dict(assigns)
            if set(d) != {"min_allowed", "max_allowed"} or len(assigns) != 2:
                out["problems"].append("case %s: min/max assignments not recognised" % names)
                return out
            lo, hi = const_value(d["min_allowed"]), const_value(d["max_allowed"])
            if lo is None or hi is None:
                out["problems"].append("case %s: constant not recognised: %s / %s" % (names, d["min_allowed"], d["max_allowed"]))
                return out
            rng[u] = (lo, hi)
        for n in names:
            if n in TYPE2ITY:
                out["table"][TYPE2ITY[n]] = rng
            else:
                out["other_types"].append(n)
    if not default_seen:
        out["problems"].append("no default label")
        return out
    rest = body[sw_end:]
    mr = re.search(r'if\s*\(\s*value\s*(<=|>=|<|>|==)\s*min_allowed\s*\|\|\s*value\s*(<=|>=|<|>|==)\s*max_allowed\s*\)', rest)
    if not mr:
        out["problems"].append("rejection test `value < min_allowed || value > max_allowed` not recognised")
        return out
    blk, _ = _block(rest, mr.end())
    if "throw" not in blk:
        out["problems"].append("rejection branch does not throw")
        return out
    if not re.search(r'if\s*\(\s*!\s*has_range\s*\)\s*\{\s*return\s*;', rest[:mr.start()]):
        out["problems"].append("`if (!has_range) return;` not found before the test")
        return out
    out["reject"] = [mr.group(1), mr.group(2)]
    # clamp_unsigned_value
    mc = re.search(r'void\s+VariableManager::clamp_unsigned_value\s*\(', ini)
    if not mc:
        out["problems"].append("VariableManager::clamp_unsigned_value not found")
        return out
    cb, _ = _block(ini, mc.end())
    mk = re.search(r'if\s*\(\s*!\s*target\.is_unsigned\s*\|\|\s*value\s*(<=|>=|<|>|==)\s*(-?\d+)\s*\)\s*\{\s*return\s*;\s*\}', cb)
    mv = re.findall(r'(?<![\w.])value\s*=\s*(-?\d+)\s*;', cb)
    if not mk or len(mv) != 1:
        out["problems"].append("clamp_unsigned_value: shape not recognised")
        return out
    out["clamp"] = {"keep_op": mk.group(1), "keep_bound": int(mk.group(2)), "to": int(mv[0])}
    out["recognised"] = True
    return out


def zlit(v):
    return "(%d)" % v if v < 0 else "%d" % v


def render(info):
    rows = []
    for ity in ITY_ORDER:
        if ity in info["table"]:
            for u in (True, False):
                lo, hi = info["table"][ity][u]
                rows.append("  | %s, %s => Some (%s, %s)" % (ity, "true" if u else "false", zlit(lo), zlit(hi)))
    c = info["clamp"]
    lines = [
        "(* GENERATED by translators/ranges.py from the current text of",
        "   src/backend/interpreter/managers/types/manager.cpp (TypeManager::check_type_range) and",
        "   src/backend/interpreter/managers/variables/initialization.cpp (VariableManager::clamp_unsigned_value).",
        "   Do not edit: the file is rewritten on every run of ./check C04 when the C++ changes. *)",
        "From Coq Require Import ZArith Bool.",
        "From Cb Require Import Lang.Syntax.",
        "Local Open Scope Z_scope.",
        "",
        "(* the `switch (type)`: min_allowed / max_allowed per (type, is_unsigned); `default:` has no range *)",
        "Definition gen_range (b : ity) (u : bool) : option (Z * Z) :=",
        "  match b, u with",
    ] + rows + [
        "  | _, _ => None",
        "  end.",
        "",
        "(* the rejection test: `value %s min_allowed || value %s max_allowed` *)" % tuple(info["reject"]),
        "Definition gen_reject (value min_allowed max_allowed : Z) : bool :=",
        "  (%s value min_allowed) || (%s value max_allowed)." % (CMP2COQ[info["reject"][0]], CMP2COQ[info["reject"][1]]),
        "",
        "(* clamp_unsigned_value: `if (!target.is_unsigned || value %s %d) return;  value = %d;` *)" % (c["keep_op"], c["keep_bound"], c["to"]),
        "Definition gen_clamp_keeps (is_unsigned : bool) (value : Z) : bool :=",
        "  negb is_unsigned || (%s value %s)." % (CMP2COQ[c["keep_op"]], zlit(c["keep_bound"])),
        "Definition gen_clamp_to : Z := %s." % zlit(c["to"]),
        "",
    ]
    return "\n".join(lines)


def regenerate(repo, dest):
    """Returns (info, status) with status in {'unchanged', 'rewritten', 'stale'}."""
    info = extract(repo)
    if not info["recognised"]:
        return info, "stale"
    txt = render(info)
    old = open(dest).read() if os.path.exists(dest) else None
    if old == txt:
        return info, "unchanged"
    tmp = dest + ".tmp%d" % os.getpid()
    with open(tmp, "w") as fh:
        fh.write(txt)
    os.replace(tmp, dest)
    return info, "rewritten"


if __name__ == "__main__":
    sys.path.insert(0, os.path.join(os.path.dirname(os.path.abspath(__file__)), "..", "harness"))
    import common
    import json
    info, st = regenerate(common.REPO, os.path.join(common.COQ, "C04", "Gen_RangeTable.v"))
    print(st)
    print(json.dumps(info, indent=1, default=str))
