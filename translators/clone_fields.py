#!/usr/bin/env python3
"""Re-extracts, from the CURRENT C++ text,

  (a) every data member of `struct ASTNode` (src/common/ast.h), classified as
        ptr      std::unique_ptr<ASTNode> f;
        vec      std::vector<std::unique_ptr<ASTNode>> f;
        indirect std::vector<S> f;  where struct S itself owns a std::unique_ptr<ASTNode>  (match_arms)
        scalar   everything else (node_type, the constructor argument, is listed as `ctor`)
  (b) the members `clone_ast_node` copies (generic_instantiation.cpp):
        scalar   cloned->f = node->f;
        ptr      cloned->f = clone_ast_node(node->f.get());
        vec      for (const auto &x : node->f) { cloned->f.push_back(clone_ast_node(x.get())); }
        indirect for (const auto &x : node->f) { S c; c.g = x.g; ... c.body = clone_ast_node(x.body.get());
                                                 cloned->f.push_back(std::move(c)); }
  (c) what `substitute_type_parameters` touches:
        strings  node->f = substituted;
        recompute node->g = parse_type_from_string(node->f);
        ptr      substitute_type_parameters(node->f.get(), type_map);
        vec      for (const auto &x : node->f) { substitute_type_parameters(x.get(), type_map); }
        indirect for (auto &x : node->f) { substitute_type_parameters(x.body.get(), type_map); ... }
        strvec   for (auto &x : node->f) { x = substitute_generic_type_name(x, type_map); }

into coq/C11/Gen_CloneFields.v.  Nothing is assumed about WHICH fields exist.  Any shape that is not
recognised raises TranslatorError; the caller then keeps the last generated file and records
`translator: stale` in the evidence (correspondence alone ties the code then).
"""
import json
import os
import re
import sys

AST_H = "src/common/ast.h"
GEN_CPP = "src/backend/interpreter/evaluator/functions/generic_instantiation.cpp"


class TranslatorError(Exception):
    pass


def strip_comments(src):
    src = re.sub(r"/\*.*?\*/", lambda m: re.sub(r"[^\n]", " ", m.group(0)), src, flags=re.S)
    return re.sub(r"//[^\n]*", "", src)


def block_after(src, header_rx, what):
    m = re.search(header_rx, src)
    if not m:
        raise TranslatorError("cannot find " + what)
    i = src.index("{", m.start())
    depth = 0
    for j in range(i, len(src)):
        if src[j] == "{":
            depth += 1
        elif src[j] == "}":
            depth -= 1
            if depth == 0:
                return src[i + 1:j]
    raise TranslatorError("unbalanced braces in " + what)


def top_level_statements(body):
    """Statements at brace depth 0 of a struct body (nested {...} blocks are skipped)."""
    out, cur, depth = [], [], 0
    for ch in body:
        if ch == "{":
            depth += 1
            continue
        if ch == "}":
            depth -= 1
            if depth == 0:
                cur = []           # a method / constructor body ended: drop its header
            continue
        if depth:
            continue
        if ch == ";":
            out.append(" ".join("".join(cur).split()))
            cur = []
        else:
            cur.append(ch)
    return [s for s in out if s]


_MEMBER = re.compile(r"^(?P<type>.*[\s>&*])(?P<name>[A-Za-z_]\w*)$")


def struct_members(src, name):
    body = block_after(src, r"\bstruct\s+%s\s*\{" % re.escape(name), "struct " + name)
    mem = []
    for st in top_level_statements(body):
        if "(" in st or st.startswith(("static ", "virtual ", "using ", "typedef ", "friend ")):
            continue                      # constructors, methods, operators, static members
        if re.match(r"^(public|private|protected)\s*:", st):
            st = st.split(":", 1)[1].strip()
        st = st.split("=")[0].strip()      # drop a default member initialiser
        m = _MEMBER.match(st)
        if not m:
            raise TranslatorError("member declaration not understood in struct %s: %r" % (name, st))
        mem.append((m.group("name"), " ".join(m.group("type").split())))
    return mem


def extract(repo):
    ast = strip_comments(open(os.path.join(repo, AST_H), encoding="utf-8", errors="replace").read())
    gi = strip_comments(open(os.path.join(repo, GEN_CPP), encoding="utf-8", errors="replace").read())
    members = struct_members(ast, "ASTNode")
    if len(members) < 20:
        raise TranslatorError("struct ASTNode: only %d members recognised" % len(members))
    tab = {"ptr": [], "vec": [], "indirect": [], "scalar": [], "ctor": []}
    norm = lambda t: t.replace(" ", "")
    for name, ty in members:
        t = norm(ty)
        if t == "std::unique_ptr<ASTNode>":
            tab["ptr"].append(name)
        elif t == "std::vector<std::unique_ptr<ASTNode>>":
            tab["vec"].append(name)
        elif re.search(r"\bASTNode\b", ty):
            raise TranslatorError("member %s has an ASTNode-owning type that is not understood: %s" % (name, ty))
        else:
            m = re.match(r"^std::vector<(\w+)>$", t)
            owns = False
            if m and re.search(r"\bstruct\s+%s\s*\{" % m.group(1), ast):
                try:
                    owns = any(norm(t2) in ("std::unique_ptr<ASTNode>", "std::vector<std::unique_ptr<ASTNode>>")
                               for _, t2 in struct_members(ast, m.group(1)))
                except TranslatorError:
                    owns = False
            if owns:
                tab["indirect"].append(name)
            elif name == "node_type":
                tab["ctor"].append(name)
            else:
                tab["scalar"].append(name)
    if not tab["ptr"] or not tab["vec"]:
        raise TranslatorError("struct ASTNode: no child pointer / child vector members recognised")

    cb = block_after(gi, r"std::unique_ptr<ASTNode>\s+clone_ast_node\s*\(\s*const\s+ASTNode\s*\*\s*node\s*\)\s*\{",
                     "clone_ast_node")
    c_ptr = re.findall(r"cloned->(\w+)\s*=\s*clone_ast_node\(\s*node->(\w+)\.get\(\)\s*\)", cb)
    c_vec = re.findall(r"for\s*\(\s*const\s+auto\s*&\s*(\w+)\s*:\s*node->(\w+)\s*\)\s*\{?\s*cloned->(\w+)\.push_back\(\s*"
                       r"clone_ast_node\(\s*(\w+)\.get\(\)\s*\)\s*\)", cb)
    c_sc = re.findall(r"cloned->(\w+)\s*=\s*node->(\w+)\s*;", cb)
    for a, b in c_ptr + c_sc:
        if a != b:
            raise TranslatorError("clone_ast_node copies node->%s into cloned->%s" % (b, a))
    for v, src_f, dst_f, v2 in c_vec:
        if src_f != dst_f or v != v2:
            raise TranslatorError("clone_ast_node: vector loop over %s pushes into %s" % (src_f, dst_f))
    # a vector of structs that own a body: the loop must push a copy whose body is cloned, into the same member
    c_ind = []
    for m in re.finditer(r"for\s*\(\s*const\s+auto\s*&\s*(\w+)\s*:\s*node->(\w+)\s*\)\s*\{(?P<body>[^{}]*)\}", cb):
        v, f, body = m.group(1), m.group(2), m.group("body")
        mm = re.search(r"(\w+)\.(\w+)\s*=\s*clone_ast_node\(\s*%s\.(\w+)\.get\(\)\s*\)" % re.escape(v), body)
        if not mm:
            continue
        if mm.group(2) != mm.group(3) or not re.search(r"cloned->%s\.push_back\(\s*std::move\(\s*%s\s*\)\s*\)" % (
                re.escape(f), re.escape(mm.group(1))), body):
            raise TranslatorError("clone_ast_node: loop over %s is not a member-wise copy into the same member" % f)
        c_ind.append(f)
    cloned = {"ptr": [a for a, _ in c_ptr], "vec": [b for _, b, _, _ in c_vec], "scalar": [a for a, _ in c_sc],
              "indirect": c_ind}
    n_clone_calls = len(re.findall(r"clone_ast_node\(", cb))
    if n_clone_calls != len(c_ptr) + len(c_vec) + len(c_ind):
        raise TranslatorError("clone_ast_node: %d recursive calls, %d recognised" % (
            n_clone_calls, len(c_ptr) + len(c_vec) + len(c_ind)))
    if not cloned["ptr"] and not cloned["vec"]:
        raise TranslatorError("clone_ast_node: no copied children recognised")
    allnames = set(n for n, _ in members)
    for k in cloned:
        for f in cloned[k]:
            if f not in allnames:
                raise TranslatorError("clone_ast_node copies %s, which is not a member of ASTNode" % f)

    sb = block_after(gi, r"void\s+substitute_type_parameters\s*\(\s*ASTNode\s*\*\s*node\s*,", "substitute_type_parameters")
    s_str = []
    for f in re.findall(r"node->(\w+)\s*=\s*substituted\s*;", sb):
        if f not in s_str:
            s_str.append(f)
    s_re = re.findall(r"node->(\w+)\s*=\s*parse_type_from_string\(\s*node->(\w+)\s*\)", sb)
    s_vec = re.findall(r"for\s*\(\s*const\s+auto\s*&\s*(\w+)\s*:\s*node->(\w+)\s*\)\s*\{?\s*substitute_type_parameters\(\s*(\w+)\.get\(\)",
                       sb)
    s_ptr = re.findall(r"substitute_type_parameters\(\s*node->(\w+)\.get\(\)\s*,", sb)
    s_ind = [f for v, f, v2 in re.findall(
        r"for\s*\(\s*(?:const\s+)?auto\s*&\s*(\w+)\s*:\s*node->(\w+)\s*\)\s*\{\s*substitute_type_parameters\(\s*(\w+)\.\w+\.get\(\)", sb)
        if v == v2]
    s_sv = [f for v, f, v2, v3 in re.findall(
        r"for\s*\(\s*auto\s*&\s*(\w+)\s*:\s*node->(\w+)\s*\)\s*\{\s*(\w+)\s*=\s*substitute_generic_type_name\(\s*(\w+)\s*,\s*type_map\s*\)",
        sb) if v == v2 == v3]
    n_sub_calls = len(re.findall(r"substitute_type_parameters\(", sb))
    if n_sub_calls != len(s_ptr) + len(s_vec) + len(s_ind):
        raise TranslatorError("substitute_type_parameters: %d recursive calls, %d recognised" % (
            n_sub_calls, len(s_ptr) + len(s_vec) + len(s_ind)))
    guarded = bool(re.search(r"node->type_name\s*!=\s*type_name_before", sb))
    subst = {"strings": s_str, "recompute": [list(x) for x in s_re], "ptr": s_ptr, "vec": [b for _, b, _ in s_vec],
             "indirect": s_ind, "strvec": s_sv, "type_info_only_when_rewritten": guarded}
    if not s_str:
        raise TranslatorError("substitute_type_parameters: no rewritten string member recognised")
    return {"ast": tab, "cloned": cloned, "subst": subst,
            "missing": {k: [f for f in tab[k] if f not in cloned.get(k, [])] for k in ("ptr", "vec", "indirect", "scalar")}}


def _l(xs):
    return "[" + "; ".join('"%s"' % x for x in xs) + "]"


def to_coq(t):
    a, c, s = t["ast"], t["cloned"], t["subst"]
    lines = [
        "(* GENERATED on every run by translators/clone_fields.py from",
        "     %s  (struct ASTNode)" % AST_H,
        "     %s  (clone_ast_node, substitute_type_parameters)" % GEN_CPP,
        "   Do not edit: the theorems of Properties_C11.v about these lists are statements about the",
        "   current C++ text. *)",
        "From Coq Require Import String List.",
        "Import ListNotations.",
        "Local Open Scope string_scope.",
        "",
        "(* (a) members of struct ASTNode, in declaration order *)",
        "Definition ast_ptr_fields : list string := %s." % _l(a["ptr"]),
        "Definition ast_vec_fields : list string := %s." % _l(a["vec"]),
        "Definition ast_indirect_fields : list string := %s." % _l(a["indirect"]),
        "Definition ast_scalar_fields : list string := %s." % _l(a["scalar"]),
        "",
        "(* (b) members copied by clone_ast_node *)",
        "Definition cloned_ptr_fields : list string := %s." % _l(c["ptr"]),
        "Definition cloned_vec_fields : list string := %s." % _l(c["vec"]),
        "Definition cloned_indirect_fields : list string := %s." % _l(c["indirect"]),
        "Definition cloned_scalar_fields : list string := %s." % _l(c["scalar"]),
        "",
        "(* (c) members rewritten / descended into by substitute_type_parameters *)",
        "Definition subst_string_fields : list string := %s." % _l(s["strings"]),
        "Definition subst_ptr_fields : list string := %s." % _l(s["ptr"]),
        "Definition subst_vec_fields : list string := %s." % _l(s["vec"]),
        "Definition subst_indirect_fields : list string := %s." % _l(s["indirect"]),
        "Definition subst_strvec_fields : list string := %s." % _l(s["strvec"]),
        "(* type_info is recomputed only when type_name was rewritten to a builtin/typedef name *)",
        "Definition subst_type_info_guarded : bool := %s." % ("true" if s["type_info_only_when_rewritten"] else "false"),
        "",
    ]
    return "\n".join(lines)


def summary(t):
    return {
        "ast": {k: len(v) for k, v in t["ast"].items()},
        "cloned": {k: len(v) for k, v in t["cloned"].items()},
        "missing_ptr": t["missing"]["ptr"], "missing_vec": t["missing"]["vec"],
        "missing_indirect": t["missing"]["indirect"], "missing_scalar": t["missing"]["scalar"],
        "subst": t["subst"],
    }


def regenerate(repo, coq_dir):
    """Returns (status, message, table). status: 'fresh' (file rewritten or unchanged-and-current) or 'stale'."""
    out = os.path.join(coq_dir, "C11", "Gen_CloneFields.v")
    try:
        t = extract(repo)
    except (TranslatorError, OSError) as e:
        return "stale", str(e), None
    txt = to_coq(t)
    old = open(out).read() if os.path.exists(out) else None
    if old != txt:
        tmp = out + ".tmp%d" % os.getpid()
        with open(tmp, "w") as fh:
            fh.write(txt)
        os.replace(tmp, out)
        return "fresh", "regenerated (table changed)", t
    return "fresh", "unchanged", t


if __name__ == "__main__":
    repo = sys.argv[1] if len(sys.argv) > 1 else os.environ.get("CB_REPO", "/repo")
    t = extract(repo)
    if "--coq" in sys.argv:
        sys.stdout.write(to_coq(t))
    else:
        print(json.dumps(summary(t), indent=1))
