#!/usr/bin/env python3
"""C++ -> Gallina translator for small pure integer functions of the interpreter (work package X1).

    cxx_pure.py <repo-root> [target ...]        targets: see TARGETS (default: all)

For every target it runs

    clang++ -std=c++17 -I. -Isrc -Isrc/backend/interpreter -fsyntax-only \
            -Xclang -ast-dump=json -Xclang -ast-dump-filter=<common prefix of the function names> <file>

once in the given repository tree (the result, pruned to the wanted function definitions, is cached under
/verif/.cache/cxx_pure/ keyed on the hash of the source file, of every header under src/ and of clang's version),
walks clang's AST of the named functions and writes `Definition fn_<name> : Cxx.fn := ...` terms of the deep
embedding coq/Cxx/Cxx.v.  The output is deterministic and the file is only written when its text changed.

The translator understands exactly the constructs of Cxx.v.  ANYTHING else in a function body makes it fail loudly
(`Untranslatable`: AST node kind, source line, reason; exit status 3 on the command line) - nothing is skipped
silently.  The only things it drops are statement-level calls of error_msg / debug_msg whose arguments have no side
effects; they are kept in the term as `SEffect "<callee>"`.

Trusted: clang's parser and semantic analysis (the implicit conversions in the AST are clang's; Cxx.v applies the
integer promotions and the usual arithmetic conversions again by itself, and this translator cross-checks the type
Cxx.v computes for every expression against the type clang reports - a disagreement is an error), this file, Cxx.v.
"""
import hashlib
import json
import os
import re
import subprocess
import sys
import time

VERIF = os.path.dirname(os.path.dirname(os.path.abspath(__file__)))
CACHE = os.path.join(VERIF, ".cache", "cxx_pure")
CLANG = "clang++"
CLANG_FLAGS = ["-std=c++17", "-I.", "-Isrc", "-Isrc/backend/interpreter", "-fsyntax-only"]

TARGETS = {
    "helpers": {
        "source": "src/backend/interpreter/evaluator/core/helpers.cpp",
        "functions": ["ExpressionHelpers::evaluate_arithmetic_binary", "ExpressionHelpers::evaluate_comparison_binary",
                      "ExpressionHelpers::evaluate_logical_binary", "ExpressionHelpers::evaluate_bitwise_binary",
                      "ExpressionHelpers::evaluate_simple_unary"],
        "dest": "coq/C01/Gen_Helpers.v",
    },
}


class Untranslatable(Exception):
    """Something in the function that the Cxx fragment has no construct for."""

    def __init__(self, node, why, ctx=None):
        self.kind = node.get("kind", "?") if isinstance(node, dict) else str(node)
        self.line = ctx.line_of(node) if ctx is not None and isinstance(node, dict) else None
        self.why = why
        self.fn = ctx.qname if ctx is not None else None
        Exception.__init__(self, "%s: cannot translate AST node %s%s: %s" % (
            self.fn or "?", self.kind, (" at line %s" % self.line) if self.line else "", why))


# ------------------------------------------------------------------------------------------------
# clang
# ------------------------------------------------------------------------------------------------

def _sha(b):
    return hashlib.sha256(b).hexdigest()


def _clang_version():
    try:
        return subprocess.run([CLANG, "--version"], stdout=subprocess.PIPE, stderr=subprocess.STDOUT, timeout=20).stdout.decode()
    except Exception as e:            # noqa: BLE001
        return "unavailable: %s" % e


def _inputs_hash(repo, source):
    """Hash of everything the AST can depend on inside the repository: the source file and every header under src/."""
    h = hashlib.sha256()
    h.update(_clang_version().encode())
    h.update(" ".join(CLANG_FLAGS).encode())
    files = [os.path.join(repo, source)]
    for root, dirs, fs in os.walk(os.path.join(repo, "src")):
        dirs.sort()
        for f in sorted(fs):
            if f.endswith((".h", ".hpp", ".inc")):
                files.append(os.path.join(root, f))
    for f in files:
        h.update(os.path.relpath(f, repo).encode() + b"\0")
        with open(f, "rb") as fh:
            h.update(hashlib.sha256(fh.read()).digest())
    return h.hexdigest()[:32]


def _common_prefix(names):
    p = os.path.commonprefix(list(names))
    return p if len(names) > 1 else names[0]


def _parse_concatenated_json(txt):
    dec, i, out = json.JSONDecoder(), 0, []
    while True:
        i = txt.find("{", i)
        if i < 0:
            return out
        o, i = dec.raw_decode(txt, i)
        out.append(o)


def clang_functions(repo, source, qnames, use_cache=True):
    """Returns ({qualified name: FunctionDecl JSON}, info). One clang run per source file (cached)."""
    info = {"cache": "miss", "clang_s": 0.0}
    flt = _common_prefix(qnames)
    key = _inputs_hash(repo, source) + "-" + _sha((source + "|" + flt + "|" + ",".join(qnames)).encode())[:12]
    cpath = os.path.join(CACHE, key + ".json")
    if use_cache and os.path.exists(cpath):
        try:
            with open(cpath) as fh:
                data = json.load(fh)
            info["cache"] = "hit"
            return data, info
        except Exception:             # noqa: BLE001  (a torn cache file: recompute)
            pass
    t0 = time.time()
    cmd = ["timeout", "300", CLANG] + CLANG_FLAGS + ["-Xclang", "-ast-dump=json", "-Xclang", "-ast-dump-filter=" + flt, source]
    p = subprocess.run(cmd, cwd=repo, stdout=subprocess.PIPE, stderr=subprocess.PIPE, timeout=330)
    info["clang_s"] = round(time.time() - t0, 2)
    err = p.stderr.decode("utf-8", "replace")
    if p.returncode != 0:
        raise Untranslatable({"kind": "TranslationUnit"}, "clang failed (rc %d) on %s: %s" % (p.returncode, source, err[-1500:]))
    decls = _parse_concatenated_json(p.stdout.decode("utf-8", "replace"))
    data = {}
    for q in qnames:
        short = q.split("::")[-1]
        defs = [d for d in decls if d.get("kind") == "FunctionDecl" and d.get("name") == short
                and any(c.get("kind") == "CompoundStmt" for c in d.get("inner", []))]
        if len(defs) != 1:
            raise Untranslatable({"kind": "FunctionDecl"}, "%d definitions of %s found in %s (filter %s)" % (len(defs), q, source, flt))
        data[q] = defs[0]
    os.makedirs(CACHE, exist_ok=True)
    tmp = cpath + ".tmp%d" % os.getpid()
    with open(tmp, "w") as fh:
        json.dump(data, fh)
    os.replace(tmp, cpath)
    # keep the cache small
    ents = sorted((os.path.getmtime(os.path.join(CACHE, e)), e) for e in os.listdir(CACHE) if e.endswith(".json"))
    for mt, e in ents[:-40]:
        if time.time() - mt > 3600:
            try:
                os.remove(os.path.join(CACHE, e))
            except OSError:
                pass
    return data, info


# ------------------------------------------------------------------------------------------------
# the fragment (mirrors coq/Cxx/Cxx.v; used only for the type cross-check and for rendering)
# ------------------------------------------------------------------------------------------------

TYPES = {"bool": "TBool", "int": "TInt", "unsigned int": "TUInt", "long": "TLong", "unsigned long": "TULong"}
SIGNED = {"TInt", "TLong"}
RANK = {"TBool": 0, "TInt": 1, "TUInt": 1, "TLong": 2, "TULong": 2}
BITS = {"TBool": 1, "TInt": 32, "TUInt": 32, "TLong": 64, "TULong": 64}
RANGE = {"TBool": (0, 1), "TInt": (-2**31, 2**31 - 1), "TUInt": (0, 2**32 - 1), "TLong": (-2**63, 2**63 - 1), "TULong": (0, 2**64 - 1)}
BINOPS = {"+": "BAdd", "-": "BSub", "*": "BMul", "/": "BDiv", "%": "BRem", "&": "BAnd", "|": "BOr", "^": "BXor",
          "<<": "BShl", ">>": "BShr", "==": "BEq", "!=": "BNe", "<": "BLt", ">": "BGt", "<=": "BLe", ">=": "BGe"}
UNOPS = {"+": "UPlus", "-": "UNeg", "!": "UNot", "~": "UCompl"}
DROPPED_CALLS = ("error_msg", "debug_msg")


def promote(t):
    return "TInt" if t == "TBool" else t


def common(a, b):
    if a == b:
        return a
    if (a in SIGNED) == (b in SIGNED):
        return b if RANK[a] < RANK[b] else a
    s, u = (a, b) if a in SIGNED else (b, a)
    if RANK[s] <= RANK[u]:
        return u
    if BITS[u] < BITS[s]:
        return s
    return {"TInt": "TUInt", "TLong": "TULong"}[s]


def c_unescape(lit, node, ctx):
    """The C++ spelling of a narrow string literal ("..." as clang prints it) -> its characters."""
    if not (len(lit) >= 2 and lit[0] == '"' and lit[-1] == '"'):
        raise Untranslatable(node, "string literal with a prefix or raw string: %r" % lit, ctx)
    s, out, i = lit[1:-1], [], 0
    simple = {"n": "\n", "t": "\t", "\\": "\\", '"': '"', "'": "'", "0": "\0", "r": "\r", "a": "\a", "b": "\b", "f": "\f", "v": "\v", "?": "?"}
    while i < len(s):
        c = s[i]
        if c != "\\":
            out.append(c)
            i += 1
            continue
        if i + 1 >= len(s):
            raise Untranslatable(node, "dangling backslash in %r" % lit, ctx)
        d = s[i + 1]
        if d == "x":
            m = re.match(r"[0-9a-fA-F]+", s[i + 2:])
            if not m:
                raise Untranslatable(node, "bad \\x escape in %r" % lit, ctx)
            out.append(chr(int(m.group(0), 16) & 255))
            i += 2 + len(m.group(0))
        elif d in "01234567" and not (d == "0" and (i + 2 >= len(s) or s[i + 2] not in "01234567")):
            m = re.match(r"[0-7]{1,3}", s[i + 1:])
            out.append(chr(int(m.group(0), 8) & 255))
            i += 1 + len(m.group(0))
        elif d in simple:
            out.append(simple[d])
            i += 2
        else:
            raise Untranslatable(node, "escape sequence \\%s in %r" % (d, lit), ctx)
    txt = "".join(out)
    if any(not (32 <= ord(ch) < 127) for ch in txt):
        raise Untranslatable(node, "string literal with characters outside printable ASCII: %r" % lit, ctx)
    return txt


def coq_string(s):
    return '"' + s.replace('"', '""') + '"'


def coq_z(n):
    return str(n) if n >= 0 else "(%d)" % n


class Ctx:
    def __init__(self, qname, src_text):
        self.qname = qname
        self.src = src_text
        self.sparam = None          # (name, decl id) of the std::string parameter
        self.scopes = []            # list of dicts: decl id -> (name, type)
        self.dropped = []
        self.nodes = 0

    def line_of(self, node):
        rng = node.get("range", {}).get("begin", {})
        if "expansionLoc" in rng:
            rng = rng["expansionLoc"]
        off = rng.get("offset")
        if off is None or off > len(self.src) or "file" in rng and not rng["file"].endswith(".cpp"):
            return None
        return self.src.count(b"\n", 0, off) + 1

    def find_var(self, ref, node):
        rid = ref.get("id")
        for sc in reversed(self.scopes):
            if rid in sc:
                return sc[rid]
        raise Untranslatable(node, "reference to %s %r which is not an integer parameter or local of the function" % (
            ref.get("kind"), ref.get("name")), self)


def ity(node, ctx, what="type"):
    t = node.get("type", {})
    q = t.get("desugaredQualType", t.get("qualType", ""))
    q = re.sub(r"\bconst\b", "", q).strip()
    q = re.sub(r"\s+", " ", q)
    if q not in TYPES:
        raise Untranslatable(node, "%s %r is not one of bool / int / unsigned int / long / unsigned long" % (what, t.get("qualType")), ctx)
    return TYPES[q]


def is_std_string(t):
    q = t.get("desugaredQualType", t.get("qualType", ""))
    q = re.sub(r"\bconst\b|&", "", q).strip()
    return q in ("std::basic_string<char>", "std::string", "basic_string<char, std::char_traits<char>, std::allocator<char>>") or \
        re.sub(r"\bconst\b|&", "", t.get("qualType", "")).strip() in ("std::string",)


def kids(n):
    return n.get("inner", [])


def strip_to_string_literal(n, ctx):
    """`"lit"` as an argument of type const char *: ImplicitCastExpr<ArrayToPointerDecay>(StringLiteral)."""
    if n.get("kind") == "ImplicitCastExpr" and n.get("castKind") == "ArrayToPointerDecay" and len(kids(n)) == 1 \
            and kids(n)[0].get("kind") == "StringLiteral":
        return c_unescape(kids(n)[0].get("value", ""), kids(n)[0], ctx)
    return None


def is_sparam_ref(n, ctx):
    while n.get("kind") in ("ImplicitCastExpr", "ParenExpr") and n.get("castKind", "NoOp") == "NoOp" and len(kids(n)) == 1:
        n = kids(n)[0]
    return (n.get("kind") == "DeclRefExpr" and ctx.sparam is not None
            and n.get("referencedDecl", {}).get("id") == ctx.sparam[1])


def callee_name(call):
    k = kids(call)
    if not k:
        return None
    c = k[0]
    while c.get("kind") in ("ImplicitCastExpr", "ParenExpr") and len(kids(c)) == 1:
        c = kids(c)[0]
    if c.get("kind") == "DeclRefExpr":
        return c.get("referencedDecl", {}).get("name")
    return None


# expressions: returns (gallina term, Cxx type)
def expr(n, ctx):
    ctx.nodes += 1
    k = n.get("kind")
    ch = kids(n)
    if k in ("ParenExpr", "ExprWithCleanups", "ConstantExpr") and len(ch) == 1:
        return expr(ch[0], ctx)
    if k == "ImplicitCastExpr" or k in ("CXXStaticCastExpr", "CStyleCastExpr", "CXXFunctionalCastExpr"):
        ck = n.get("castKind")
        if len(ch) != 1:
            raise Untranslatable(n, "cast with %d operands" % len(ch), ctx)
        if ck == "LValueToRValue":
            inner = ch[0]
            while inner.get("kind") == "ParenExpr" and len(kids(inner)) == 1:
                inner = kids(inner)[0]
            if inner.get("kind") != "DeclRefExpr":
                raise Untranslatable(n, "lvalue-to-rvalue conversion of something that is not a plain name (%s)" % inner.get("kind"), ctx)
            return expr(inner, ctx)
        if ck == "NoOp":
            g, t = expr(ch[0], ctx)
            if ity(n, ctx) != t:
                raise Untranslatable(n, "no-op cast that changes the type (%s to %s)" % (t, ity(n, ctx)), ctx)
            return g, t
        if ck == "IntegralCast":
            g, t = expr(ch[0], ctx)
            to = ity(n, ctx, "cast target")
            if to == "TBool":
                raise Untranslatable(n, "IntegralCast to bool", ctx)
            return "(ECast %s %s)" % (to, g), to
        if ck == "IntegralToBoolean":
            g, t = expr(ch[0], ctx)
            return "(ECast TBool %s)" % g, "TBool"
        raise Untranslatable(n, "cast kind %s" % ck, ctx)
    if k == "DeclRefExpr":
        ref = n.get("referencedDecl", {})
        if ref.get("kind") not in ("ParmVarDecl", "VarDecl"):
            raise Untranslatable(n, "reference to a %s (%s)" % (ref.get("kind"), ref.get("name")), ctx)
        name, t = ctx.find_var(ref, n)
        if ity(n, ctx) != t:
            raise Untranslatable(n, "name %s used at type %s but declared %s" % (name, ity(n, ctx), t), ctx)
        return "(EVar %s)" % coq_string(name), t
    if k == "IntegerLiteral":
        t = ity(n, ctx, "literal type")
        v = int(n.get("value"))
        lo, hi = RANGE[t]
        if not lo <= v <= hi:
            raise Untranslatable(n, "literal %d outside %s" % (v, t), ctx)
        return "(ELit %s %s)" % (t, coq_z(v)), t
    if k == "CXXBoolLiteralExpr":
        return "(ELit TBool %d)" % (1 if n.get("value") else 0), "TBool"
    if k == "UnaryOperator":
        op = n.get("opcode")
        if op not in UNOPS or len(ch) != 1:
            raise Untranslatable(n, "unary operator %s" % op, ctx)
        g, t = expr(ch[0], ctx)
        rt = "TBool" if op == "!" else promote(t)
        check_type(n, rt, ctx)
        return "(EUn %s %s)" % (UNOPS[op], g), rt
    if k == "BinaryOperator":
        op = n.get("opcode")
        if len(ch) != 2:
            raise Untranslatable(n, "binary operator with %d operands" % len(ch), ctx)
        if op in ("&&", "||"):
            (ga, ta), (gb, tb) = expr(ch[0], ctx), expr(ch[1], ctx)
            check_type(n, "TBool", ctx)
            return "(%s %s %s)" % ("ELAnd" if op == "&&" else "ELOr", ga, gb), "TBool"
        if op not in BINOPS:
            raise Untranslatable(n, "binary operator %s (assignment, comma and pointer-to-member are not in the fragment)" % op, ctx)
        (ga, ta), (gb, tb) = expr(ch[0], ctx), expr(ch[1], ctx)
        if op in ("==", "!=", "<", ">", "<=", ">="):
            rt = "TBool"
        elif op in ("<<", ">>"):
            rt = promote(ta)
        else:
            rt = common(promote(ta), promote(tb))
        check_type(n, rt, ctx)
        return "(EBin %s %s %s)" % (BINOPS[op], ga, gb), rt
    if k == "ConditionalOperator":
        if len(ch) != 3:
            raise Untranslatable(n, "?: with %d operands" % len(ch), ctx)
        (gc, tc), (ga, ta), (gb, tb) = expr(ch[0], ctx), expr(ch[1], ctx), expr(ch[2], ctx)
        rt = ta if ta == tb else common(promote(ta), promote(tb))
        check_type(n, rt, ctx)
        return "(ECond %s %s %s)" % (gc, ga, gb), rt
    if k == "CXXOperatorCallExpr":
        # op == "lit"   /   "lit" == op      on the std::string parameter
        if callee_name(n) == "operator==" and len(ch) == 3:
            a, b = ch[1], ch[2]
            for x, y in ((a, b), (b, a)):
                lit = strip_to_string_literal(y, ctx)
                if lit is not None and is_sparam_ref(x, ctx):
                    check_type(n, "TBool", ctx)
                    return "(EStrEq %s %s)" % (coq_string(ctx.sparam[0]), coq_string(lit)), "TBool"
        raise Untranslatable(n, "overloaded operator call other than <string parameter> == \"literal\" (%s)" % callee_name(n), ctx)
    raise Untranslatable(n, "expression kind outside the integer fragment", ctx)


def check_type(n, t, ctx):
    ct = ity(n, ctx)
    if ct != t:
        raise Untranslatable(n, "clang gives this expression the type %s, the rules of Cxx.v give %s" % (ct, t), ctx)


SIDE_EFFECT_KINDS = ("CompoundAssignOperator", "CXXNewExpr", "CXXDeleteExpr", "LambdaExpr", "CallExpr", "CXXOperatorCallExpr",
                     "CXXConstructExpr", "CXXThrowExpr")


def assert_effect_free(n, ctx, root):
    """Arguments of a dropped diagnostic call must not do anything."""
    k = n.get("kind")
    if k in SIDE_EFFECT_KINDS:
        raise Untranslatable(root, "argument of a dropped %s call contains a %s" % (callee_name(root), k), ctx)
    if k == "UnaryOperator" and n.get("opcode") in ("++", "--"):
        raise Untranslatable(root, "argument of a dropped %s call contains %s" % (callee_name(root), n.get("opcode")), ctx)
    if k == "BinaryOperator" and (n.get("opcode") == "=" or n.get("opcode") == ","):
        raise Untranslatable(root, "argument of a dropped %s call contains an assignment or comma" % callee_name(root), ctx)
    if k == "CXXMemberCallExpr":
        m = kids(n)[0] if kids(n) else {}
        if not (m.get("kind") == "MemberExpr" and m.get("name") in ("c_str", "size", "length", "empty")):
            raise Untranslatable(root, "argument of a dropped %s call calls member %r" % (callee_name(root), m.get("name")), ctx)
    for c in kids(n):
        assert_effect_free(c, ctx, root)


def message(n, ctx, root):
    """The std::string / const char * argument of std::runtime_error(...)."""
    lit = strip_to_string_literal(n, ctx)
    if lit is not None:
        return "(MLit %s)" % coq_string(lit)
    k = n.get("kind")
    if k in ("MaterializeTemporaryExpr", "CXXBindTemporaryExpr", "ExprWithCleanups", "ParenExpr") and len(kids(n)) == 1:
        return message(kids(n)[0], ctx, root)
    if k == "ImplicitCastExpr" and n.get("castKind") == "NoOp" and len(kids(n)) == 1:
        return message(kids(n)[0], ctx, root)
    if is_sparam_ref(n, ctx):
        return "(MStr %s)" % coq_string(ctx.sparam[0])
    if k == "CXXOperatorCallExpr" and callee_name(n) == "operator+" and len(kids(n)) == 3:
        return "(MCat %s %s)" % (message(kids(n)[1], ctx, root), message(kids(n)[2], ctx, root))
    raise Untranslatable(n, "exception text that is not \"literal\", the string parameter or a + of those", ctx)


def throw_stmt(n, ctx):
    ch = kids(n)
    if len(ch) != 1:
        raise Untranslatable(n, "rethrow (`throw;`)", ctx)
    e = ch[0]
    t = e.get("type", {})
    if t.get("desugaredQualType", t.get("qualType")) != "std::runtime_error":
        raise Untranslatable(e, "throw of a %s (only std::runtime_error is in the fragment)" % t.get("qualType"), ctx)
    while e.get("kind") in ("CXXFunctionalCastExpr", "CXXBindTemporaryExpr", "ExprWithCleanups", "CXXTemporaryObjectExpr") and \
            len(kids(e)) == 1 and e.get("kind") != "CXXConstructExpr":
        e = kids(e)[0]
    if e.get("kind") not in ("CXXConstructExpr", "CXXTemporaryObjectExpr") or len(kids(e)) != 1:
        raise Untranslatable(e, "std::runtime_error not constructed from exactly one argument", ctx)
    return "(SThrow %s)" % message(kids(e)[0], ctx, n)


def seq(stmts):
    stmts = [s for s in stmts if s != "SSkip"] or ["SSkip"]
    out = stmts[-1]
    for s in reversed(stmts[:-1]):
        out = ("SSeq", s, out)
    return out


def stmt(n, ctx):
    """Returns a nested tuple tree: str | ('SSeq', a, b) | ('SIf', cond, a, b)."""
    ctx.nodes += 1
    k = n.get("kind")
    ch = kids(n)
    if k == "CompoundStmt":
        ctx.scopes.append({})
        try:
            return seq([stmt(c, ctx) for c in ch])
        finally:
            ctx.scopes.pop()
    if k == "NullStmt":
        return "SSkip"
    if k == "ReturnStmt":
        if len(ch) != 1:
            raise Untranslatable(n, "return without a value", ctx)
        g, t = expr(ch[0], ctx)
        return "(SReturn %s)" % g
    if k == "IfStmt":
        if n.get("hasInit") or n.get("hasVar") or n.get("isConstexpr"):
            raise Untranslatable(n, "if with an init-statement, a condition declaration or constexpr", ctx)
        if len(ch) not in (2, 3) or (len(ch) == 3) != bool(n.get("hasElse")):
            raise Untranslatable(n, "if statement of an unexpected shape", ctx)
        g, t = expr(ch[0], ctx)
        if t != "TBool":
            raise Untranslatable(ch[0], "condition of type %s without a conversion to bool" % t, ctx)
        ctx.scopes.append({})
        try:
            a = stmt(ch[1], ctx)
        finally:
            ctx.scopes.pop()
        ctx.scopes.append({})
        try:
            b = stmt(ch[2], ctx) if len(ch) == 3 else "SSkip"
        finally:
            ctx.scopes.pop()
        return ("SIf", g, a, b)
    if k == "ExprWithCleanups" and len(ch) == 1:
        return stmt(ch[0], ctx)
    if k == "CXXThrowExpr":
        return throw_stmt(n, ctx)
    if k == "CallExpr":
        name = callee_name(n)
        if name in DROPPED_CALLS:
            for a in ch[1:]:
                assert_effect_free(a, ctx, n)
            ctx.dropped.append(name)
            return "(SEffect %s)" % coq_string(name)
        raise Untranslatable(n, "call of %s (only statement-level calls of %s may be dropped)" % (name, " / ".join(DROPPED_CALLS)), ctx)
    if k == "DeclStmt":
        out = []
        for d in ch:
            if d.get("kind") != "VarDecl" or d.get("init") != "c" or len(kids(d)) != 1 or d.get("storageClass"):
                raise Untranslatable(d, "declaration other than `T x = e;` with an integer type", ctx)
            t = ity(d, ctx, "declared type")
            g, te = expr(kids(d)[0], ctx)
            ctx.scopes[-1][d.get("id")] = (d.get("name"), t)
            out.append("(SDecl %s %s %s)" % (t, coq_string(d.get("name")), g))
        return seq(out)
    raise Untranslatable(n, "statement kind outside the fragment", ctx)


def render_stmt(s, ind):
    pad = " " * ind
    if isinstance(s, str):
        return pad + s
    if s[0] == "SSeq":
        # a right-nested sequence is printed flat
        items, cur = [], s
        while not isinstance(cur, str) and cur[0] == "SSeq":
            items.append(cur[1])
            cur = cur[2]
        items.append(cur)
        out = []
        for i, it in enumerate(items[:-1]):
            out.append(pad + "(SSeq")
            out.append(render_stmt(it, ind + 1))
        out.append(render_stmt(items[-1], ind + 1) + ")" * (len(items) - 1))
        return "\n".join(out)
    if s[0] == "SIf":
        return "%s(SIf %s\n%s\n%s)" % (pad, s[1], render_stmt(s[2], ind + 2), render_stmt(s[3], ind + 1))
    raise AssertionError(s)


def translate_function(qname, decl, src_bytes):
    ctx = Ctx(qname, src_bytes)
    name = decl.get("name")
    loc = decl.get("loc", {})
    rng = decl.get("range", {})
    b, e = rng.get("begin", {}), rng.get("end", {})
    if "offset" not in b or "offset" not in e or "offset" not in loc:
        raise Untranslatable(decl, "definition whose source range is not plain (macro?)", ctx)
    if src_bytes[loc["offset"]:loc["offset"] + loc.get("tokLen", 0)] != name.encode():
        raise Untranslatable(decl, "source offsets do not point at the function's name in the given file", ctx)
    text = src_bytes[b["offset"]:e["offset"] + e.get("tokLen", 1)]
    rtype = decl.get("type", {}).get("qualType", "")
    ret_q = rtype.split("(")[0].strip()
    ret = {"int64_t": "TLong", "uint64_t": "TULong"}.get(ret_q) or TYPES.get(ret_q)
    if ret is None:
        raise Untranslatable(decl, "return type %r is not an integer type of the fragment" % ret_q, ctx)
    params, body = [], None
    ctx.scopes.append({})
    for c in kids(decl):
        if c.get("kind") == "ParmVarDecl":
            if is_std_string(c.get("type", {})):
                if ctx.sparam is not None:
                    raise Untranslatable(c, "more than one std::string parameter", ctx)
                ctx.sparam = (c.get("name"), c.get("id"))
            else:
                t = ity(c, ctx, "parameter type")
                if not c.get("name"):
                    raise Untranslatable(c, "unnamed parameter", ctx)
                params.append((c.get("name"), t))
                ctx.scopes[-1][c.get("id")] = (c.get("name"), t)
        elif c.get("kind") == "CompoundStmt":
            body = c
        elif c.get("kind") in ("FullComment",) or c.get("kind", "").endswith("Attr"):
            continue
        else:
            raise Untranslatable(c, "unexpected child of the function declaration", ctx)
    if body is None:
        raise Untranslatable(decl, "no body", ctx)
    if len(set(p for p, _ in params)) != len(params):
        raise Untranslatable(decl, "duplicate parameter names", ctx)
    tree = stmt(body, ctx)
    gal = ("Definition fn_%s : fn :=\n"
           "  {| f_name := %s; f_ret := %s; f_sparam := %s;\n"
           "     f_params := [%s];\n"
           "     f_body :=\n%s |}.") % (
        name, coq_string(qname), ret, coq_string(ctx.sparam[0] if ctx.sparam else ""),
        "; ".join("(%s, %s)" % (coq_string(p), t) for p, t in params), render_stmt(tree, 7))
    return {"name": name, "qname": qname, "sha256": _sha(text), "gallina": gal, "lines": (ctx.line_of(decl), None),
            "nodes": ctx.nodes, "dropped_calls": ctx.dropped, "params": params, "sparam": ctx.sparam[0] if ctx.sparam else None}


def render(target, source, fns):
    lines = [
        "(* GENERATED by translators/cxx_pure.py from clang's AST (-ast-dump=json) of %s." % source,
        "   Do not edit: rewritten by ./check %s whenever the C++ text of these functions changes." % target.get("prop", "C01"),
        "   Meaning of the terms: coq/Cxx/Cxx.v. *)",
        "From Coq Require Import ZArith String List.",
        "From Cb Require Import Cxx.Cxx.",
        "Import ListNotations.",
        "Local Open Scope string_scope.",
        "Local Open Scope Z_scope.",
        "",
    ]
    for f in fns:
        lines.append("(* %s : %s" % (source, f["qname"]))
        lines.append("   sha256 of the function's source text: %s *)" % f["sha256"])
        lines.append(f["gallina"])
        lines.append("")
    return "\n".join(lines)


def regenerate(repo, target_name="helpers", dest=None, use_cache=True):
    """Returns (info, status), status in {'unchanged', 'rewritten', 'failed'}.  On 'failed' the destination is left as
    it is and info['problem'] says which AST node could not be translated."""
    tgt = TARGETS[target_name]
    dest = dest or os.path.join(VERIF, tgt["dest"])
    info = {"target": target_name, "source": tgt["source"], "functions": {}, "dest": os.path.relpath(dest, VERIF)}
    t0 = time.time()
    try:
        decls, cinfo = clang_functions(repo, tgt["source"], tgt["functions"], use_cache)
        info.update(cinfo)
        with open(os.path.join(repo, tgt["source"]), "rb") as fh:
            src = fh.read()
        fns = [translate_function(q, decls[q], src) for q in tgt["functions"]]
    except Untranslatable as e:
        info["problem"] = {"function": e.fn, "node": e.kind, "line": e.line, "why": e.why, "text": str(e)}
        info["wall_s"] = round(time.time() - t0, 2)
        return info, "failed"
    for f in fns:
        info["functions"][f["qname"]] = {"sha256": f["sha256"], "ast_nodes": f["nodes"], "dropped_calls": f["dropped_calls"],
                                         "line": f["lines"][0]}
    txt = render(tgt, tgt["source"], fns)
    old = open(dest).read() if os.path.exists(dest) else None
    info["wall_s"] = round(time.time() - t0, 2)
    if old == txt:
        return info, "unchanged"
    tmp = dest + ".tmp%d" % os.getpid()
    with open(tmp, "w") as fh:
        fh.write(txt)
    os.replace(tmp, dest)
    info["wall_s"] = round(time.time() - t0, 2)
    return info, "rewritten"


def main(argv):
    if len(argv) < 2:
        print(__doc__)
        return 2
    repo = argv[1]
    rc = 0
    for t in (argv[2:] or sorted(TARGETS)):
        info, st = regenerate(repo, t)
        print("%s: %s" % (t, st))
        print(json.dumps(info, indent=1))
        if st == "failed":
            print("UNTRANSLATABLE: " + info["problem"]["text"], file=sys.stderr)
            rc = 3
    return rc


if __name__ == "__main__":
    sys.exit(main(sys.argv))
