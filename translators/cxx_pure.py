#!/usr/bin/env python3
"""C++ -> Gallina translator for small pure integer functions of the interpreter (work package X1).

Targets (TARGETS): `helpers` - five whole functions of helpers.cpp (-> coq/C01/Gen_Helpers.v); `typed_chain` - the dispatch
chain that ends evaluate_binary_op_typed, cut out of the function (-> coq/C01/Gen_TypedChain.v); `check_type_range` - the
closure TypeManager::check_type_range hands to evaluate_safe (-> coq/C04/Gen_CheckTypeRange.v, for property C04); `flat_index` -
the member function Variable::calculate_flat_index of core/interpreter.h with its loop (-> coq/C05/Gen_FlatIndex.v, property C05):
the std::vector objects it reads (its parameter, data members of *this) become the vector parameters of a Cxx.vfn; its `parts` are
the copies of that loop elsewhere (ArrayManager, StructOperations, the float read path of the typed evaluator): REGIONS - the
then-branch of one named `if` of a large function (optionally only up to the end of its first for loop) - whose result is the
variable they compute and whose inputs are the vectors of the enclosing function they read.

    cxx_pure.py <repo-root> [target ...]        targets: see TARGETS (default: all)

For every target it runs

    clang++ -std=c++17 -I. -Isrc -Isrc/backend/interpreter -fsyntax-only \
            -Xclang -ast-dump=json -Xclang -ast-dump-filter=<common prefix of the function names> <file>

once in the given repository tree (the result, pruned to the wanted function definitions, is cached under
/verif/.cache/cxx_pure/ keyed on the hash of the source file, of every header under src/ and of clang's version),
walks clang's AST of the named functions and writes `Definition fn_<name> : Cxx.fn := ...` terms of the deep
embedding coq/Cxx/Cxx.v.  The output is deterministic and the file is only written when its text changed.

The translator understands exactly the constructs of Cxx.v.  ANYTHING else in a function body makes it fail loudly
(`Untranslatable`: AST node kind, source line, reason; exit status 3 on the command line) - nothing is skipped
silently.  The only things it drops are statement-level calls of error_msg / debug_msg whose arguments have no side
effects; they are kept in the term as `SEffect "<callee>"`.

Trusted: clang's parser and semantic analysis (the implicit conversions in the AST are clang's; Cxx.v applies the
integer promotions and the usual arithmetic conversions again by itself, and this translator cross-checks the type
Cxx.v computes for every expression against the type clang reports - a disagreement is an error), this file, Cxx.v.
"""
import hashlib
import json
import os
import re
import subprocess
import sys
import time

VERIF = os.path.dirname(os.path.dirname(os.path.abspath(__file__)))
CACHE = os.path.join(VERIF, ".cache", "cxx_pure")
CLANG = "clang++"
CLANG_FLAGS = ["-std=c++17", "-I.", "-Isrc", "-Isrc/backend/interpreter", "-fsyntax-only"]

TARGETS = {
    "helpers": {
        "source": "src/backend/interpreter/evaluator/core/helpers.cpp",
        "functions": ["ExpressionHelpers::evaluate_arithmetic_binary", "ExpressionHelpers::evaluate_comparison_binary",
                      "ExpressionHelpers::evaluate_logical_binary", "ExpressionHelpers::evaluate_bitwise_binary",
                      "ExpressionHelpers::evaluate_simple_unary"],
        "dest": "coq/C01/Gen_Helpers.v",
    },
    # the integer tail of the typed evaluator: the `if (node->op == "+") ... else if ...` chain that ends
    # evaluate_binary_op_typed, cut out of the function; variables declared before the chain become parameters, pure
    # boolean observations of the operands (left_value.is_string(), inferred_type.type_info == TYPE_DOUBLE, truthy(..))
    # become named boolean parameters ("flags"), calls of the local result builders become SReturnCall
    "typed_chain": {
        "source": "src/backend/interpreter/evaluator/operators/binary_unary.cpp",
        "functions": ["BinaryUnaryTypedHelpers::evaluate_binary_op_typed"],
        "dest": "coq/C01/Gen_TypedChain.v",
        "tail_chain": {"string": "node->op", "first": "+", "suffix": "_chain"},
    },
    # TypeManager::check_type_range (C04): the body of the closure it hands to evaluate_safe - a switch over the type code that
    # sets min_allowed / max_allowed, then the range test.  Captured variables (type, value, is_unsigned) become parameters;
    # the unscoped enum TypeInfo has underlying type int (gcc / clang: all enumerators fit int, [dcl.enum]/7)
    "check_type_range": {
        "source": "src/backend/interpreter/managers/types/manager.cpp",
        "functions": ["TypeManager::check_type_range"],
        "dest": "coq/C04/Gen_CheckTypeRange.v",
        "lambda_body": {"enums": {"TypeInfo": "TInt"}},
        "prop": "C04",
    },
    # Variable::calculate_flat_index (C05): a const member function with a for loop over two std::vectors.  `indices` (const
    # std::vector<int> &) and the data member array_type_info.dimensions (std::vector<ArrayDimension>, of which only the int
    # field `size` is read: the vector of those fields) become the vector parameters of a Cxx.vfn
    # further parts (same destination file): the copies of that loop that bypass calculate_flat_index - the `array_dimensions`
    # branch of ArrayManager::get/setMultidimensional*ArrayElement*: the then-branch of `if (!var.array_dimensions.empty())` is
    # cut out of the function; the vectors it reads (indices, int_indices, var.array_dimensions) become vector parameters, the
    # variable it computes (flat_index, declared before the if and first assigned at the top of the branch) is returned
    "flat_index": {
        "source": "src/backend/interpreter/core/interpreter.h",
        "functions": ["Variable::calculate_flat_index"],
        "dest": "coq/C05/Gen_FlatIndex.v",
        "vectors": True,
        "prop": "C05",
        "parts": [
            {"source": "src/backend/interpreter/managers/arrays/manager.cpp",
             "functions": ["ArrayManager::getMultidimensionalArrayElementTyped",
                           "ArrayManager::setMultidimensionalArrayElement|void (Variable &, const std::vector<int64_t> &, int64_t)",
                           "ArrayManager::setMultidimensionalArrayElement|void (Variable &, const std::vector<int64_t> &, double)",
                           "ArrayManager::getMultidimensionalStringArrayElement",
                           "ArrayManager::setMultidimensionalStringArrayElement"],
             "names": ["get_typed_flat", "set_int_flat", "set_double_flat", "get_string_flat", "set_string_flat"],
             "region": {"if_cond": "!var.array_dimensions.empty()", "result": "flat_index"}},
            # the read path of obj.member[i]...[k]: compares the int64_t subscripts directly, computes in size_t
            {"source": "src/backend/interpreter/managers/structs/operations.cpp",
             "functions": ["StructOperations::get_struct_member_multidim_array_element"],
             "names": ["member_read_flat"],
             "region": {"if_cond": "member_var->is_multidimensional && !member_var->array_dimensions.empty()", "result": "flat_index",
                        "through_for": True}},
            # the read path of float / double / quad arrays: NO per-dimension test (known finding of C05)
            {"source": "src/backend/interpreter/evaluator/core/evaluator.cpp",
             "functions": ["ExpressionEvaluator::evaluate_typed_expression_internal"],
             "names": ["float_read_flat"],
             "region": {"if_cond": "var->is_multidimensional && indices.size() > 1", "result": "flat_index", "through_for": True}},
        ],
    },
}


class Untranslatable(Exception):
    """Something in the function that the Cxx fragment has no construct for."""

    def __init__(self, node, why, ctx=None):
        self.kind = node.get("kind", "?") if isinstance(node, dict) else str(node)
        self.line = ctx.line_of(node) if ctx is not None and isinstance(node, dict) else None
        self.why = why
        self.fn = ctx.qname if ctx is not None else None
        Exception.__init__(self, "%s: cannot translate AST node %s%s: %s" % (
            self.fn or "?", self.kind, (" at line %s" % self.line) if self.line else "", why))


# ------------------------------------------------------------------------------------------------
# clang
# ------------------------------------------------------------------------------------------------

def _sha(b):
    return hashlib.sha256(b).hexdigest()


def _clang_version():
    try:
        return subprocess.run([CLANG, "--version"], stdout=subprocess.PIPE, stderr=subprocess.STDOUT, timeout=20).stdout.decode()
    except Exception as e:            # noqa: BLE001
        return "unavailable: %s" % e


def _inputs_hash(repo, source):
    """Hash of everything the AST can depend on inside the repository: the source file and every header under src/."""
    h = hashlib.sha256()
    h.update(_clang_version().encode())
    h.update(" ".join(CLANG_FLAGS).encode())
    files = [os.path.join(repo, source)]
    for root, dirs, fs in os.walk(os.path.join(repo, "src")):
        dirs.sort()
        for f in sorted(fs):
            if f.endswith((".h", ".hpp", ".inc")):
                files.append(os.path.join(root, f))
    for f in files:
        h.update(os.path.relpath(f, repo).encode() + b"\0")
        with open(f, "rb") as fh:
            h.update(hashlib.sha256(fh.read()).digest())
    return h.hexdigest()[:32]


def _common_prefix(names):
    p = os.path.commonprefix(list(names))
    return p if len(names) > 1 else names[0]


def _parse_concatenated_json(txt):
    dec, i, out = json.JSONDecoder(), 0, []
    while True:
        i = txt.find("{", i)
        if i < 0:
            return out
        o, i = dec.raw_decode(txt, i)
        out.append(o)


def clang_functions(repo, source, qnames, use_cache=True):
    """Returns ({qualified name: FunctionDecl JSON}, info). One clang run per source file (cached)."""
    info = {"cache": "miss", "clang_s": 0.0}
    flt = _common_prefix([q.partition("|")[0] for q in qnames])
    key = _inputs_hash(repo, source) + "-" + _sha((source + "|" + flt + "|" + ",".join(qnames)).encode())[:12]
    cpath = os.path.join(CACHE, key + ".json")
    if use_cache and os.path.exists(cpath):
        try:
            with open(cpath) as fh:
                data = json.load(fh)
            info["cache"] = "hit"
            return data, info
        except Exception:             # noqa: BLE001  (a torn cache file: recompute)
            pass
    t0 = time.time()
    cmd = ["timeout", "300", CLANG] + CLANG_FLAGS + ["-Xclang", "-ast-dump=json", "-Xclang", "-ast-dump-filter=" + flt, source]
    p = subprocess.run(cmd, cwd=repo, stdout=subprocess.PIPE, stderr=subprocess.PIPE, timeout=330)
    info["clang_s"] = round(time.time() - t0, 2)
    err = p.stderr.decode("utf-8", "replace")
    if p.returncode != 0:
        raise Untranslatable({"kind": "TranslationUnit"}, "clang failed (rc %d) on %s: %s" % (p.returncode, source, err[-1500:]))
    decls = _parse_concatenated_json(p.stdout.decode("utf-8", "replace"))
    data = {}
    for q in qnames:
        qn, _, want_type = q.partition("|")         # "Class::name|type": one of several overloads
        short = qn.split("::")[-1]
        defs = [d for d in decls if d.get("kind") in ("FunctionDecl", "CXXMethodDecl") and d.get("name") == short
                and any(c.get("kind") == "CompoundStmt" for c in d.get("inner", []))
                and (not want_type or d.get("type", {}).get("qualType") == want_type)]
        if len(defs) != 1:
            raise Untranslatable({"kind": "FunctionDecl"}, "%d definitions of %s found in %s (filter %s)" % (len(defs), q, source, flt))
        data[q] = defs[0]
    os.makedirs(CACHE, exist_ok=True)
    tmp = cpath + ".tmp%d" % os.getpid()
    with open(tmp, "w") as fh:
        json.dump(data, fh)
    os.replace(tmp, cpath)
    # keep the cache small
    ents = sorted((os.path.getmtime(os.path.join(CACHE, e)), e) for e in os.listdir(CACHE) if e.endswith(".json"))
    for mt, e in ents[:-40]:
        if time.time() - mt > 3600:
            try:
                os.remove(os.path.join(CACHE, e))
            except OSError:
                pass
    return data, info


# ------------------------------------------------------------------------------------------------
# the fragment (mirrors coq/Cxx/Cxx.v; used only for the type cross-check and for rendering)
# ------------------------------------------------------------------------------------------------

TYPES = {"bool": "TBool", "int": "TInt", "unsigned int": "TUInt", "long": "TLong", "unsigned long": "TULong", "long double": "TLDouble"}
SIGNED = {"TInt", "TLong", "TLDouble"}
RANK = {"TBool": 0, "TInt": 1, "TUInt": 1, "TLong": 2, "TULong": 2, "TLDouble": 3}
BITS = {"TBool": 1, "TInt": 32, "TUInt": 32, "TLong": 64, "TULong": 64, "TLDouble": 64}
RANGE = {"TBool": (0, 1), "TInt": (-2**31, 2**31 - 1), "TUInt": (0, 2**32 - 1), "TLong": (-2**63, 2**63 - 1), "TULong": (0, 2**64 - 1)}
BINOPS = {"+": "BAdd", "-": "BSub", "*": "BMul", "/": "BDiv", "%": "BRem", "&": "BAnd", "|": "BOr", "^": "BXor",
          "<<": "BShl", ">>": "BShr", "==": "BEq", "!=": "BNe", "<": "BLt", ">": "BGt", "<=": "BLe", ">=": "BGe"}
UNOPS = {"+": "UPlus", "-": "UNeg", "!": "UNot", "~": "UCompl"}
DROPPED_CALLS = ("error_msg", "debug_msg")


def promote(t):
    return "TInt" if t == "TBool" else t


def common(a, b):
    if "TLDouble" in (a, b):
        return "TLDouble"
    if a == b:
        return a
    if (a in SIGNED) == (b in SIGNED):
        return b if RANK[a] < RANK[b] else a
    s, u = (a, b) if a in SIGNED else (b, a)
    if RANK[s] <= RANK[u]:
        return u
    if BITS[u] < BITS[s]:
        return s
    return {"TInt": "TUInt", "TLong": "TULong"}[s]


def c_unescape(lit, node, ctx):
    """The C++ spelling of a narrow string literal ("..." as clang prints it) -> its characters."""
    if not (len(lit) >= 2 and lit[0] == '"' and lit[-1] == '"'):
        raise Untranslatable(node, "string literal with a prefix or raw string: %r" % lit, ctx)
    s, out, i = lit[1:-1], [], 0
    simple = {"n": "\n", "t": "\t", "\\": "\\", '"': '"', "'": "'", "0": "\0", "r": "\r", "a": "\a", "b": "\b", "f": "\f", "v": "\v", "?": "?"}
    while i < len(s):
        c = s[i]
        if c != "\\":
            out.append(c)
            i += 1
            continue
        if i + 1 >= len(s):
            raise Untranslatable(node, "dangling backslash in %r" % lit, ctx)
        d = s[i + 1]
        if d == "x":
            m = re.match(r"[0-9a-fA-F]+", s[i + 2:])
            if not m:
                raise Untranslatable(node, "bad \\x escape in %r" % lit, ctx)
            out.append(chr(int(m.group(0), 16) & 255))
            i += 2 + len(m.group(0))
        elif d in "01234567" and not (d == "0" and (i + 2 >= len(s) or s[i + 2] not in "01234567")):
            m = re.match(r"[0-7]{1,3}", s[i + 1:])
            out.append(chr(int(m.group(0), 8) & 255))
            i += 1 + len(m.group(0))
        elif d in simple:
            out.append(simple[d])
            i += 2
        else:
            raise Untranslatable(node, "escape sequence \\%s in %r" % (d, lit), ctx)
    txt = "".join(out)
    if any(not (32 <= ord(ch) < 127) for ch in txt):
        raise Untranslatable(node, "string literal with characters outside printable ASCII: %r" % lit, ctx)
    return txt


def coq_string(s):
    return '"' + s.replace('"', '""') + '"'


def coq_z(n):
    return str(n) if n >= 0 else "(%d)" % n


class Ctx:
    def __init__(self, qname, src_text):
        self.qname = qname
        self.src = src_text
        self.sparam = None          # (name, decl id) of the std::string parameter
        self.scopes = []            # list of dicts: decl id -> (name, type)
        self.dropped = []
        self.nodes = 0
        self.abstract = False       # chain mode: outer variables and pure boolean observations become parameters
        self.outer = {}             # decl id -> (name, type) of variables declared before the chain, in order of first use
        self.flags = []             # source texts of the boolean observations, in order of first use
        self.sparam_text = None     # chain mode: the source text of the string the chain dispatches on (node->op)
        self.enums = {}             # enum type name -> the Cxx integer type that represents it
        self.labels = []            # (enumerator name, value) of the case labels met
        self.vectors = False        # vector mode: std::vector objects that are only read become vector parameters
        self.vec_params = {}        # decl id of a `const std::vector<T> &` parameter -> (name, element type)
        self.vec_members = {}       # name (source text of the member chain, plus "[].field" for a vector of structs) -> element type
        self.struct_vecs = {}       # source text of a vector of structs -> set of the fields read from its elements
        self.members = {}           # source text of an integer data member of *this that is read -> its type
        self.region = False         # region mode: a piece of a larger function; what it reads from outside becomes parameters
        self.vec_outer = {}         # region mode: decl id of a std::vector variable of the enclosing function -> (name, element type)
        self.region_top = set()     # region mode: ids of the top-level statements of the region

    def text_of(self, node):
        """Source text of a node (whitespace-normalised); None if its range is not plain text of the file."""
        rng = node.get("range", {})
        b, e = rng.get("begin", {}), rng.get("end", {})
        if "offset" not in b or "offset" not in e:
            return None
        t = self.src[b["offset"]:e["offset"] + e.get("tokLen", 1)].decode("utf-8", "replace")
        return re.sub(r"\s+", " ", t).strip()

    def line_of(self, node):
        rng = node.get("range", {}).get("begin", {})
        if "expansionLoc" in rng:
            rng = rng["expansionLoc"]
        off = rng.get("offset")
        if off is None or off > len(self.src) or "file" in rng and not rng["file"].endswith((".cpp", ".h")):
            return None
        return self.src.count(b"\n", 0, off) + 1

    def find_var(self, ref, node):
        rid = ref.get("id")
        for sc in reversed(self.scopes):
            if rid in sc:
                return sc[rid]
        if self.abstract and ref.get("kind") in ("VarDecl", "ParmVarDecl") and ref.get("name"):
            if rid not in self.outer:
                self.outer[rid] = (ref.get("name"), ity(node, self, "type of the outer variable %s" % ref.get("name")))
            return self.outer[rid]
        raise Untranslatable(node, "reference to %s %r which is not an integer parameter or local of the function" % (
            ref.get("kind"), ref.get("name")), self)


def ity(node, ctx, what="type"):
    t = node.get("type", {})
    q = t.get("desugaredQualType", t.get("qualType", ""))
    q = re.sub(r"\bconst\b", "", q).strip()
    q = re.sub(r"\s+", " ", q)
    if ctx is not None and q in ctx.enums:
        return ctx.enums[q]
    if q not in TYPES:
        raise Untranslatable(node, "%s %r is not one of bool / int / unsigned int / long / unsigned long" % (what, t.get("qualType")), ctx)
    return TYPES[q]


def is_std_string(t):
    q = t.get("desugaredQualType", t.get("qualType", ""))
    q = re.sub(r"\bconst\b|&", "", q).strip()
    return q in ("std::basic_string<char>", "std::string", "basic_string<char, std::char_traits<char>, std::allocator<char>>") or \
        re.sub(r"\bconst\b|&", "", t.get("qualType", "")).strip() in ("std::string",)


def kids(n):
    return n.get("inner", [])


def strip_to_string_literal(n, ctx):
    """`"lit"` as an argument of type const char *: ImplicitCastExpr<ArrayToPointerDecay>(StringLiteral)."""
    if n.get("kind") == "ImplicitCastExpr" and n.get("castKind") == "ArrayToPointerDecay" and len(kids(n)) == 1 \
            and kids(n)[0].get("kind") == "StringLiteral":
        return c_unescape(kids(n)[0].get("value", ""), kids(n)[0], ctx)
    return None


def is_sparam_ref(n, ctx):
    while n.get("kind") in ("ImplicitCastExpr", "ParenExpr") and n.get("castKind", "NoOp") == "NoOp" and len(kids(n)) == 1:
        n = kids(n)[0]
    if ctx.sparam_text is not None:
        return n.get("kind") == "MemberExpr" and is_std_string(n.get("type", {})) and ctx.text_of(n) == ctx.sparam_text
    return (n.get("kind") == "DeclRefExpr" and ctx.sparam is not None
            and n.get("referencedDecl", {}).get("id") == ctx.sparam[1])


def callee_name(call):
    k = kids(call)
    if not k:
        return None
    c = k[0]
    while c.get("kind") in ("ImplicitCastExpr", "ParenExpr") and len(kids(c)) == 1:
        c = kids(c)[0]
    if c.get("kind") == "DeclRefExpr":
        return c.get("referencedDecl", {}).get("name")
    return None


PURE_KINDS = ("DeclRefExpr", "MemberExpr", "ImplicitCastExpr", "ParenExpr", "CXXMemberCallExpr", "CXXOperatorCallExpr",
              "MaterializeTemporaryExpr", "CXXBindTemporaryExpr", "ExprWithCleanups", "BinaryOperator", "UnaryOperator")
PURE_OPERATORS = ("operator==", "operator!=", "operator<", "operator>", "operator<=", "operator>=", "operator()")
PURE_METHOD = re.compile(r"^(is_|as_|has_)\w+$")


def pure_observation(n, ctx, root):
    """Is the subtree a side-effect-free observation of variables (member reads, const predicates, comparisons,
    calls of local closures on variables)?  Raises Untranslatable (naming the offending node) otherwise."""
    k = n.get("kind")
    if k not in PURE_KINDS:
        raise Untranslatable(n, "inside the boolean expression `%s`, which is not in the fragment and not a pure observation either" % ctx.text_of(root), ctx)
    if k in ("BinaryOperator", "UnaryOperator") and n.get("opcode") not in ("==", "!=", "<", ">", "<=", ">=", "!", "&&", "||"):
        raise Untranslatable(n, "operator %s inside the observation `%s`" % (n.get("opcode"), ctx.text_of(root)), ctx)
    if k == "CXXOperatorCallExpr" and callee_name(n) not in PURE_OPERATORS:
        raise Untranslatable(n, "call of %s inside the observation `%s`" % (callee_name(n), ctx.text_of(root)), ctx)
    if k == "CXXMemberCallExpr":
        m = kids(n)[0] if kids(n) else {}
        if m.get("kind") != "MemberExpr" or not PURE_METHOD.match(m.get("name") or "") or len(kids(n)) != 1:
            raise Untranslatable(n, "member call %r inside the observation `%s` (only argument-less is_* / as_* / has_* predicates)" % (
                m.get("name"), ctx.text_of(root)), ctx)
    if k == "DeclRefExpr" and n.get("referencedDecl", {}).get("kind") not in ("VarDecl", "ParmVarDecl", "EnumConstantDecl", "CXXMethodDecl", "FunctionDecl"):
        raise Untranslatable(n, "reference to a %s inside the observation `%s`" % (n.get("referencedDecl", {}).get("kind"), ctx.text_of(root)), ctx)
    if k == "DeclRefExpr" and n.get("referencedDecl", {}).get("kind") == "FunctionDecl" and n.get("referencedDecl", {}).get("name") not in PURE_OPERATORS:
        raise Untranslatable(n, "call of function %s inside the observation `%s`" % (n.get("referencedDecl", {}).get("name"), ctx.text_of(root)), ctx)
    for c in kids(n):
        pure_observation(c, ctx, root)


def expr(n, ctx):
    """Chain mode: a boolean expression the fragment has no construct for, but which only observes variables, becomes a
    named boolean parameter (its source text)."""
    if not ctx.abstract:
        return expr1(n, ctx)
    t = n.get("type", {})
    if t.get("desugaredQualType", t.get("qualType")) != "bool" or n.get("kind") in ("ParenExpr",):
        return expr1(n, ctx)
    mark = (ctx.nodes, dict(ctx.outer), list(ctx.flags))
    try:
        return expr1(n, ctx)
    except Untranslatable as first:
        ctx.nodes, ctx.outer, ctx.flags = mark[0], mark[1], mark[2]
        txt = ctx.text_of(n)
        if txt is None:
            raise first
        try:
            pure_observation(n, ctx, n)
        except Untranslatable:
            raise first
        if txt not in ctx.flags:
            ctx.flags.append(txt)
        return "(EVar %s)" % coq_string(txt), "TBool"


VEC_TYPE = re.compile(r"^std::vector<\s*(.+?)\s*(?:,\s*std::allocator<.*>\s*)?>$")
STRUCT_VEC_MARK = "\x00size-of:"


def vector_elem(t):
    """The element type spelled in a std::vector type (None if the type is not a std::vector)."""
    for q in (t.get("desugaredQualType"), t.get("qualType")):
        if not q:
            continue
        q = re.sub(r"\bconst\b|&", "", q).strip()
        m = VEC_TYPE.match(q)
        if m:
            return m.group(1).strip()
    return None


def strip_noop(n):
    while n.get("kind") in ("ImplicitCastExpr", "ParenExpr") and n.get("castKind", "NoOp") == "NoOp" and len(kids(n)) == 1:
        n = kids(n)[0]
    return n


def this_member_chain(n, ctx):
    """a.b.c with a a data member of *this (MemberExpr chain ending in CXXThisExpr): its source text; None otherwise."""
    cur, names = n, []
    while cur.get("kind") == "MemberExpr" and len(kids(cur)) == 1:
        names.append(cur.get("name"))
        arrow = cur.get("isArrow")
        cur = strip_noop(kids(cur)[0])
        if arrow and cur.get("kind") == "ImplicitCastExpr" and cur.get("castKind") == "LValueToRValue" and len(kids(cur)) == 1:
            cur = strip_noop(kids(cur)[0])          # p->m: the pointer variable p is read
    if not names or not all(names):
        return None
    if cur.get("kind") == "CXXThisExpr":
        return ".".join(reversed(names))
    if ctx.region and cur.get("kind") == "DeclRefExpr" and cur.get("referencedDecl", {}).get("kind") in ("ParmVarDecl", "VarDecl"):
        # a data member (chain) of an object of the enclosing function: named by its source text
        txt = ctx.text_of(n)
        return re.sub(r"\s+", "", txt) if txt and re.match(r"^[\w.>\- ]+$", txt) else None
    return None


def vector_ref(n, ctx):
    """A std::vector object that the function only reads: a `const std::vector<T> &` parameter, or a data member (chain) of *this
    in a const member function.  Returns (name, element type spelling) or None."""
    if not ctx.vectors:
        return None
    n = strip_noop(n)
    el = vector_elem(n.get("type", {}))
    if el is None:
        return None
    # region mode: a vector of the enclosing function need not be const - every use other than size() / empty() / v[i] read as a
    # value is refused by the translator, so nothing in the region modifies it
    if "const" not in n.get("type", {}).get("qualType", "") and not ctx.region:
        raise Untranslatable(n, "std::vector object that is not const here (the fragment has no writes to vectors)", ctx)
    if n.get("kind") == "DeclRefExpr":
        ref = n.get("referencedDecl", {})
        if ref.get("id") in ctx.vec_params:
            return ctx.vec_params[ref.get("id")][0], el
        if ctx.region and ref.get("kind") in ("ParmVarDecl", "VarDecl") and ref.get("name"):
            t = elem_ity(el, n, ctx, "outer vector")
            if t is None:
                raise Untranslatable(n, "outer std::vector<%s> %s" % (el, ref.get("name")), ctx)
            ctx.vec_outer.setdefault(ref.get("id"), (ref.get("name"), t))
            return ref.get("name"), el
        raise Untranslatable(n, "std::vector %s %r that is not a const reference parameter" % (ref.get("kind"), ref.get("name")), ctx)
    name = this_member_chain(n, ctx)
    if name is None:
        raise Untranslatable(n, "std::vector object that is neither a parameter nor a data member of *this", ctx)
    return name, el


def elem_ity(el, node, ctx, what):
    t = TYPES.get({"int64_t": "long", "uint64_t": "unsigned long", "size_t": "unsigned long", "std::size_t": "unsigned long",
                   "long long": "long", "unsigned long long": "unsigned long"}.get(el, el))
    if t is None or t in ("TBool", "TLDouble"):
        return None
    return t


def vector_of_ints(n, ctx, why):
    """(name, Cxx element type) of a vector of integers; registers a member vector as a parameter."""
    vr = vector_ref(n, ctx)
    if vr is None:
        return None
    name, el = vr
    t = elem_ity(el, n, ctx, why)
    if t is None:
        return name, None, el
    if strip_noop(n).get("kind") != "DeclRefExpr":
        if ctx.vec_members.setdefault(name, t) != t:
            raise Untranslatable(n, "vector %s used at two element types" % name, ctx)
    return name, t, el


def vec_subscript(n, ctx):
    """v[i] (CXXOperatorCallExpr operator[] on a read-only vector), possibly followed by .field when the elements are structs.
    Returns (gallina, type) or None if n is not of that shape."""
    n = strip_noop(n)
    field = None
    if n.get("kind") == "MemberExpr" and len(kids(n)) == 1 and strip_noop(kids(n)[0]).get("kind") == "CXXOperatorCallExpr" \
            and not n.get("isArrow"):
        field, fnode, n = n.get("name"), n, strip_noop(kids(n)[0])
    if n.get("kind") != "CXXOperatorCallExpr" or callee_name(n) != "operator[]" or len(kids(n)) != 3:
        return None
    got = vector_of_ints(kids(n)[1], ctx, "subscript")
    if got is None:
        return None
    name, t, el = got
    if field is None:
        if t is None:
            raise Untranslatable(n, "element of a std::vector<%s> used as a whole (only integer elements, or one integer field of a struct element)" % el, ctx)
    else:
        if t is not None:
            raise Untranslatable(n, "member %s of an integer vector element" % field, ctx)
        t = ity(fnode, ctx, "type of the field %s of %s" % (field, el))
        if t in ("TBool", "TLDouble"):
            raise Untranslatable(fnode, "field %s of type %s" % (field, t), ctx)
        ctx.struct_vecs.setdefault(name, set()).add(field)
        name = "%s[].%s" % (name, field)
        if ctx.vec_members.setdefault(name, t) != t:
            raise Untranslatable(n, "vector %s used at two element types" % name, ctx)
    gi, ti = expr(kids(n)[2], ctx)
    if ti != "TULong":
        raise Untranslatable(kids(n)[2], "vector subscript of type %s without the conversion to size_type" % ti, ctx)
    return "(EVecAt %s %s)" % (coq_string(name), gi), t


def vec_method(n, ctx):
    """v.size() / v.empty() on a read-only vector."""
    if n.get("kind") != "CXXMemberCallExpr" or len(kids(n)) != 1:
        return None
    m = kids(n)[0]
    if m.get("kind") != "MemberExpr" or m.get("name") not in ("size", "empty") or len(kids(m)) != 1 or m.get("isArrow"):
        return None
    got = vector_of_ints(kids(m)[0], ctx, m.get("name"))
    if got is None:
        return None
    name, t, el = got
    if t is None:
        # a vector of structs: its length is the length of the vector of the one field that is read (resolved at the end)
        ctx.struct_vecs.setdefault(name, set())
        name = STRUCT_VEC_MARK + name + "\x00"
    if m.get("name") == "size":
        check_type(n, "TULong", ctx)
        return "(EVecSize %s)" % coq_string(name), "TULong"
    check_type(n, "TBool", ctx)
    return "(EVecEmpty %s)" % coq_string(name), "TBool"


def resolve_struct_vectors(text, ctx, node):
    """EVecSize / EVecEmpty of a vector of structs -> of the vector of its (single) field that is read."""
    for base, fields in sorted(ctx.struct_vecs.items()):
        mark = STRUCT_VEC_MARK + base + "\x00"
        if len(fields) != 1:
            if mark in text or len(fields) > 1:
                raise Untranslatable(node, "vector of structs %s: %d of its fields are read (%s); exactly one is supported" % (
                    base, len(fields), ", ".join(sorted(fields)) or "only its size"), ctx)
            continue
        text = text.replace(mark, "%s[].%s" % (base, sorted(fields)[0]))
    if STRUCT_VEC_MARK in text:
        raise Untranslatable(node, "size of a vector of structs none of whose fields is read", ctx)
    return text


# expressions: returns (gallina term, Cxx type)
def expr1(n, ctx):
    ctx.nodes += 1
    k = n.get("kind")
    ch = kids(n)
    if k in ("ParenExpr", "ExprWithCleanups", "ConstantExpr") and len(ch) == 1:
        return expr(ch[0], ctx)
    if k == "ImplicitCastExpr" or k in ("CXXStaticCastExpr", "CStyleCastExpr", "CXXFunctionalCastExpr"):
        ck = n.get("castKind")
        if len(ch) != 1:
            raise Untranslatable(n, "cast with %d operands" % len(ch), ctx)
        if ck == "LValueToRValue":
            inner = ch[0]
            while inner.get("kind") == "ParenExpr" and len(kids(inner)) == 1:
                inner = kids(inner)[0]
            if ctx.vectors:
                got = vec_subscript(inner, ctx)
                if got is not None:
                    if ity(n, ctx) != got[1]:
                        raise Untranslatable(n, "vector element read at type %s but stored as %s" % (ity(n, ctx), got[1]), ctx)
                    return got
                mname = this_member_chain(strip_noop(inner), ctx)
                if mname is not None and vector_elem(inner.get("type", {})) is None:
                    t = ity(inner, ctx, "type of the data member %s" % mname)
                    if "const" not in inner.get("type", {}).get("qualType", "") and not ctx.region:
                        raise Untranslatable(inner, "data member %s that is not const here" % mname, ctx)
                    if ctx.members.setdefault(mname, t) != t:
                        raise Untranslatable(inner, "data member %s used at two types" % mname, ctx)
                    return "(EVar %s)" % coq_string(mname), t
            if inner.get("kind") != "DeclRefExpr":
                raise Untranslatable(n, "lvalue-to-rvalue conversion of something that is not a plain name (%s)" % inner.get("kind"), ctx)
            return expr(inner, ctx)
        if ck == "NoOp":
            g, t = expr(ch[0], ctx)
            if ity(n, ctx) != t:
                raise Untranslatable(n, "no-op cast that changes the type (%s to %s)" % (t, ity(n, ctx)), ctx)
            return g, t
        if ck == "IntegralCast":
            g, t = expr(ch[0], ctx)
            to = ity(n, ctx, "cast target")
            if to == "TBool":
                raise Untranslatable(n, "IntegralCast to bool", ctx)
            return "(ECast %s %s)" % (to, g), to
        if ck in ("IntegralToBoolean", "FloatingToBoolean"):
            g, t = expr(ch[0], ctx)
            return "(ECast TBool %s)" % g, "TBool"
        if ck in ("IntegralToFloating", "FloatingToIntegral"):
            g, t = expr(ch[0], ctx)
            to = ity(n, ctx, "cast target")
            if (ck == "IntegralToFloating") != (to == "TLDouble") or (ck == "FloatingToIntegral" and t != "TLDouble"):
                raise Untranslatable(n, "%s between %s and %s" % (ck, t, to), ctx)
            return "(ECast %s %s)" % (to, g), to
        raise Untranslatable(n, "cast kind %s" % ck, ctx)
    if k == "DeclRefExpr":
        ref = n.get("referencedDecl", {})
        if ref.get("kind") not in ("ParmVarDecl", "VarDecl"):
            raise Untranslatable(n, "reference to a %s (%s)" % (ref.get("kind"), ref.get("name")), ctx)
        name, t = ctx.find_var(ref, n)
        if ity(n, ctx) != t:
            raise Untranslatable(n, "name %s used at type %s but declared %s" % (name, ity(n, ctx), t), ctx)
        return "(EVar %s)" % coq_string(name), t
    if k == "IntegerLiteral":
        t = ity(n, ctx, "literal type")
        v = int(n.get("value"))
        lo, hi = RANGE[t]
        if not lo <= v <= hi:
            raise Untranslatable(n, "literal %d outside %s" % (v, t), ctx)
        return "(ELit %s %s)" % (t, coq_z(v)), t
    if k == "FloatingLiteral":
        t = ity(n, ctx, "literal type")
        import decimal
        try:
            d = decimal.Decimal(n.get("value"))
        except (decimal.InvalidOperation, TypeError):
            raise Untranslatable(n, "floating literal %r" % n.get("value"), ctx)
        if t != "TLDouble" or d != d.to_integral_value() or abs(int(d)) >= 2**64:
            raise Untranslatable(n, "floating literal %s of type %s is not an exactly representable integer-valued long double" % (n.get("value"), t), ctx)
        return "(ELit TLDouble %s)" % coq_z(int(d)), "TLDouble"
    if k == "CXXBoolLiteralExpr":
        return "(ELit TBool %d)" % (1 if n.get("value") else 0), "TBool"
    if k == "UnaryOperator":
        op = n.get("opcode")
        if op not in UNOPS or len(ch) != 1:
            raise Untranslatable(n, "unary operator %s" % op, ctx)
        g, t = expr(ch[0], ctx)
        rt = "TBool" if op == "!" else promote(t)
        check_type(n, rt, ctx)
        return "(EUn %s %s)" % (UNOPS[op], g), rt
    if k == "BinaryOperator":
        op = n.get("opcode")
        if len(ch) != 2:
            raise Untranslatable(n, "binary operator with %d operands" % len(ch), ctx)
        if op in ("&&", "||"):
            (ga, ta), (gb, tb) = expr(ch[0], ctx), expr(ch[1], ctx)
            check_type(n, "TBool", ctx)
            return "(%s %s %s)" % ("ELAnd" if op == "&&" else "ELOr", ga, gb), "TBool"
        if op not in BINOPS:
            raise Untranslatable(n, "binary operator %s (assignment, comma and pointer-to-member are not in the fragment)" % op, ctx)
        (ga, ta), (gb, tb) = expr(ch[0], ctx), expr(ch[1], ctx)
        if op in ("==", "!=", "<", ">", "<=", ">="):
            rt = "TBool"
        elif op in ("<<", ">>"):
            rt = promote(ta)
        else:
            rt = common(promote(ta), promote(tb))
        check_type(n, rt, ctx)
        return "(EBin %s %s %s)" % (BINOPS[op], ga, gb), rt
    if k == "ConditionalOperator":
        if len(ch) != 3:
            raise Untranslatable(n, "?: with %d operands" % len(ch), ctx)
        (gc, tc), (ga, ta), (gb, tb) = expr(ch[0], ctx), expr(ch[1], ctx), expr(ch[2], ctx)
        rt = ta if ta == tb else common(promote(ta), promote(tb))
        check_type(n, rt, ctx)
        return "(ECond %s %s %s)" % (gc, ga, gb), rt
    if k == "CallExpr":
        # std::numeric_limits<T>::max() / min() of an integer type T: the largest / smallest value of T [numeric.limits.members]
        txt = ctx.text_of(n) or ""
        m = re.match(r"^std::numeric_limits<\s*([\w:]+)\s*>::(max|min)\(\)$", txt)
        if m and len(ch) == 1 and callee_name(n) == m.group(2):
            t = ity(n, ctx, "result type of " + txt)
            if t in ("TLDouble", "TBool"):
                raise Untranslatable(n, txt + " of a non-integer type", ctx)
            lo, hi = RANGE[t]
            return "(ELit %s %s)" % (t, coq_z(hi if m.group(2) == "max" else lo)), t
        raise Untranslatable(n, "call of %s (only std::numeric_limits<T>::max() / min() are understood)" % callee_name(n), ctx)
    if k == "CXXMemberCallExpr" and ctx.vectors:
        got = vec_method(n, ctx)
        if got is not None:
            return got
        raise Untranslatable(n, "member call other than size() / empty() of a read-only std::vector", ctx)
    if k == "CXXOperatorCallExpr":
        # op == "lit"   /   "lit" == op      on the std::string parameter
        if callee_name(n) == "operator==" and len(ch) == 3:
            a, b = ch[1], ch[2]
            for x, y in ((a, b), (b, a)):
                lit = strip_to_string_literal(y, ctx)
                if lit is not None and is_sparam_ref(x, ctx):
                    check_type(n, "TBool", ctx)
                    return "(EStrEq %s %s)" % (coq_string(ctx.sparam[0]), coq_string(lit)), "TBool"
        raise Untranslatable(n, "overloaded operator call other than <string parameter> == \"literal\" (%s)" % callee_name(n), ctx)
    raise Untranslatable(n, "expression kind outside the integer fragment", ctx)


def check_type(n, t, ctx):
    ct = ity(n, ctx)
    if ct != t:
        raise Untranslatable(n, "clang gives this expression the type %s, the rules of Cxx.v give %s" % (ct, t), ctx)


SIDE_EFFECT_KINDS = ("CompoundAssignOperator", "CXXNewExpr", "CXXDeleteExpr", "LambdaExpr", "CallExpr", "CXXOperatorCallExpr",
                     "CXXConstructExpr", "CXXThrowExpr")


def assert_effect_free(n, ctx, root):
    """Arguments of a dropped diagnostic call must not do anything."""
    k = n.get("kind")
    if k == "CallExpr" and callee_name(n) == "to_string" and (ctx.text_of(n) or "").startswith("std::to_string("):
        # std::to_string(integer): builds a temporary std::string, nothing else [string.conversions]
        for c in kids(n)[1:]:
            assert_effect_free(c, ctx, root)
        return
    if k in SIDE_EFFECT_KINDS:
        raise Untranslatable(root, "argument of a dropped %s call contains a %s" % (callee_name(root), k), ctx)
    if k == "UnaryOperator" and n.get("opcode") in ("++", "--"):
        raise Untranslatable(root, "argument of a dropped %s call contains %s" % (callee_name(root), n.get("opcode")), ctx)
    if k == "BinaryOperator" and (n.get("opcode") == "=" or n.get("opcode") == ","):
        raise Untranslatable(root, "argument of a dropped %s call contains an assignment or comma" % callee_name(root), ctx)
    if k == "CXXMemberCallExpr":
        m = kids(n)[0] if kids(n) else {}
        if not (m.get("kind") == "MemberExpr" and m.get("name") in ("c_str", "size", "length", "empty")):
            raise Untranslatable(root, "argument of a dropped %s call calls member %r" % (callee_name(root), m.get("name")), ctx)
    for c in kids(n):
        assert_effect_free(c, ctx, root)


def message(n, ctx, root):
    """The std::string / const char * argument of std::runtime_error(...)."""
    lit = strip_to_string_literal(n, ctx)
    if lit is not None:
        return "(MLit %s)" % coq_string(lit)
    k = n.get("kind")
    if k in ("MaterializeTemporaryExpr", "CXXBindTemporaryExpr", "ExprWithCleanups", "ParenExpr") and len(kids(n)) == 1:
        return message(kids(n)[0], ctx, root)
    if k == "ImplicitCastExpr" and n.get("castKind") == "NoOp" and len(kids(n)) == 1:
        return message(kids(n)[0], ctx, root)
    if ctx.sparam is not None and is_sparam_ref(n, ctx):
        return "(MStr %s)" % coq_string(ctx.sparam[0])
    if k == "CallExpr" and callee_name(n) == "to_string" and len(kids(n)) == 2 and (ctx.text_of(n) or "").startswith("std::to_string("):
        # std::to_string(integer): the decimal representation [string.conversions] = Cxx.MDec
        g, t = expr(kids(n)[1], ctx)
        if t not in ("TInt", "TLong", "TULong", "TUInt"):
            raise Untranslatable(n, "std::to_string of a %s" % t, ctx)
        return "(MDec %s)" % g
    if k == "CXXOperatorCallExpr" and callee_name(n) == "operator+" and len(kids(n)) == 3:
        return "(MCat %s %s)" % (message(kids(n)[1], ctx, root), message(kids(n)[2], ctx, root))
    raise Untranslatable(n, "exception text that is not \"literal\", the string parameter, std::to_string(integer) or a + of those", ctx)


def throw_stmt(n, ctx):
    ch = kids(n)
    if len(ch) != 1:
        raise Untranslatable(n, "rethrow (`throw;`)", ctx)
    e = ch[0]
    t = e.get("type", {})
    if t.get("desugaredQualType", t.get("qualType")) != "std::runtime_error":
        raise Untranslatable(e, "throw of a %s (only std::runtime_error is in the fragment)" % t.get("qualType"), ctx)
    while e.get("kind") in ("CXXFunctionalCastExpr", "CXXBindTemporaryExpr", "ExprWithCleanups", "CXXTemporaryObjectExpr") and \
            len(kids(e)) == 1 and e.get("kind") != "CXXConstructExpr":
        e = kids(e)[0]
    if e.get("kind") not in ("CXXConstructExpr", "CXXTemporaryObjectExpr") or len(kids(e)) != 1:
        raise Untranslatable(e, "std::runtime_error not constructed from exactly one argument", ctx)
    return "(SThrow %s)" % message(kids(e)[0], ctx, n)


def contains_break(n):
    if n.get("kind") == "BreakStmt":
        return True
    if n.get("kind") in ("SwitchStmt", "ForStmt", "WhileStmt", "DoStmt", "CXXForRangeStmt", "LambdaExpr"):
        return False
    return any(contains_break(c) for c in kids(n))


def switch_stmt(n, ctx):
    """switch (e) { case A: ...; break; case B: case C: ...; break; default: ...; break; } with every group ending in break
    (or return / throw) and no other break: an if / else-if chain on e == A, e == B || e == C, ..., else the default group."""
    ch = kids(n)
    if len(ch) != 2 or ch[1].get("kind") != "CompoundStmt" or n.get("hasInit") or n.get("hasVar"):
        raise Untranslatable(n, "switch of an unexpected shape", ctx)
    g, t = expr(ch[0], ctx)
    if t not in ("TInt", "TUInt", "TLong", "TULong"):
        raise Untranslatable(ch[0], "switch on a value of type %s" % t, ctx)
    groups = []          # [labels, is_default, [statements]]
    for c in kids(ch[1]):
        if c.get("kind") in ("CaseStmt", "DefaultStmt"):
            labels, is_default, cur = [], False, c
            while cur.get("kind") in ("CaseStmt", "DefaultStmt"):
                kk = kids(cur)
                if cur.get("kind") == "CaseStmt":
                    if len(kk) != 2 or kk[0].get("kind") != "ConstantExpr" or "value" not in kk[0]:
                        raise Untranslatable(cur, "case label that is not a single constant", ctx)
                    v = int(kk[0]["value"])
                    lo, hi = RANGE[t]
                    if not lo <= v <= hi:
                        raise Untranslatable(cur, "case label %d outside %s" % (v, t), ctx)
                    labels.append(v)
                    nm = [x for x in [kk[0]] + kids(kk[0]) + sum((kids(y) for y in kids(kk[0])), []) if x.get("kind") == "DeclRefExpr"]
                    if nm and nm[0].get("referencedDecl", {}).get("kind") == "EnumConstantDecl":
                        ctx.labels.append((nm[0]["referencedDecl"].get("name"), v))
                else:
                    if len(kk) != 1:
                        raise Untranslatable(cur, "default label of an unexpected shape", ctx)
                    is_default = True
                cur = kk[-1]
            if groups and groups[-1][2] and groups[-1][2][-1].get("kind") not in ("BreakStmt", "ReturnStmt") and not is_throw(groups[-1][2][-1]):
                raise Untranslatable(c, "the previous case falls through into this label", ctx)
            groups.append([labels, is_default, [cur]])
        else:
            if not groups:
                raise Untranslatable(c, "statement before the first case label", ctx)
            groups[-1][2].append(c)
    if sum(1 for grp in groups if grp[1]) > 1 or len(set(sum((grp[0] for grp in groups), []))) != sum(len(grp[0]) for grp in groups):
        raise Untranslatable(n, "duplicate labels", ctx)
    out_groups = []
    for labels, is_default, stmts in groups:
        if stmts and stmts[-1].get("kind") == "BreakStmt":
            stmts = stmts[:-1]
        elif not (stmts and (stmts[-1].get("kind") == "ReturnStmt" or is_throw(stmts[-1]))):
            if (labels, is_default, stmts) is not groups[-1] and [labels, is_default, stmts] != groups[-1]:
                raise Untranslatable(n, "a case group does not end in break / return / throw", ctx)
        for st in stmts:
            if contains_break(st):
                raise Untranslatable(st, "break that is not the last statement of its case group", ctx)
        ctx.scopes.append({})
        try:
            body = seq([stmt(st, ctx) for st in stmts])
        finally:
            ctx.scopes.pop()
        out_groups.append((labels, is_default, body))
    chain = "SSkip"
    for labels, is_default, body in out_groups:
        if is_default:
            chain = body
    for labels, is_default, body in reversed(out_groups):
        if not labels:
            continue
        if is_default:
            continue        # `case X: default:` - X behaves like the default
        tests = ["(EBin BEq %s (ELit %s %s))" % (g, t, coq_z(v)) for v in labels]
        test = tests[-1]
        for x in reversed(tests[:-1]):
            test = "(ELOr %s %s)" % (x, test)
        chain = ("SIf", test, body, chain)
    return chain


def is_throw(n):
    while n.get("kind") == "ExprWithCleanups" and len(kids(n)) == 1:
        n = kids(n)[0]
    return n.get("kind") == "CXXThrowExpr"


def return_call(n, ctx):
    """return builder(args...);  where builder is a local closure (a lambda stored in a variable) making the result object."""
    e = n
    while e.get("kind") in ("ExprWithCleanups", "CXXBindTemporaryExpr", "MaterializeTemporaryExpr", "ParenExpr") and len(kids(e)) == 1:
        e = kids(e)[0]
    if e.get("kind") == "CXXConstructExpr" and len(kids(e)) == 1 and e.get("elidable"):
        return return_call(kids(e)[0], ctx)
    if e.get("kind") != "CXXOperatorCallExpr" or callee_name(e) != "operator()" or len(kids(e)) < 2:
        raise Untranslatable(e, "returned object that is not the result of calling a local result builder", ctx)
    obj = kids(e)[1]
    while obj.get("kind") in ("ImplicitCastExpr", "ParenExpr") and len(kids(obj)) == 1:
        obj = kids(obj)[0]
    ref = obj.get("referencedDecl", {})
    if obj.get("kind") != "DeclRefExpr" or ref.get("kind") != "VarDecl" or "(lambda at " not in obj.get("type", {}).get("qualType", ""):
        raise Untranslatable(e, "call of something that is not a local closure variable", ctx)
    args = [expr(a, ctx)[0] for a in kids(e)[2:]]
    return "(SReturnCall %s [%s])" % (coq_string(ref.get("name")), "; ".join(args))


def seq(stmts):
    stmts = [s for s in stmts if s != "SSkip"] or ["SSkip"]
    out = stmts[-1]
    for s in reversed(stmts[:-1]):
        out = ("SSeq", s, out)
    return out


def stmt(n, ctx):
    """Returns a nested tuple tree: str | ('SSeq', a, b) | ('SIf', cond, a, b)."""
    ctx.nodes += 1
    k = n.get("kind")
    ch = kids(n)
    if k == "CompoundStmt":
        ctx.scopes.append({})
        try:
            # a block nested directly in a block is a scope of its own (the branches of an if and the body of a loop are
            # scopes by the semantics of SIf / SWhile)
            return seq([("SBlock", stmt(c, ctx)) if c.get("kind") == "CompoundStmt" else stmt(c, ctx) for c in ch])
        finally:
            ctx.scopes.pop()
    if k in ("ForStmt", "WhileStmt"):
        return loop_stmt(n, ctx)
    if k == "CompoundAssignOperator" and len(ch) == 2:
        return compound_assign(n, ctx)
    if k == "UnaryOperator" and n.get("opcode") in ("++", "--") and len(ch) == 1:
        name, t = local_lvalue(ch[0], n, ctx, n.get("opcode"))
        if t == "TBool":
            raise Untranslatable(n, "%s of a bool" % n.get("opcode"), ctx)
        return "(%s %s)" % ("SIncr" if n.get("opcode") == "++" else "SDecr", coq_string(name))
    if k == "NullStmt":
        return "SSkip"
    if k == "ReturnStmt" and len(ch) == 0:
        return "SReturnVoid"
    if k == "BinaryOperator" and n.get("opcode") == "=" and len(ch) == 2:
        lhs = ch[0]
        while lhs.get("kind") == "ParenExpr" and len(kids(lhs)) == 1:
            lhs = kids(lhs)[0]
        ref = lhs.get("referencedDecl", {})
        if lhs.get("kind") != "DeclRefExpr" or ref.get("kind") not in ("VarDecl", "ParmVarDecl"):
            raise Untranslatable(n, "assignment to something that is not a plain variable", ctx)
        if ctx.region and not any(ref.get("id") in sc for sc in ctx.scopes) and ref.get("id") not in ctx.outer:
            # a variable of the enclosing function that the region has not read so far: its first assignment, at the top level of
            # the region, is where the region's own copy starts to exist
            if n.get("id") not in ctx.region_top or ref.get("kind") != "VarDecl":
                raise Untranslatable(n, "first assignment to the outer variable %s inside a nested statement" % ref.get("name"), ctx)
            t = ity(lhs, ctx, "type of the outer variable %s" % ref.get("name"))
            g, te = expr(ch[1], ctx)
            if ref.get("id") in ctx.outer:
                raise Untranslatable(n, "outer variable %s read in its own first assignment" % ref.get("name"), ctx)
            ctx.scopes[-1][ref.get("id")] = (ref.get("name"), t)
            return "(SDecl %s %s %s)" % (t, coq_string(ref.get("name")), g)
        name, t = ctx.find_var(ref, lhs)
        if ref.get("id") in ctx.outer:
            raise Untranslatable(n, "assignment to the captured / outer variable %s" % name, ctx)
        g, te = expr(ch[1], ctx)
        return "(SAssign %s %s)" % (coq_string(name), g)
    if k == "SwitchStmt":
        return switch_stmt(n, ctx)
    if k == "ReturnStmt":
        if len(ch) != 1:
            raise Untranslatable(n, "return without a value", ctx)
        if ctx.abstract:
            return return_call(ch[0], ctx)
        g, t = expr(ch[0], ctx)
        return "(SReturn %s)" % g
    if k == "IfStmt":
        if n.get("hasInit") or n.get("hasVar") or n.get("isConstexpr"):
            raise Untranslatable(n, "if with an init-statement, a condition declaration or constexpr", ctx)
        if len(ch) not in (2, 3) or (len(ch) == 3) != bool(n.get("hasElse")):
            raise Untranslatable(n, "if statement of an unexpected shape", ctx)
        g, t = expr(ch[0], ctx)
        if t != "TBool":
            raise Untranslatable(ch[0], "condition of type %s without a conversion to bool" % t, ctx)
        ctx.scopes.append({})
        try:
            a = stmt(ch[1], ctx)
        finally:
            ctx.scopes.pop()
        ctx.scopes.append({})
        try:
            b = stmt(ch[2], ctx) if len(ch) == 3 else "SSkip"
        finally:
            ctx.scopes.pop()
        return ("SIf", g, a, b)
    if k == "ExprWithCleanups" and len(ch) == 1:
        return stmt(ch[0], ctx)
    if k == "CXXThrowExpr":
        return throw_stmt(n, ctx)
    if k == "CallExpr":
        name = callee_name(n)
        if name in DROPPED_CALLS:
            for a in ch[1:]:
                assert_effect_free(a, ctx, n)
            ctx.dropped.append(name)
            return "(SEffect %s)" % coq_string(name)
        raise Untranslatable(n, "call of %s (only statement-level calls of %s may be dropped)" % (name, " / ".join(DROPPED_CALLS)), ctx)
    if k == "DeclStmt":
        out = []
        for d in ch:
            if d.get("kind") != "VarDecl" or d.get("init") != "c" or len(kids(d)) != 1 or d.get("storageClass"):
                raise Untranslatable(d, "declaration other than `T x = e;` with an integer type", ctx)
            t = ity(d, ctx, "declared type")
            g, te = expr(kids(d)[0], ctx)
            ctx.scopes[-1][d.get("id")] = (d.get("name"), t)
            out.append("(SDecl %s %s %s)" % (t, coq_string(d.get("name")), g))
        return seq(out)
    raise Untranslatable(n, "statement kind outside the fragment", ctx)


COMPOUND_OPS = {"+=": "BAdd", "-=": "BSub", "*=": "BMul", "/=": "BDiv", "%=": "BRem", "&=": "BAnd", "|=": "BOr", "^=": "BXor",
                "<<=": "BShl", ">>=": "BShr"}


def local_lvalue(lhs, n, ctx, what):
    while lhs.get("kind") == "ParenExpr" and len(kids(lhs)) == 1:
        lhs = kids(lhs)[0]
    ref = lhs.get("referencedDecl", {})
    if lhs.get("kind") != "DeclRefExpr" or ref.get("kind") not in ("VarDecl", "ParmVarDecl"):
        raise Untranslatable(n, "%s of something that is not a plain variable" % what, ctx)
    name, t = ctx.find_var(ref, lhs)
    if ref.get("id") in ctx.outer:
        raise Untranslatable(n, "%s of the captured / outer variable %s" % (what, name), ctx)
    if ity(lhs, ctx) != t:
        raise Untranslatable(lhs, "name %s used at type %s but declared %s" % (name, ity(lhs, ctx), t), ctx)
    return name, t


def compound_assign(n, ctx):
    """x op= e as a statement, x a local variable: Cxx.SAssignOp (= x = x op e, [expr.ass]/7)."""
    op = n.get("opcode")
    if op not in COMPOUND_OPS:
        raise Untranslatable(n, "compound assignment %s" % op, ctx)
    name, t = local_lvalue(kids(n)[0], n, ctx, op)
    g, te = expr(kids(n)[1], ctx)
    rt = promote(t) if op in ("<<=", ">>=") else common(promote(t), promote(te))
    for fld, want in (("computeResultType", rt), ("computeLHSType", rt)):
        q = n.get(fld, {})
        got = TYPES.get(re.sub(r"\s+", " ", re.sub(r"\bconst\b", "", q.get("desugaredQualType", q.get("qualType", ""))).strip()))
        if got != want:
            raise Untranslatable(n, "clang computes %s in %s (%s), the rules of Cxx.v in %s" % (op, q.get("qualType"), fld, want), ctx)
    return "(SAssignOp %s %s %s)" % (COMPOUND_OPS[op], coq_string(name), g)


def loop_stmt(n, ctx):
    """for (init; cond; step) body  ->  Cxx.SFor;   while (cond) body  ->  SWhile.  No condition declarations; break and continue
    are not in the fragment (any in the body is refused by stmt)."""
    ch = kids(n)
    if n.get("kind") == "WhileStmt":
        if len(ch) != 2 or n.get("hasVar"):
            raise Untranslatable(n, "while with a condition declaration", ctx)
        init, cond, step, body = None, ch[0], None, ch[1]
    else:
        if len(ch) != 5 or ch[1].get("kind") is not None:
            raise Untranslatable(n, "for statement of an unexpected shape (condition declaration?)", ctx)
        init, cond, step, body = ch[0], ch[2], ch[3], ch[4]
    if cond.get("kind") is None:
        raise Untranslatable(n, "loop without a condition", ctx)
    ctx.scopes.append({})
    try:
        gi = "SSkip" if init is None or init.get("kind") is None else stmt(init, ctx)
        gc, tc = expr(cond, ctx)
        if tc != "TBool":
            raise Untranslatable(cond, "loop condition of type %s without a conversion to bool" % tc, ctx)
        gs = "SSkip" if step is None or step.get("kind") is None else stmt(step, ctx)
        ctx.scopes.append({})
        try:
            gb = stmt(body, ctx)
        finally:
            ctx.scopes.pop()
    finally:
        ctx.scopes.pop()
    if n.get("kind") == "WhileStmt":
        return ("SWhile", gc, gb)
    return ("SFor", gi, gc, gs, gb)


def render_stmt(s, ind):
    pad = " " * ind
    if isinstance(s, str):
        return pad + s
    if s[0] == "SBlock":
        return "%s(SBlock\n%s)" % (pad, render_stmt(s[1], ind + 1))
    if s[0] == "SWhile":
        return "%s(SWhile %s\n%s)" % (pad, s[1], render_stmt(s[2], ind + 1))
    if s[0] == "SFor":
        return "%s(SFor\n%s\n%s %s\n%s\n%s)" % (pad, render_stmt(s[1], ind + 1), " " * (ind + 1), s[2], render_stmt(s[3], ind + 1),
                                                   render_stmt(s[4], ind + 1))
    if s[0] == "SSeq":
        # a right-nested sequence is printed flat
        items, cur = [], s
        while not isinstance(cur, str) and cur[0] == "SSeq":
            items.append(cur[1])
            cur = cur[2]
        items.append(cur)
        out = []
        for i, it in enumerate(items[:-1]):
            out.append(pad + "(SSeq")
            out.append(render_stmt(it, ind + 1))
        out.append(render_stmt(items[-1], ind + 1) + ")" * (len(items) - 1))
        return "\n".join(out)
    if s[0] == "SIf":
        return "%s(SIf %s\n%s\n%s)" % (pad, s[1], render_stmt(s[2], ind + 2), render_stmt(s[3], ind + 1))
    raise AssertionError(s)


def is_dispatch_test(n, ctx, lit=None):
    """`<string> == "lit"` on the chain's dispatch string."""
    if n.get("kind") != "CXXOperatorCallExpr" or callee_name(n) != "operator==" or len(kids(n)) != 3:
        return False
    a, b = kids(n)[1], kids(n)[2]
    got = strip_to_string_literal(b, ctx)
    return got is not None and is_sparam_ref(a, ctx) and (lit is None or got == lit)


def translate_tail_chain(qname, decl, src_bytes, spec):
    """Cut the final if-chain out of a large function: the LAST top-level statement pair
           if (<string> == "<first>") ... else if ... ;   throw std::runtime_error(...);
    of the function body.  Everything the chain reads from the code before it becomes a parameter."""
    ctx = Ctx(qname, src_bytes)
    ctx.abstract = True
    ctx.sparam_text = spec["string"]
    ctx.sparam = (spec["string"], None)
    name = decl.get("name")
    loc = decl.get("loc", {})
    if "offset" not in loc or src_bytes[loc["offset"]:loc["offset"] + loc.get("tokLen", 0)] != name.encode():
        raise Untranslatable(decl, "source offsets do not point at the function's name in the given file", ctx)
    body = [c for c in kids(decl) if c.get("kind") == "CompoundStmt"]
    if len(body) != 1:
        raise Untranslatable(decl, "no body", ctx)
    tops = kids(body[0])
    if len(tops) < 2:
        raise Untranslatable(body[0], "function body too short to end in a dispatch chain", ctx)
    chain, last = tops[-2], tops[-1]
    if not (chain.get("kind") == "IfStmt" and chain.get("hasElse") and kids(chain) and is_dispatch_test(kids(chain)[0], ctx, spec["first"])):
        raise Untranslatable(chain, "the statement before the final throw is not `if (%s == \"%s\") ... else ...` - the dispatch chain was not found" % (
            spec["string"], spec["first"]), ctx)
    lk = last
    while lk.get("kind") == "ExprWithCleanups" and len(kids(lk)) == 1:
        lk = kids(lk)[0]
    if lk.get("kind") != "CXXThrowExpr":
        raise Untranslatable(last, "the function does not end in a throw after the dispatch chain", ctx)
    # no earlier top-level statement may be a second copy of the chain head placed after this one: by construction (last pair)
    b, e = chain.get("range", {}).get("begin", {}), decl.get("range", {}).get("end", {})
    if "offset" not in b or "offset" not in e:
        raise Untranslatable(chain, "chain whose source range is not plain", ctx)
    text = src_bytes[b["offset"]:e["offset"] + e.get("tokLen", 1)]
    ctx.scopes.append({})
    tree = seq([stmt(chain, ctx), stmt(last, ctx)])
    # sorted by name: the order in which the chain happens to read its inputs does not matter
    params = sorted((nm, t) for nm, t in ctx.outer.values()) + [(f, "TBool") for f in sorted(ctx.flags)]
    if len(set(p for p, _ in params)) != len(params):
        raise Untranslatable(decl, "two different things the chain reads have the same name", ctx)
    gname = name + spec.get("suffix", "_chain")
    gal = ("Definition fn_%s : fn :=\n"
           "  {| f_name := %s; f_ret := TLong; f_sparam := %s;\n"
           "     f_params := [%s];\n"
           "     f_body :=\n%s |}.") % (
        gname, coq_string(qname + " (final dispatch chain)"), coq_string(spec["string"]),
        ";\n                  ".join("(%s, %s)" % (coq_string(p), t) for p, t in params), render_stmt(tree, 7))
    return {"name": gname, "qname": qname + " (final dispatch chain)", "sha256": _sha(text), "gallina": gal,
            "lines": (ctx.line_of(chain), None), "nodes": ctx.nodes, "dropped_calls": ctx.dropped, "params": params,
            "sparam": spec["string"], "outer_variables": [nm for nm, _ in ctx.outer.values()], "flags": list(ctx.flags)}


def translate_lambda_body(qname, decl, src_bytes, spec):
    """A function whose body hands ONE closure to a runner (evaluate_safe(..., [&](...) { body })): translate the closure's
    body; the variables it captures from the function become parameters."""
    ctx = Ctx(qname, src_bytes)
    ctx.abstract = True
    ctx.enums = dict(spec.get("enums", {}))
    name = decl.get("name")
    loc = decl.get("loc", {})
    if "offset" not in loc or src_bytes[loc["offset"]:loc["offset"] + loc.get("tokLen", 0)] != name.encode():
        raise Untranslatable(decl, "source offsets do not point at the function's name in the given file", ctx)

    def walk(n):
        yield n
        for c in kids(n):
            yield from walk(c)
    lambdas = [x for x in walk(decl) if x.get("kind") == "LambdaExpr"]
    if len(lambdas) != 1:
        raise Untranslatable(decl, "%d closures in the function (exactly one expected)" % len(lambdas), ctx)
    body = [c for c in kids(lambdas[0]) if c.get("kind") == "CompoundStmt"]
    if len(body) != 1:
        raise Untranslatable(lambdas[0], "closure without a body", ctx)
    b, e = decl.get("range", {}).get("begin", {}), decl.get("range", {}).get("end", {})
    if "offset" not in b or "offset" not in e:
        raise Untranslatable(decl, "definition whose source range is not plain", ctx)
    text = src_bytes[b["offset"]:e["offset"] + e.get("tokLen", 1)]
    ctx.scopes.append({})
    tree = stmt(body[0], ctx)
    if ctx.flags:
        raise Untranslatable(decl, "the closure consults %s, which is outside the fragment" % ctx.flags[0], ctx)
    params = sorted((nm, t) for nm, t in ctx.outer.values())
    gal = ("Definition fn_%s : fn :=\n"
           "  {| f_name := %s; f_ret := TLong; f_sparam := \"\";\n"
           "     f_params := [%s];\n"
           "     f_body :=\n%s |}.") % (
        name, coq_string(qname + " (the closure run by evaluate_safe)"),
        "; ".join("(%s, %s)" % (coq_string(p), t) for p, t in params), render_stmt(tree, 7))
    labels = []
    for nm, v in ctx.labels:
        if (nm, v) not in labels:
            labels.append((nm, v))
    gal += "\n\n(* the enumerators used as case labels, with clang's values *)\nDefinition %s_labels : list (string * Z) :=\n  [%s]." % (
        name, "; ".join("(%s, %s)" % (coq_string(nm), coq_z(v)) for nm, v in labels))
    return {"name": name, "qname": qname, "sha256": _sha(text), "gallina": gal, "lines": (ctx.line_of(decl), None),
            "nodes": ctx.nodes, "dropped_calls": ctx.dropped, "params": params, "sparam": None,
            "outer_variables": [nm for nm, _ in ctx.outer.values()], "labels": labels}


def translate_region(qname, decl, src_bytes, spec, gname):
    """Cut the then-branch of `if (<spec.if_cond>)` out of a large function and translate it as a function of its own that
    returns the variable <spec.result> it computes."""
    ctx = Ctx(qname, src_bytes)
    ctx.abstract = True
    ctx.vectors = True
    ctx.region = True
    name = decl.get("name")
    loc = decl.get("loc", {})
    if "offset" not in loc or src_bytes[loc["offset"]:loc["offset"] + loc.get("tokLen", 0)] != name.encode():
        raise Untranslatable(decl, "source offsets do not point at the function's name in the given file", ctx)

    def walk(n):
        yield n
        for c in kids(n):
            yield from walk(c)
    hits = [x for x in walk(decl) if x.get("kind") == "IfStmt" and kids(x) and ctx.text_of(kids(x)[0]) == spec["if_cond"]]
    if len(hits) != 1:
        raise Untranslatable(decl, "%d statements `if (%s)` in the function (exactly one expected)" % (len(hits), spec["if_cond"]), ctx)
    ifs = hits[0]
    if len(kids(ifs)) < 2 or kids(ifs)[1].get("kind") != "CompoundStmt" or ifs.get("hasInit") or ifs.get("hasVar"):
        raise Untranslatable(ifs, "`if (%s)` without a braced then-branch" % spec["if_cond"], ctx)
    region = kids(ifs)[1]
    stmts = kids(region)
    if spec.get("through_for"):
        # only the statements up to and including the first for loop of the branch (what follows uses the result)
        fors = [i for i, c in enumerate(stmts) if c.get("kind") == "ForStmt"]
        if not fors:
            raise Untranslatable(region, "no for loop at the top level of the branch `if (%s)`" % spec["if_cond"], ctx)
        stmts = stmts[:fors[0] + 1]
    b, e = ifs.get("range", {}).get("begin", {}), (stmts[-1] if spec.get("through_for") else region).get("range", {}).get("end", {})
    if "offset" not in b or "offset" not in e:
        raise Untranslatable(ifs, "region whose source range is not plain", ctx)
    text = src_bytes[b["offset"]:e["offset"] + e.get("tokLen", 1)]
    ctx.region_top = set(c.get("id") for c in stmts)
    ctx.scopes.append({})
    items = [("SBlock", stmt(c, ctx)) if c.get("kind") == "CompoundStmt" else stmt(c, ctx) for c in stmts]
    res = [(nm, t) for nm, t in ctx.scopes[-1].values() if nm == spec["result"]]
    if len(res) != 1:
        raise Untranslatable(region, "the region does not compute a variable %s of its own at its top level" % spec["result"], ctx)
    items.append("(SReturn (EVar %s))" % coq_string(spec["result"]))
    tree = seq(items)
    if ctx.flags:
        raise Untranslatable(decl, "the region consults %s, which is outside the fragment" % ctx.flags[0], ctx)
    params = sorted((nm, t) for nm, t in ctx.outer.values()) + sorted(ctx.members.items())
    vparams = sorted(ctx.vec_outer.values()) + sorted(ctx.vec_members.items())
    if len(set(p for p, _ in params)) != len(params) or len(set(p for p, _ in vparams)) != len(vparams):
        raise Untranslatable(decl, "two different things the region reads have the same name", ctx)
    what = "%s (the branch `if (%s)`%s)" % (qname.partition("|")[0] + (" : " + qname.partition("|")[2] if "|" in qname else ""), spec["if_cond"],
                                          " up to the end of its for loop" if spec.get("through_for") else "")
    gal = ("  {| f_name := %s; f_ret := %s; f_sparam := \"\";\n"
           "     f_params := [%s];\n"
           "     f_body :=\n%s |}") % (
        coq_string(what), res[0][1], "; ".join("(%s, %s)" % (coq_string(p), t) for p, t in params), render_stmt(tree, 7))
    gal = resolve_struct_vectors(gal, ctx, decl)
    gal = "Definition fn_%s : vfn :=\n {| v_fn :=\n%s;\n    v_vecs := [%s] |}." % (
        gname, gal, "; ".join("(%s, %s)" % (coq_string(p), t) for p, t in vparams))
    return {"name": gname, "qname": what, "sha256": _sha(text), "gallina": gal, "lines": (ctx.line_of(ifs), None),
            "nodes": ctx.nodes, "dropped_calls": ctx.dropped, "params": params, "sparam": None, "vector_params": vparams,
            "outer_variables": [nm for nm, _ in ctx.outer.values()]}


def translate_function(qname, decl, src_bytes, vectors=False):
    ctx = Ctx(qname, src_bytes)
    ctx.vectors = vectors
    if vectors and decl.get("kind") == "CXXMethodDecl" and not decl.get("type", {}).get("qualType", "").rstrip().endswith("const"):
        raise Untranslatable(decl, "member function that is not const (it could modify the data members it reads)", ctx)
    name = decl.get("name")
    loc = decl.get("loc", {})
    rng = decl.get("range", {})
    b, e = rng.get("begin", {}), rng.get("end", {})
    if "offset" not in b or "offset" not in e or "offset" not in loc:
        raise Untranslatable(decl, "definition whose source range is not plain (macro?)", ctx)
    if src_bytes[loc["offset"]:loc["offset"] + loc.get("tokLen", 0)] != name.encode():
        raise Untranslatable(decl, "source offsets do not point at the function's name in the given file", ctx)
    text = src_bytes[b["offset"]:e["offset"] + e.get("tokLen", 1)]
    rtype = decl.get("type", {}).get("qualType", "")
    ret_q = rtype.split("(")[0].strip()
    vparams = []
    ret = {"int64_t": "TLong", "uint64_t": "TULong"}.get(ret_q) or TYPES.get(ret_q)
    if ret is None:
        raise Untranslatable(decl, "return type %r is not an integer type of the fragment" % ret_q, ctx)
    params, body = [], None
    ctx.scopes.append({})
    for c in kids(decl):
        if c.get("kind") == "ParmVarDecl":
            if is_std_string(c.get("type", {})):
                if ctx.sparam is not None:
                    raise Untranslatable(c, "more than one std::string parameter", ctx)
                ctx.sparam = (c.get("name"), c.get("id"))
            elif vectors and vector_elem(c.get("type", {})) is not None:
                q = c.get("type", {}).get("qualType", "")
                el = elem_ity(vector_elem(c.get("type", {})), c, ctx, "parameter")
                if not (q.startswith("const ") and q.rstrip().endswith("&")) or el is None or not c.get("name"):
                    raise Untranslatable(c, "vector parameter %r is not a named `const std::vector<integer type> &`" % q, ctx)
                ctx.vec_params[c.get("id")] = (c.get("name"), el)
                vparams.append((c.get("name"), el))
            else:
                t = ity(c, ctx, "parameter type")
                if not c.get("name"):
                    raise Untranslatable(c, "unnamed parameter", ctx)
                params.append((c.get("name"), t))
                ctx.scopes[-1][c.get("id")] = (c.get("name"), t)
        elif c.get("kind") == "CompoundStmt":
            body = c
        elif c.get("kind") in ("FullComment",) or c.get("kind", "").endswith("Attr"):
            continue
        else:
            raise Untranslatable(c, "unexpected child of the function declaration", ctx)
    if body is None:
        raise Untranslatable(decl, "no body", ctx)
    if len(set(p for p, _ in params)) != len(params):
        raise Untranslatable(decl, "duplicate parameter names", ctx)
    tree = stmt(body, ctx)
    if vectors:
        # data members of *this that are read: scalars become ordinary parameters, vectors vector parameters (after the declared ones)
        params = params + sorted(ctx.members.items())
        vparams = vparams + sorted((nm, t) for nm, t in ctx.vec_members.items())
        if len(set(p for p, _ in params)) != len(params) or len(set(p for p, _ in vparams)) != len(vparams):
            raise Untranslatable(decl, "a parameter and a data member have the same name", ctx)
    gal = ("  {| f_name := %s; f_ret := %s; f_sparam := %s;\n"
           "     f_params := [%s];\n"
           "     f_body :=\n%s |}") % (
        coq_string(qname), ret, coq_string(ctx.sparam[0] if ctx.sparam else ""),
        "; ".join("(%s, %s)" % (coq_string(p), t) for p, t in params), render_stmt(tree, 7))
    if vectors:
        gal = resolve_struct_vectors(gal, ctx, decl)
        gal = "Definition fn_%s : vfn :=\n {| v_fn :=\n%s;\n    v_vecs := [%s] |}." % (
            name, gal, "; ".join("(%s, %s)" % (coq_string(p), t) for p, t in vparams))
    else:
        gal = "Definition fn_%s : fn :=\n%s." % (name, gal)
    out = {"name": name, "qname": qname, "sha256": _sha(text), "gallina": gal, "lines": (ctx.line_of(decl), None),
           "nodes": ctx.nodes, "dropped_calls": ctx.dropped, "params": params, "sparam": ctx.sparam[0] if ctx.sparam else None}
    if vectors:
        out["vector_params"] = vparams
        out["members_read"] = sorted(ctx.members) + sorted(ctx.vec_members)
    return out


def render(target, source, fns):
    lines = [
        "(* GENERATED by translators/cxx_pure.py from clang's AST (-ast-dump=json) of %s." % ", ".join([source] + [p["source"] for p in target.get("parts", [])]),
        "   Do not edit: rewritten by ./check %s whenever the C++ text of these functions changes." % target.get("prop", "C01"),
        "   Meaning of the terms: coq/Cxx/Cxx.v. *)",
        "From Coq Require Import ZArith String List.",
        "From Cb Require Import Cxx.Cxx.",
        "Import ListNotations.",
        "Local Open Scope string_scope.",
        "Local Open Scope Z_scope.",
        "",
    ]
    for f in fns:
        lines.append("(* %s : %s" % (f.get("source", source), f["qname"]))
        lines.append("   sha256 of the function's source text: %s *)" % f["sha256"])
        lines.append(f["gallina"])
        lines.append("")
    return "\n".join(lines)


def regenerate(repo, target_name="helpers", dest=None, use_cache=True):
    """Returns (info, status), status in {'unchanged', 'rewritten', 'failed'}.  On 'failed' the destination is left as
    it is and info['problem'] says which AST node could not be translated."""
    tgt = TARGETS[target_name]
    dest = dest or os.path.join(VERIF, tgt["dest"])
    info = {"target": target_name, "source": tgt["source"], "functions": {}, "dest": os.path.relpath(dest, VERIF)}
    t0 = time.time()
    try:
        decls, cinfo = clang_functions(repo, tgt["source"], tgt["functions"], use_cache)
        info.update(cinfo)
        with open(os.path.join(repo, tgt["source"]), "rb") as fh:
            src = fh.read()
        if "tail_chain" in tgt:
            fns = [translate_tail_chain(q, decls[q], src, tgt["tail_chain"]) for q in tgt["functions"]]
        elif "lambda_body" in tgt:
            fns = [translate_lambda_body(q, decls[q], src, tgt["lambda_body"]) for q in tgt["functions"]]
        else:
            fns = [translate_function(q, decls[q], src, bool(tgt.get("vectors"))) for q in tgt["functions"]]
        for part in tgt.get("parts", []):
            pdecls, pinfo = clang_functions(repo, part["source"], part["functions"], use_cache)
            info["clang_s"] = round(info.get("clang_s", 0.0) + pinfo.get("clang_s", 0.0), 2)
            if pinfo.get("cache") == "miss":
                info["cache"] = "miss"
            with open(os.path.join(repo, part["source"]), "rb") as fh:
                psrc = fh.read()
            for q, gname in zip(part["functions"], part["names"]):
                f = translate_region(q, pdecls[q], psrc, part["region"], gname)
                f["source"] = part["source"]
                fns.append(f)
    except Untranslatable as e:
        info["problem"] = {"function": e.fn, "node": e.kind, "line": e.line, "why": e.why, "text": str(e)}
        info["wall_s"] = round(time.time() - t0, 2)
        return info, "failed"
    for f in fns:
        info["functions"][f["qname"]] = {"sha256": f["sha256"], "ast_nodes": f["nodes"], "dropped_calls": f["dropped_calls"],
                                         "line": f["lines"][0]}
        for extra in ("outer_variables", "flags", "vector_params", "members_read"):
            if extra in f:
                info["functions"][f["qname"]][extra] = f[extra]
    txt = render(tgt, tgt["source"], fns)
    old = open(dest).read() if os.path.exists(dest) else None
    info["wall_s"] = round(time.time() - t0, 2)
    if old == txt:
        return info, "unchanged"
    tmp = dest + ".tmp%d" % os.getpid()
    with open(tmp, "w") as fh:
        fh.write(txt)
    os.replace(tmp, dest)
    info["wall_s"] = round(time.time() - t0, 2)
    return info, "rewritten"


def main(argv):
    if len(argv) < 2:
        print(__doc__)
        return 2
    repo = argv[1]
    rc = 0
    for t in (argv[2:] or sorted(TARGETS)):
        info, st = regenerate(repo, t)
        print("%s: %s" % (t, st))
        print(json.dumps(info, indent=1))
        if st == "failed":
            print("UNTRANSLATABLE: " + info["problem"]["text"], file=sys.stderr)
            rc = 3
    return rc


if __name__ == "__main__":
    sys.exit(main(sys.argv))
