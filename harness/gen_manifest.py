#!/usr/bin/env python3
"""Regenerates /verif/MANIFEST.json from the META dictionaries of harness/props/cNN.py."""
import importlib
import json
import os
import subprocess
import sys

HERE = os.path.dirname(os.path.abspath(__file__))
sys.path.insert(0, HERE)
V = os.path.dirname(HERE)

props = [json.loads(l) for l in open(os.path.join(V, "properties.jsonl"))]
checks, na = [], []
for p in props:
    pid = p["id"]
    modfile = os.path.join(HERE, "props", pid.lower() + ".py")
    meta = None
    if os.path.exists(modfile):
        mod = importlib.import_module("props." + pid.lower())
        meta = getattr(mod, "META", None)
    if not meta or meta.get("not_applicable"):
        na.append({"property_id": pid, "reason": (meta or {}).get("not_applicable", "check not built yet in this round (see DESIGN.md section 9)")})
        continue
    checks.append({
        "property_id": pid,
        "quick_cmd": "./check %s --tier quick" % pid,
        "thorough_cmd": "./check %s --tier thorough" % pid,
        "evidence_file": "/verif/evidence/%s.json" % pid,
        "replay_cmd_template": "./check %s --replay {path}" % pid,
        "engine": "coq-model+correspondence",
        "level_claimed": {"category": meta.get("category", "proof"), "text": meta["text"], "design_ref": meta.get("design_ref", "DESIGN.md section 5 " + pid)},
        "level_note": meta["note"],
        "technique": meta["technique"],
    })
try:
    commits = subprocess.run(["git", "-C", "/repo", "log", "--format=%h %s", "--grep=^hook:"], capture_output=True, text=True).stdout.strip().split("\n")
    commits = [c for c in commits if c]
except Exception:
    commits = []
man = {
    "version": 1,
    "setup_cmd": "bash harness/setup.sh all",
    "hooks": {
        "guard": "CB_VERIF",
        "enable": "checks build a scratch copy of /repo's working tree with `make main CFLAGS='... -DCB_VERIF'` (harness/common.py build_impl); hooks are inert unless their CB_VERIF_* environment variable is set",
        "baseline_off_cmd": "bash harness/baseline_off.sh",
        "source_commits": commits,
        "add_only": True,
    },
    "engines": [{"name": "coq-model+correspondence", "path": "/verif/check",
                 "serves_properties": [c["property_id"] for c in checks],
                 "kind_free_text": "Coq 8.16.1 theorems about hand-written Gallina models (coq/Cnn), extracted to OCaml (bin/cnn_model) and run against /repo's current sources on generated inputs (harness/props/cnn.py)"}],
    "checks": checks,
    "not_applicable": na,
    "notes": "See DESIGN.md. known_findings.json lists recorded genuine defects; mutants/ holds hand-made breaking changes, seeded/ the independently produced ones.",
}
json.dump(man, open(os.path.join(V, "MANIFEST.json"), "w"), indent=1)
print("MANIFEST.json: %d checks, %d not_applicable" % (len(checks), len(na)))
