#!/usr/bin/env python3
"""mk_strengthen_prompt.py Cnn Cnn-k "<hint>" : print the prompt for a strengthening agent (harness/strengthen_prompt.txt)."""
import os, sys
V = os.path.dirname(os.path.dirname(os.path.abspath(__file__)))
pid, seed = sys.argv[1], sys.argv[2]
hint = sys.argv[3] if len(sys.argv) > 3 else "none"
t = open(os.path.join(V, "harness", "strengthen_prompt.txt")).read()
print(t.replace("__ID__", pid).replace("__id__", pid.lower()).replace("__SEED__", seed).replace("__HINT__", hint))
