#!/usr/bin/env python3
"""Regenerates the generated parts of DESIGN.md (between `<!-- BEGIN gen:NAME -->` / `<!-- END gen:NAME -->` markers):
   asbuilt  - one row per property from evidence/, coq/Cnn/Properties_Cnn.v, mutants/, known_findings/
   fixes    - the `fix:` commits of /repo grouped by the property whose check reported the defect (known_findings/*.json `fixed`)
   catches  - which check catches which breaking change: mutants/RESULTS.txt (written by harness/run_mutants.py) and seeded/*/meta.json
   findings - open findings (harness/findings_table.py)
"""
import glob, json, os, re, subprocess, sys
V = os.path.dirname(os.path.dirname(os.path.abspath(__file__)))


def sh(cmd):
    return subprocess.run(cmd, shell=True, capture_output=True, text=True, cwd=V).stdout


def asbuilt():
    return sh("python3 harness/summary_table.py")


def fixes():
    log = sh("git -C /repo log --reverse --format='%h %s' fff2972..HEAD").strip().split("\n")
    by = {}
    for f in sorted(glob.glob(os.path.join(V, "known_findings", "C*.json"))):
        pid = os.path.basename(f)[:3]
        for e in json.load(open(f)).get("fixed", []):
            m = re.search(r"\b([0-9a-f]{7})\b", str(e))
            if m:
                by.setdefault(m.group(1), []).append(pid)
    out = ["| commit | subject | reported by |", "|---|---|---|"]
    for l in log:
        h, s = l.split(" ", 1)
        if s.startswith("fix:"):
            out.append("| %s | %s | %s |" % (h, s[5:].replace("|", "\\|"), " ".join(sorted(set(by.get(h, [])))) or "-"))
    return "\n".join(out) + "\n"


def catches():
    out = ["| change | property | verdict of `./check Cnn --tier quick` on /repo + change |", "|---|---|---|"]
    rf = os.path.join(V, "mutants", "RESULTS.txt")
    res = {}
    if os.path.exists(rf):
        for l in open(rf):
            m = re.match(r"(\S+)\s+(C\d\d)\s+(CAUGHT(?: \(no-failing-input-found\))?|MISSED \(rc=\d+\)|PATCH-FAILED|TIMEOUT)", l)
            if m:
                res[m.group(1)] = (m.group(2), m.group(3))
    for p in sorted(glob.glob(os.path.join(V, "mutants", "C*-*.patch"))):
        n = os.path.basename(p)[:-6]
        r = res.get(n, (n[:3], "not run since last change"))
        out.append("| mutants/%s | %s | %s |" % (n, r[0], r[1]))
    out.append("")
    out.append("| independently seeded change | what it needs to manifest | first verdict | verdict now |")
    out.append("|---|---|---|---|")
    for m in sorted(glob.glob(os.path.join(V, "seeded", "*", "meta.json"))):
        d = json.load(open(m))
        n = os.path.basename(os.path.dirname(m))
        c = d.get("confirmed_by_coordinator", {}).get("check", {}).get("quick", {})
        first = ("caught" + ("" if c.get("concrete") else " (no-failing-input-found)")) if c.get("rc") == 1 else "MISSED"
        now = res.get("seeded/" + n, (None, d.get("verdict_now", "-")))[1]
        out.append("| seeded/%s: %s | %s | %s | %s |" % (n, d.get("summary", "")[:260].replace("|", "\\|").replace("\n", " "),
                                                  d.get("needs", "")[:200].replace("|", "\\|").replace("\n", " "), first, now))
    return "\n".join(out) + "\n"


def findings():
    return sh("python3 harness/findings_table.py")


GEN = {"asbuilt": asbuilt, "fixes": fixes, "catches": catches, "findings": findings}


def main():
    p = os.path.join(V, "DESIGN.md")
    s = open(p).read()
    for name, fn in GEN.items():
        b, e = "<!-- BEGIN gen:%s -->" % name, "<!-- END gen:%s -->" % name
        if b in s and e in s:
            i, j = s.index(b) + len(b), s.index(e)
            s = s[:i] + "\n" + fn() + s[j:]
    open(p, "w").write(s)


if __name__ == "__main__":
    main()
