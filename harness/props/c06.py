"""C06 - destructors and defers run exactly once, LIFO, on every scope-exit path.

Theorems: coq/C06/Properties_C06.v (the Mech model of the two cleanup stacks AND of the name-keyed
destructor bookkeeping - (variable name, struct type) entries, find_variable through all scopes,
destructor_called flag in the slot - refines the structural Spec on object identities for ALL skeleton
programs without a re-declared live name; for ALL programs, whatever their names: both stacks and every
variable scope of the caller restored by every statement and call, at-most-once on every prefix; the Spec
is LIFO/exactly-once; the programs on which the current code loses an object are refuted theorems).
Tie: skeleton programs (objects of three struct types whose variable names come from a TINY pool, so that
the same name is live at once in caller and callee, in every level of a recursion, in sibling and nested
blocks, in successive loop iterations; defers; blocks, if/else, loops with break/continue; calls of any
function incl. recursion with a depth parameter; returns) printed as Cb programs with tracing
constructors/destructors/defers and run on the real `main` (hook CB_VERIF_STACKS) vs the extracted Mech
model: stdout transcript, every call-imbalance line and the final stack depths must agree for EVERY
program (nothing is avoided: the Mech reproduces the known name-collision defect of the code); on the
programs of the proved class Mech = Spec, so each of them is also a direct test of the property.
Two defects found by this check were repaired in /repo (fix: a registration resets destructor_called; fix: scopes
left while a destructor runs clean up) - the model follows the repaired code, W objects are inside the proved
class, destructor bodies that own objects/defers/blocks are fixed text programs with the demanded transcript.
"""
import itertools
import json
import os
import random
import re

import common
from common import rng_for

PROP = "C06"
LEVEL = "proof"
META = {
    "category": "proof",
    "technique": "Coq refinement proof (two-stack cleanup machine with name-keyed destructor entries, variable scopes and "
                 "destructor_called flags = structural scope-exit semantics on object identities; frame-isolation and "
                 "at-most-once invariants for all programs) + extracted-model differential run against the real interpreter",
    "text": "Machine-checked theorems about a function-by-function Gallina model of cleanup.cpp / statement_list_executor.cpp / "
            "control_flow_executor.cpp / return.cpp / call_impl.cpp / interpreter.cpp (call_destructor, register_destructor_call) / "
            "variables/manager.cpp (find_variable) / variables/declaration.cpp (defer_stacks_, destructor_stacks_ holding (variable "
            "name, struct type), scope_stack, Variable::destructor_called) over a skeleton language (objects of three struct types - one "
            "with a struct member that has its own destructor - declared under arbitrary variable names, defers, blocks, if/else, loops "
            "with break/continue, calls of any function incl. recursion with a depth parameter, return). For ALL programs: every "
            "statement and call restores both stacks and every variable scope of the caller exactly (leaving a callee never runs or "
            "disturbs cleanup of its caller, whatever names collide), a complete run ends balanced without an imbalance line, nothing "
            "is destroyed/run more often than constructed/registered on any prefix. For all programs in which no function body "
            "re-declares a name that is live in the same activation (the same name may be live in caller and callee, in all levels of "
            "a recursion, in sibling blocks and successive iterations): the machine emits exactly the structural cleanup order of the "
            "property (defers LIFO then destructors LIFO at every scope exit by any path, inner scopes first, each object destroyed "
            "exactly once by the destructor of its own type, a call's cleanup a function of the callee alone). Outside that class the "
            "current code loses objects (refuted theorem = known finding). The model is tied to the code on every run: exhaustive "
            "small skeletons under three naming disciplines, an exhaustive family of recursive callees sharing one variable name with "
            "their caller, and random deeper ones with names from a pool of 1-3 are printed as Cb programs and executed on the real "
            "binary; transcript, CB_VERIF_STACKS imbalance lines and final depths must equal the extracted model for every program.",
    "note": "Trusted: Coq kernel, no axioms (Print Assumptions: closed; coqchk in the thorough tier); extraction via "
            "ExtrOcamlBasic+ExtrOcamlString; the model is hand-written and tied by differential testing only; the Python printer of "
            "skeletons to Cb text; return operands are constants (the documented order `defers, destructors, then evaluation of the "
            "return operand` is checked by one fixed program); if/loop bodies are always braced (unbraced bodies, objects/defers inside "
            "constructor, destructor and defer bodies: fixed text programs only); struct parameters, copies, yield/async not modelled; "
            "the model folds register_destructor_call's reset of destructor_called into the binding of the slots (obj_slots: both "
            "variables of a W declaration are in the current scope when they are registered - observed, not proved). "
            "coq/C06/Pinned.v keeps the machine of the code before the fix commits (findings #11, #43, #44) for the record.",
}
PRELUDE = """struct R { int id; };
impl R {
    self(int k) { self.id = k; println("ctor", k); }
    ~self() { println("dtor", self.id); }
}
struct Q_t { int id; };
impl Q_t {
    self(int k) { self.id = k; println("qctor", k); }
    ~self() { println("qdtor", self.id); }
}
typedef R RA;
struct W { int id; R r; };
impl W {
    self(int k) { self.r.id = k + 50; println("ctor", k + 50); self.id = k; println("wctor", k); }
    ~self() { println("wdtor", self.id); }
}
"""

# ------------------------------------------------------------------ skeletons
# stmt: ("o",x,T,k) object of struct T in "RQW" in variable v<x>, identity k + 100 * n   ("d",k) ("m",k) ("B",[..])
#       ("I",c,[..],[..]) c in "T","F","D" (n > 0),int   ("L",n,[..]) ("c",f) = f<f>(pred n), printed f<f>((n - 1) * (n > 0))   ("r",) ("b",) ("k",)
# program: (n0, [function bodies]), function 0 = main, n0 = main's depth value


def ser_block(b):
    return " ".join(ser_stmt(s) for s in b)


def ser_stmt(s):
    t = s[0]
    if t == "o":
        return "o%s%d:%d" % (s[2], s[1], s[3])
    if t in "dmc":
        return "%s%d" % (t, s[1])
    if t in "rbk":
        return t
    if t == "B":
        return "{ %s }" % ser_block(s[1])
    if t == "I":
        return "?%s { %s } { %s }" % (s[1], ser_block(s[2]), ser_block(s[3]))
    if t == "L":
        return "L%d { %s }" % (s[1], ser_block(s[2]))
    raise ValueError(s)


def ser_prog(p):
    n0, fs = p
    return "N%d " % n0 + " | ".join(ser_block(b) for b in fs)


def parse_prog(text):
    def items(toks, i, closing):
        out = []
        while i < len(toks):
            t = toks[i]
            if t == "}":
                if not closing:
                    raise ValueError("stray }")
                return out, i + 1
            if t == "{":
                b, i = items(toks, i + 1, True)
                out.append(("B", b))
            elif t[0] == "o":
                if t[1] in "RQW":
                    x, k = t[2:].split(":")
                    out.append(("o", int(x), t[1], int(k)))
                else:                                   # old corpus form o<k>: unique name, type R
                    out.append(("o", int(t[1:]), "R", int(t[1:])))
                i += 1
            elif t[0] in "dmc":
                out.append((t[0], int(t[1:]))); i += 1
            elif t in "rbk":
                out.append((t,)); i += 1
            elif t[0] == "?":
                c = t[1:] if t[1:] in ("T", "F", "D") else int(t[1:])
                assert toks[i + 1] == "{"
                b1, i = items(toks, i + 2, True)
                assert toks[i] == "{"
                b2, i = items(toks, i + 1, True)
                out.append(("I", c, b1, b2))
            elif t[0] == "L":
                assert toks[i + 1] == "{"
                b, i = items(toks, i + 2, True)
                out.append(("L", int(t[1:]), b))
            else:
                raise ValueError(t)
        if closing:
            raise ValueError("missing }")
        return out, i
    text = text.strip()
    n0 = 0
    if text.startswith("N"):
        first, _, text = text.partition(" ")
        n0 = int(first[1:])
    return (n0, [items(f.split(), 0, False)[0] for f in text.split("|")])


def to_cb(p, sty=0):
    """Print a skeleton program as Cb text. `sty` selects surface variations the model abstracts from:
    for/while loops, void/int functions, call as statement or as initialiser, R declared through a typedef alias."""
    n0, fs = p
    rs = random.Random(sty)
    site = [0]
    fn_int = [rs.random() < 0.5 if sty else False for _ in fs]
    out = [PRELUDE]

    def cond(c, loopvar):
        if c == "T":
            return "1 == 1"
        if c == "F":
            return "1 == 0"
        if c == "D":
            return "n > 0"
        if loopvar is None:
            return "0 == 1"
        return "%s == %d" % (loopvar, c)

    def block(b, ind, fi, loopvar):
        ls = []
        pad = "    " * ind
        for s in b:
            t = s[0]
            if t == "o":
                # surface forms of the struct type the model abstracts from: Q's real name has an underscore (type-name
                # unmangling in call_destructor), an R object may be declared through the typedef alias RA (resolve_typedef)
                tn = {"R": "R", "Q": "Q_t", "W": "W"}[s[2]]
                if sty and s[2] == "R" and rs.random() < 0.3:
                    tn = "RA"
                ls.append("%s%s v%d(%d + 100 * n);" % (pad, tn, s[1], s[3]))
            elif t == "d":
                ls.append('%sprintln("reg", %d + 100 * n);' % (pad, s[1]))
                ls.append('%sdefer println("defer", %d + 100 * n);' % (pad, s[1]))
            elif t == "m":
                ls.append('%sprintln("mark", %d);' % (pad, s[1]))
            elif t == "B":
                ls.append(pad + "{")
                ls += block(s[1], ind + 1, fi, loopvar)
                ls.append(pad + "}")
            elif t == "I":
                ls.append("%sif (%s) {" % (pad, cond(s[1], loopvar)))
                ls += block(s[2], ind + 1, fi, loopvar)
                if s[3]:
                    ls.append(pad + "} else {")
                    ls += block(s[3], ind + 1, fi, loopvar)
                ls.append(pad + "}")
            elif t == "L":
                site[0] += 1
                n = site[0]
                if sty and rs.random() < 0.5:
                    v = "w%d" % n
                    ls.append("%sint %s = 0;" % (pad, v))
                    ls.append("%swhile (%s < %d) {" % (pad, v, s[1]))
                    ls.append("%s    %s = %s + 1;" % (pad, v, v))
                    ls += block(s[2], ind + 1, fi, "%s - 1" % v)
                else:
                    v = "i%d" % n
                    ls.append("%sfor (int %s = 0; %s < %d; %s++) {" % (pad, v, v, s[1], v))
                    ls += block(s[2], ind + 1, fi, v)
                ls.append(pad + "}")
            elif t == "c":
                site[0] += 1
                g = s[1]
                if g < len(fs) and fn_int[g] and rs.random() < 0.5:
                    ls.append("%sint r%d = f%d((n - 1) * (n > 0));" % (pad, site[0], g))
                else:
                    ls.append("%sf%d((n - 1) * (n > 0));" % (pad, g))
            elif t == "r":
                ls.append(pad + ("return 0;" if fn_int[fi] else "return;"))
            elif t == "b":
                ls.append(pad + "break;")
            elif t == "k":
                ls.append(pad + "continue;")
        return ls

    for fi in range(len(fs) - 1, 0, -1):        # prototypes are not needed: calls resolve at run time
        out.append("%s f%d(int n) {" % ("int" if fn_int[fi] else "void", fi))
        out += block(fs[fi], 1, fi, None)
        out.append("}")
    out.append("%s main() {" % ("int" if fn_int[0] else "void"))
    out.append("    int n = %d;" % n0)
    out += block(fs[0], 1, 0, None)
    out.append("}")
    return "\n".join(out) + "\n"


# ------------------------------------------------------------------ running both sides
_IMB = re.compile(r"CBV call-imbalance fn=f(\d+) defer=(\d+)->(\d+) dtor=(\d+)->(\d+) scopes=(\d+)->(\d+)")
_STK = re.compile(r"CBV stacks defer=(\d+) dtor=(\d+) scopes=(\d+)")


def run_impl(impl_dir, p, sty=0):
    """Canonical observation of the implementation: (ok, transcript lines, imbalance tuples, final depths)."""
    rc, o, e = common.run_cb(impl_dir, to_cb(p, sty), env={"CB_VERIF_STACKS": "1"}, timeout=10)
    if rc == 124:      # these programs run in milliseconds: a timeout is machine load, try again with room
        rc, o, e = common.run_cb(impl_dir, to_cb(p, sty), env={"CB_VERIF_STACKS": "1"}, timeout=120)
    imb = [tuple(int(x) for x in m.groups()) for m in _IMB.finditer(e)]
    m = _STK.search(e)
    depths = tuple(int(x) for x in m.groups()) if m else None
    lines = o.split("\n")
    if lines and lines[-1] == "":
        lines.pop()
    if rc == 0:
        cls = "ok"
    elif rc == 1:
        cls = "error"
    else:
        cls = "rc%d" % rc
    other = [l for l in e.split("\n") if l and not l.startswith("CBV ")]
    return {"cls": cls, "out": lines, "imb": imb, "depths": depths, "stderr": other[:3]}


def _obs(ok, d, t, sc, evtext):
    ev = [x for x in evtext.split(";") if x]
    return {"cls": "ok" if ok == "1" else "error",
            "out": [x for x in ev if not x.startswith("imb ")],
            "imb": [tuple(int(y) for y in x.split()[1:]) for x in ev if x.startswith("imb ")],
            "depths": (int(d), int(t), int(sc)) if ok == "1" else None}


def run_models(progs):
    """Extracted model on many programs: the Mech and Spec observations, the labels of the formerly
    defective shapes, (diagnosis only) the machine of the code before the fix commits, and wf_prog (is the
    program in the class covered by theorem cleanup_mech_refines_spec_partial)."""
    lines = common.run_model(PROP, "run", [ser_prog(p) for p in progs], timeout=1800)
    if len(lines) != len(progs):
        raise RuntimeError("model result count mismatch %d vs %d" % (len(lines), len(progs)))
    res = []
    for l in lines:
        f = l.split("\t")
        res.append({
            "fuel": f[0] == "FUEL" or f[5] == "FUEL",
            "mech": _obs(f[0], f[1], f[2], f[3], f[4]),
            "spec": {"cls": "ok" if f[5] == "1" else "error", "out": [x for x in f[6].split(";") if x]},
            "shapes": {"#11": f[7] == "1", "#43": f[8] == "1", "#44": f[9] == "1"},
            "pinned": _obs(f[10], f[11], f[12], f[13], f[14]),
            "wf": f[15] == "1",
        })
    return res


def impl_matches_mech(i, m):
    return (i["cls"] == m["cls"] and i["out"] == m["out"] and i["imb"] == m["imb"]
            and (m["cls"] != "ok" or i["depths"] == m["depths"]))


def impl_matches_spec(i, s):
    """The property's own reading: transcript = structural order, no call leaves the stacks unbalanced,
    both stacks back at their initial depth at the end."""
    if s["cls"] != "ok":
        return i["cls"] == "error" and i["out"] == s["out"]
    return i["cls"] == "ok" and i["out"] == s["out"] and not i["imb"] and i["depths"] == (0, 1, 1)


def conforming(m):
    """Does the Mech model itself meet the Spec on this program?"""
    return (m["mech"]["cls"] == m["spec"]["cls"] and m["mech"]["out"] == m["spec"]["out"]
            and not m["mech"]["imb"] and (m["mech"]["cls"] != "ok" or m["mech"]["depths"] == (0, 1, 1)))


# ------------------------------------------------------------------ generators
RCALL = ("I", "D", [("c", 1)], [])       # if (n > 0) { f1(n - 1); }  - the guarded recursive call of f1


def enum_blocks(budget, depth, in_loop, call_leaf):
    """All statement lists with at most `budget` items and nesting depth <= depth; no dead code after an
    exit statement; ids are placeholders (renumbered later). call_leaf: None, ("c", 1) or RCALL.
    Yields (block, items_used, has_call)."""
    yield [], 0, False
    if budget <= 0:
        return
    leaves = [("o",), ("d", 0)]
    if call_leaf:
        leaves.append(call_leaf)
    exits = [("r",)] + ([("b",), ("k",)] if in_loop else [])
    # first statement, then the rest
    for s in leaves:
        for rest, used, hc in enum_blocks(budget - 1, depth, in_loop, call_leaf):
            yield [s] + rest, used + 1, hc or s is call_leaf
    for s in exits:
        yield [s], 1, False
    if depth > 0:
        for kind in ("B", "I", "L"):
            for inner, u1, hc1 in enum_blocks(budget - 1, depth - 1, in_loop or kind == "L", call_leaf):
                if not inner and kind != "B":
                    continue
                if kind == "B":
                    s = ("B", inner)
                elif kind == "I":
                    s = ("I", 1 if in_loop else "T", inner, [])
                else:
                    s = ("L", 2, inner)
                for rest, u2, hc2 in enum_blocks(budget - 1 - u1, depth, in_loop, call_leaf):
                    yield [s] + rest, 1 + u1 + u2, hc1 or hc2


NAMING = ("unique", "one-name", "pool2-types")


def renumber(fs, naming="unique", types="R"):
    """Give every object/defer its own identity constant k (1..49), choose the VARIABLE NAME by `naming`
    (unique: v<k>; one-name: every object of the program is called v0; pool2-types: names alternate
    over v0/v1 and struct types cycle through `types`), add a mark after every container and call so
    that the time of each cleanup is observable."""
    ctr = [0]
    nobj = [0]

    def fresh():
        ctr[0] += 1
        return (ctr[0] - 1) % 49 + 1

    def blk(b):
        out = []
        for s in b:
            t = s[0]
            if t == "o":
                k = fresh()
                j = nobj[0]
                nobj[0] += 1
                if len(s) == 4 and naming == "keep":
                    out.append(("o", s[1], s[2], k))
                elif naming == "unique":
                    out.append(("o", k, types[j % len(types)], k))
                elif naming == "one-name":
                    out.append(("o", 0, types[j % len(types)], k))
                else:
                    out.append(("o", j % 2, types[j % len(types)], k))
            elif t == "d":
                out.append(("d", fresh()))
            elif t == "B":
                out.append(("B", blk(s[1])))
            elif t == "I":
                out.append(("I", s[1], blk(s[2]), blk(s[3])))
            elif t == "L":
                out.append(("L", s[1], blk(s[2])))
            else:
                out.append(s)
            if t in "BILc":
                out.append(("m", fresh()))
        return out
    return [blk(b) for b in fs]


def exhaustive_programs(budget, depth):
    """main (may call f1) x f1 (no calls), total items <= budget; the k-th program uses naming discipline
    k mod 3 (unique names / one name for every object / two names and three struct types)."""
    k = 0
    for mb, used, hc in enum_blocks(budget, depth, False, ("c", 1)):
        if not hc:
            yield (0, renumber([mb], NAMING[k % 3], "RQW")); k += 1
        else:
            for fb, u2, _ in enum_blocks(budget - used, depth - 1, False, None):
                yield (0, renumber([mb, fb], NAMING[k % 3], "RQW")); k += 1


def recursive_programs(budget, depth):
    """main = `R v0(..); defer; f1(n-1); mark` with n0 = 2, f1 = every body of <= budget items over {object, defer,
    guarded recursive call of f1, return, block, if, loop(2) with break/continue}: caller, callee and all
    recursion levels use the SAME variable name v0 - once with the same struct type R everywhere, once with Q
    in the callee."""
    def has_obj(b):
        return any(s[0] == "o" or (s[0] in "BL" and has_obj(s[-1])) or (s[0] == "I" and (has_obj(s[2]) or has_obj(s[3]))) for s in b)
    for fb, used, hc in enum_blocks(budget, depth, False, RCALL):
        for types in (("R", "Q") if has_obj(fb) else ("R",)):
            f1 = renumber([[("o", 0, "R", 0), ("d", 0), ("c", 1)], fb], "one-name", types)
            main = [("o", 0, "R", f1[0][0][3])] + f1[0][1:]
            yield (2, [main, f1[1]])


BIG = 10 ** 9


def cost(p, limit=BIG):
    """Upper bound of the number of statements a run executes (early exits ignored); BIG for unguarded
    recursion."""
    n0, fs = p
    memo = {}
    onstack = set()

    def fn(g, n):
        if g >= len(fs):
            return 1
        key = (g, max(n, -1))
        if key in memo:
            return memo[key]
        if key in onstack:
            return BIG
        onstack.add(key)
        c = blk(fs[g], n)
        onstack.discard(key)
        memo[key] = min(c, BIG)
        return memo[key]

    def blk(b, n):
        c = 0
        for s in b:
            t = s[0]
            if t == "B":
                c += 1 + blk(s[1], n)
            elif t == "I":
                if s[1] == "D":
                    c += 1 + (blk(s[2], n) if n > 0 else blk(s[3], n))
                else:
                    c += 1 + blk(s[2], n) + blk(s[3], n)
            elif t == "L":
                c += 1 + s[1] * (1 + blk(s[2], n))
            elif t == "c":
                c += 1 + fn(s[1], n - 1)
            else:
                c += 1
            if c >= BIG:
                return BIG
        return c
    return blk(fs[0], n0)


MAXCOST = 500


def random_program(rng, maxdepth=4, nfuncs=None, stress=False):
    """Random skeleton: up to 4 functions with an arbitrary call graph (a call of a function with a lower or
    the same index - recursion - is guarded by `n > 0`), nesting to `maxdepth`, variable names from a pool
    of 1-3, struct types R/Q/W, main's depth value 1-3. Nothing is avoided. stress=True raises the share of
    the shapes that used to be defective (scopes that own both objects and defers, returns after them,
    returns from inside loops). Programs whose run would execute more than MAXCOST statements are redrawn."""
    for attempt in range(50):
        nf = nfuncs or rng.choice([1, 2, 2, 3, 3, 4])
        pool = rng.choice([1, 1, 2, 2, 3])
        tys = rng.choice(["R", "RQ", "RQ", "RRQW", "RQW"])
        n0 = rng.choice([1, 2, 2, 3])
        p_ret = 0.16 if stress else 0.10

        def blk(fi, depth, in_loop, top):
            out = []
            n = rng.choice([0, 1, 1, 2, 2, 3, 3, 4]) if not top else rng.choice([1, 2, 3, 3, 4, 5])
            if stress:
                n += 1
            for j in range(n):
                r = rng.random()
                if r < 0.34:
                    if rng.random() < 0.5:
                        out.append(("o", rng.randrange(pool), rng.choice(tys), 0))
                    else:
                        out.append(("d", 0))
                elif r < 0.44 and nf > 1:
                    g = rng.randint(1, nf - 1)
                    if g <= fi:
                        out.append(("I", "D", [("c", g)], [("c", rng.randint(fi + 1, nf - 1))] if fi + 1 < nf and rng.random() < 0.3 else []))
                    else:
                        out.append(("c", g))
                elif r < 0.44 + p_ret and (j > 0 or not stress):
                    out.append(("r",)); break
                elif r < 0.62 + (p_ret - 0.10) and in_loop:
                    out.append((rng.choice("bk"),)); break
                elif depth > 0:
                    k = rng.choice("BIIL" if not stress else "BIILL")
                    if k == "B":
                        out.append(("B", blk(fi, depth - 1, in_loop, False)))
                    elif k == "I":
                        c = rng.choice(["T", "T", "F", "D"] + ([0, 1, 1, 2] if in_loop else []))
                        els = blk(fi, depth - 1, in_loop, False) if rng.random() < 0.4 else []
                        out.append(("I", c, blk(fi, depth - 1, in_loop, False), els))
                    else:
                        out.append(("L", rng.choice([1, 2, 2, 3]), blk(fi, depth - 1, True, False)))
            return out
        bodies = [blk(fi, maxdepth - (1 if fi else 0), False, True) for fi in range(nf)]
        # every function is called from a lower one (top level, before any exit statement)
        for fi in range(1, nf):
            if not any(fi in _calls(b) for b in bodies[:fi]):
                host = bodies[rng.randint(0, fi - 1)]
                lim = next((j for j, s in enumerate(host) if s[0] in "rbk"), len(host))
                host.insert(rng.randint(0, lim), ("c", fi))
        p = (n0, renumber(bodies, "keep"))
        if cost(p) <= MAXCOST:
            return p
    return (1, [[("o", 0, "R", 1), ("d", 2)]])


# ------------------------------------------------------------------ shrinking
def _variants_block(b):
    """Smaller variants of a statement list: drop one statement, unwrap one container, shrink inside."""
    for i, s in enumerate(b):
        yield b[:i] + b[i + 1:]
        t = s[0]
        if t == "B":
            yield b[:i] + s[1] + b[i + 1:]
            for v in _variants_block(s[1]):
                yield b[:i] + [("B", v)] + b[i + 1:]
        elif t == "I":
            yield b[:i] + s[2] + b[i + 1:]
            if s[3]:
                yield b[:i] + [("I", s[1], s[2], [])] + b[i + 1:]
            if s[1] not in ("T", "F", "D"):
                yield b[:i] + [("I", "T", s[2], s[3])] + b[i + 1:]
            for v in _variants_block(s[2]):
                yield b[:i] + [("I", s[1], v, s[3])] + b[i + 1:]
            for v in _variants_block(s[3]):
                yield b[:i] + [("I", s[1], s[2], v)] + b[i + 1:]
        elif t == "L":
            if s[1] > 1:
                yield b[:i] + [("L", s[1] - 1, s[2])] + b[i + 1:]
            for v in _variants_block(s[2]):
                yield b[:i] + [("L", s[1], v)] + b[i + 1:]
        elif t == "o" and s[2] == "W":
            yield b[:i] + [("o", s[1], "R", s[3])] + b[i + 1:]


def _calls(b):
    out = set()
    for s in b:
        if s[0] == "c":
            out.add(s[1])
        elif s[0] == "B":
            out |= _calls(s[1])
        elif s[0] == "I":
            out |= _calls(s[2]) | _calls(s[3])
        elif s[0] == "L":
            out |= _calls(s[2])
    return out


def variants(p):
    n0, fs = p
    for fi in range(len(fs)):
        for v in _variants_block(fs[fi]):
            q = (n0, fs[:fi] + [v] + fs[fi + 1:])
            if cost(q) <= 4 * MAXCOST:
                yield q
    # drop a trailing function nobody calls
    if len(fs) > 1 and (len(fs) - 1) not in set().union(*[_calls(b) for b in fs]):
        yield (n0, fs[:-1])
    if n0 > 0:
        yield (n0 - 1, fs)


def size(p):
    return len(ser_prog(p).split()) + p[0]


def shrink(p, sty, impl_dir, bad, budget=400):
    """Greedy delta debugging on the skeleton, keeping `bad(p)` true."""
    cur = p
    steps = 0
    changed = True
    while changed and steps < budget:
        changed = False
        for v in variants(cur):
            steps += 1
            if steps >= budget:
                break
            if size(v) < size(cur) and bad(v):
                cur = v
                changed = True
                break
    if sty and bad_with(cur, 0, bad):
        return cur, 0
    return cur, sty


def bad_with(p, sty, bad):
    try:
        return bad(p, sty)
    except TypeError:
        return False


# ------------------------------------------------------------------ fixed extra programs
NONWF = ["o1 b", "o1 c1 m2 | b", "L2 { c1 m1 } m2 | d1 b", "L2 { o5 c1 m1 } m2 | o1 k", "o1 { d2 k } m3",
         "c1 m1 | { o1 b } m2"]

DOC6 = PRELUDE + """int g() { println("mark", 9); return 0; }
int f1() { R o1(1); println("reg", 2); defer println("defer", 2); return g(); }
void main() { f1(); println("mark", 10); }
"""
DOC6_EXPECT = ["ctor 1", "reg 2", "defer 2", "dtor 1", "mark 9", "mark 10"]

# constructs outside the skeleton language, one text program each with the transcript the property demands
# (all of them hold on the current code): cleanup code paths the skeletons cannot reach; the destructor-* programs are the
# regression inputs of the repaired finding C06-destructor-context-no-cleanup (scopes left while a destructor runs)
EXTRA = [
    ("unbraced-if-body-object", """void main() { if (1 == 1) R a(1); println("mark", 1); }
""", ["ctor 1", "mark 1", "dtor 1"]),
    ("constructor-body-owns-object-and-defer", """struct V { int id; };
impl V { self(int k) { self.id = k; println("vctor", k); R a(7); defer println("defer", 5); println("mark", 4); }
         ~self() { println("vdtor", self.id); } }
void main() { R a(1); V b(2); println("mark", 9); }
""", ["ctor 1", "vctor 2", "ctor 7", "mark 4", "defer 5", "dtor 7", "mark 9", "vdtor 2", "dtor 1"]),
    ("defer-block-owns-object", """void main() { R a(1); defer { R b(2); println("mark", 2); } println("mark", 1); }
""", ["ctor 1", "mark 1", "ctor 2", "mark 2", "dtor 2", "dtor 1"]),
    ("destructor-body-with-defer-in-recursion", """struct V { int id; };
impl V { self(int k) { self.id = k; println("vctor", k); }
         ~self() { defer println("defer", 5); println("vdtor", self.id); println("mark", 4); } }
void f(int n) { V a(0 + n); if (n > 0) { f(n - 1); } println("mark", n); }
void main() { V a(9); f(1); }
""", ["vctor 9", "vctor 1", "vctor 0", "mark 0", "vdtor 0", "mark 4", "defer 5", "mark 1", "vdtor 1", "mark 4", "defer 5",
      "vdtor 9", "mark 4", "defer 5"]),
    ("same-name-as-by-value-parameter-and-local", """void g(R a, int n) { println("mark", a.id); if (n > 0) { R b(2); g(b, n - 1); } }
void f(R a) { R b(3); println("mark", a.id); g(b, 1); }
void main() { R a(1); f(a); println("mark", 9); }
""", ["ctor 1", "ctor 3", "mark 1", "mark 3", "ctor 2", "mark 2", "dtor 2", "dtor 3", "mark 9", "dtor 1"]),
    ("interface-method-recursion-same-names", """interface Go { void go(int n); };
struct S { int id; };
impl Go for S { void go(int n) { R a(5 + 100 * n); defer println("defer", 5 + 100 * n); if (n > 0) { self.go(n - 1); } println("mark", n);
                                 if (n == 0) { return; } println("mark", 50 + n); } }
void main() { R a(1); S s; s.id = 3; s.go(1); println("mark", 9); }
""", ["ctor 1", "ctor 105", "ctor 5", "mark 0", "defer 5", "dtor 5", "mark 1", "mark 51", "defer 105", "dtor 105", "mark 9", "dtor 1"]),
    ("switch-case-bodies", """void main() { R a(1); int x = 2; switch (x) { case (1) { R a(2); } case (2) { R b(3); defer println("defer", 3); println("mark", 3); }
              else { println("mark", 4); } } println("mark", 9); }
""", ["ctor 1", "ctor 3", "mark 3", "defer 3", "dtor 3", "mark 9", "dtor 1"]),
    ("else-if-chain-with-return", """void f(int n) { R a(0 + n); if (n == 0) { R b(10); return; } else if (n == 1) { R b(11); defer println("defer", 11); } else { R b(12); }
                 println("mark", n); }
void main() { f(0); f(1); f(2); }
""", ["ctor 0", "ctor 10", "dtor 10", "dtor 0", "ctor 1", "ctor 11", "defer 11", "dtor 11", "mark 1", "dtor 1", "ctor 2", "ctor 12", "dtor 12",
      "mark 2", "dtor 2"]),
    ("member-objects-in-caller-and-callee", """void f(int n) { W a(1 + 100 * n); if (n > 0) { f(n - 1); } println("mark", n); }
void main() { W a(7); f(1); println("mark", 9); }
""", ["ctor 57", "wctor 7", "ctor 151", "wctor 101", "ctor 51", "wctor 1", "mark 0", "wdtor 1", "dtor 51", "mark 1", "wdtor 101",
      "dtor 151", "mark 9", "wdtor 7", "dtor 57"]),
    ("destructor-body-owns-object-block-defer-and-calls", """struct V { int id; };
void helper(int k) { R h(70 + k); println("mark", k); }
impl V { self(int k) { self.id = k; println("vctor", k); }
         ~self() { println("vdtor", self.id); R g(60); { defer println("defer", 6); println("mark", 3); } println("mark", 4); helper(self.id); } }
void main() { V v(1); println("mark", 9); }
""", ["vctor 1", "mark 9", "vdtor 1", "ctor 60", "mark 3", "defer 6", "mark 4", "ctor 71", "mark 1", "dtor 71", "dtor 60"]),
    ("destructor-local-named-like-the-destroyed-object", """struct V { int id; };
impl V { self(int k) { self.id = k; println("vctor", k); }
         ~self() { println("vdtor", self.id); R a(60 + self.id); println("mark", 3); } }
void main() { V a(1); { V a2(2); } println("mark", 9); }
""", ["vctor 1", "vctor 2", "vdtor 2", "ctor 62", "mark 3", "dtor 62", "mark 9", "vdtor 1", "ctor 61", "mark 3", "dtor 61"]),
    ("destructors-nested-with-member-objects-loops-and-blocks", """struct V { int id; };
struct U { int id; };
impl U { self(int k) { self.id = k; println("uctor", k); }
         ~self() { println("udtor", self.id); R x(80); for (int i = 0; i < 2; i++) { R y(81 + i); if (i == 0) { continue; } println("mark", 5); } } }
impl V { self(int k) { self.id = k; println("vctor", k); }
         ~self() { println("vdtor", self.id); U u(70); W w(20); if (self.id == 1) { defer println("defer", 7); println("mark", 6); } println("mark", 4); } }
void main() { V a(1); V b(2); println("mark", 9); }
""", ["vctor 1", "vctor 2", "mark 9",
      "vdtor 2", "uctor 70", "ctor 70", "wctor 20", "mark 4", "wdtor 20", "dtor 70", "udtor 70", "ctor 80", "ctor 81", "dtor 81", "ctor 82", "mark 5",
      "dtor 82", "dtor 80",
      "vdtor 1", "uctor 70", "ctor 70", "wctor 20", "mark 6", "defer 7", "mark 4", "wdtor 20", "dtor 70", "udtor 70", "ctor 80", "ctor 81", "dtor 81",
      "ctor 82", "mark 5", "dtor 82", "dtor 80"]),
    ("destructor-calls-recursive-function-with-objects-and-defers", """struct V { int id; };
void close(int n) { R t(90 + n); defer println("defer", n); if (n > 0) { close(n - 1); } println("mark", n); }
impl V { self(int k) { self.id = k; println("vctor", k); }
         ~self() { println("vdtor", self.id); close(1); println("mark", 8); } }
void main() { V v(3); println("mark", 9); }
""", ["vctor 3", "mark 9", "vdtor 3", "ctor 91", "ctor 90", "mark 0", "defer 0", "dtor 90", "mark 1", "defer 1", "dtor 91", "mark 8"]),
    ("destructor-with-local-object-run-from-loop-break", """struct V { int id; };
impl V { self(int k) { self.id = k; println("vctor", k); }
         ~self() { R g(60 + self.id); println("vdtor", self.id); } }
void main() { for (int i = 0; i < 3; i++) { V v(0 + i); if (i == 1) { break; } } println("mark", 9); }
""", ["vctor 0", "ctor 60", "vdtor 0", "dtor 60", "vctor 1", "ctor 61", "vdtor 1", "dtor 61", "mark 9"]),
]


def run_text(impl, cb):
    rc, o, e = common.run_cb(impl, PRELUDE + cb, env={"CB_VERIF_STACKS": "1"}, timeout=20)
    m = _STK.search(e)
    return {"rc": rc, "out": [l for l in o.split("\n") if l], "imb": "call-imbalance" in e,
            "depths": tuple(int(x) for x in m.groups()) if m else None,
            "stderr": [l for l in e.split("\n") if l and not l.startswith("CBV ")][:3]}


def text_ok(r, expected):
    return r["rc"] == 0 and r["out"] == expected and not r["imb"] and r["depths"] == (0, 1, 1)


def load_cases(path):
    if not os.path.exists(path):
        return []
    return [(parse_prog(c["prog"]), int(c.get("sty", 0))) for c in json.load(open(path))]


# ------------------------------------------------------------------ main
def names_live_across_frames(p):
    """Static label for the input histogram: some variable name is declared in two different functions, or
    in a function that can be active more than once (it has a guarded recursive call)."""
    n0, fs = p

    def objs(b, acc):
        for s in b:
            if s[0] == "o":
                acc.add((s[1], s[2]))
            elif s[0] == "B":
                objs(s[1], acc)
            elif s[0] == "I":
                objs(s[2], acc); objs(s[3], acc)
            elif s[0] == "L":
                objs(s[2], acc)
        return acc
    per = [objs(b, set()) for b in fs]
    names = [set(x for x, _ in o) for o in per]
    same_type = diff_type = rec = False
    for i in range(len(fs)):
        if names[i] and any(g <= i for g in _calls(fs[i]) if g > 0):
            rec = True
        for j in range(i + 1, len(fs)):
            for x in names[i] & names[j]:
                ti = set(t for y, t in per[i] if y == x)
                tj = set(t for y, t in per[j] if y == x)
                if ti & tj:
                    same_type = True
                if ti != tj or len(ti) > 1:
                    diff_type = True
    return same_type, diff_type, rec


def w_declared_again(p):
    """Static label for the input histogram (the input class of the repaired finding C06-redeclared-member-flag-stale): some
    function body declares a W object inside a loop, or declares two W objects under one variable name."""
    def walk(b, in_loop, seen):
        hit = False
        for s in b:
            if s[0] == "o" and s[2] == "W":
                hit = hit or in_loop or s[1] in seen
                seen.add(s[1])
            elif s[0] == "B":
                hit = walk(s[1], in_loop, seen) or hit
            elif s[0] == "I":
                hit = walk(s[2], in_loop, seen) or hit
                hit = walk(s[3], in_loop, seen) or hit
            elif s[0] == "L":
                hit = walk(s[2], in_loop or s[1] > 1, seen) or hit
        return hit
    return any(walk(b, False, set()) for b in p[1])


def run(rep):
    seed, tier = rep.seed, rep.tier
    thorough = tier == "thorough"
    cq = common.coq_check_props(PROP)
    extra = ""
    if thorough and cq["ok"]:
        rc, o, e = common.sh(["coqchk", "-silent", "-o", "-Q", ".", "Cb", "Cb.C06.Properties_C06"], cwd=common.COQ, timeout=900)
        m = re.search(r"\* Axioms:\s*(.*?)\n\s*\n", o + e, re.S)
        rep.coverage["coqchk"] = {"rc": rc, "axioms": (m.group(1).strip() if m else "?")}
        extra = " + coqchk -o of the closure"
        if rc != 0:
            cq["ok"] = False
            cq["failed_theorem"] = "coqchk"
            cq["log"] += (o + e)[-1500:]
    common.proof_coverage(rep, cq, extra)
    if not cq["ok"]:
        rep.violation("proof", {"theorem": cq["failed_theorem"], "log": cq["log"][-3000:]},
                      "proof obligation %s no longer checks" % cq["failed_theorem"], True)
    common.ensure_model(PROP)
    impl = common.build_impl("plain")

    cases, origin = [], []
    for p, sty in load_cases(os.path.join(common.VERIF, "corpus", "c06.json")):
        cases.append((p, sty)); origin.append("corpus")
    # (1) exhaustive small skeletons: main (+ one callee), every exit kind at every position, three naming disciplines
    budget, depth = (5, 3) if thorough else (4, 3)
    n_exh = 0
    for k, p in enumerate(exhaustive_programs(budget, depth)):
        cases.append((p, 0 if k % 3 == 0 else 1 + (k * 7919 + seed) % 1000)); origin.append("exhaustive"); n_exh += 1
    # (2) exhaustive recursive callees sharing ONE variable name with their caller (same / other struct type)
    rbudget, rdepth = (4, 2) if thorough else (3, 2)
    n_rec = 0
    for k, p in enumerate(recursive_programs(rbudget, rdepth)):
        cases.append((p, 0 if k % 2 == 0 else 1 + (k * 104729 + seed) % 1000)); origin.append("exhaustive-recursion"); n_rec += 1
    # (3) random deeper skeletons: arbitrary call graph incl. recursion, names from a pool of 1-3, three struct types;
    #     nothing is avoided, half of them stress the formerly defective shapes
    n_rand = 150000 if thorough else 3000
    for k in range(n_rand):
        rng = rng_for(seed, "c06-rand", k)
        stress = k % 2 == 0
        cases.append((random_program(rng, rng.choice([3, 4, 4]), stress=stress), rng.randint(1, 10 ** 6)))
        origin.append("random-stress" if stress else "random")
    # (4) break/continue escaping a function (run-time error or caught by a caller's loop)
    for t in NONWF:
        cases.append((parse_prog(t), 0)); origin.append("escaping-break")

    models = run_models([p for p, _ in cases])
    impls = common.pmap(lambda c: run_impl(impl, c[0], c[1]), cases)

    hist, shape_hist = {}, {}
    n_fuel = 0
    distinct = set()
    nontrivial = 0
    n_old_defect = 0
    n_wf = n_nonconf = 0
    n_same = n_diff = n_rec_names = n_w_again = 0
    bad, inconsistent = [], []
    for (p, sty), o, m, i in zip(cases, origin, models, impls):
        hist[o] = hist.get(o, 0) + 1
        key = ser_prog(p)
        first = key not in distinct
        distinct.add(key)
        if m["fuel"]:
            n_fuel += 1
            continue
        if first and any(not x.startswith("mark") for x in m["mech"]["out"]):
            nontrivial += 1
        lab = "+".join(k for k, v in sorted(m["shapes"].items()) if v) or "none"
        shape_hist[lab] = shape_hist.get(lab, 0) + 1
        if m["pinned"] != m["mech"]:
            n_old_defect += 1
        a, b, c = names_live_across_frames(p)
        n_same += a; n_diff += b; n_rec_names += c
        n_w_again += w_declared_again(p)
        if m["wf"]:
            n_wf += 1
            if not conforming(m):      # contradicts theorem cleanup_mech_refines_spec_partial: extraction/driver trouble
                inconsistent.append((p, sty, m))
        elif not conforming(m):
            n_nonconf += 1             # the model itself shows one of the known name-collision defects here
        if not impl_matches_mech(i, m["mech"]):
            bad.append((p, sty, o, m, i))

    rep.coverage.update({
        "evaluations": len(cases), "distinct_nontrivial": nontrivial,
        "rule": "real interpreter (main, hook CB_VERIF_STACKS) vs extracted Coq Mech model (= Spec on the programs of wf_prog, theorem "
                "cleanup_mech_refines_spec_partial) on the same skeleton program: stdout transcript, every CBV call-imbalance line and the "
                "final CBV stacks depths must be equal for EVERY program; distinct = distinct skeletons (names, types, depth value included); "
                "non-trivial = the transcript contains at least one constructor/destructor/defer event",
        "exhaustive": True,
        "exhaustive_space": "all programs main(+one callee) with <= %d statements, nesting <= %d over {object, defer, call, return, break, continue, "
                            "block, if, loop(2)} without dead code, naming discipline k mod 3 (%d programs); all callees f1 with <= %d statements, "
                            "nesting <= %d incl. a guarded recursive call, sharing the variable name v0 with main, same and other struct type, "
                            "depth value 2 (%d programs)" % (budget, depth, n_exh, rbudget, rdepth, n_rec),
        "input_distribution": hist,
        "programs_in_proved_class_wf_prog": n_wf,
        "programs_on_which_the_model_itself_shows_a_known_name_collision_defect": n_nonconf,
        "programs_with_one_name_in_two_functions_same_struct_type": n_same,
        "programs_with_one_name_in_two_functions_other_struct_type": n_diff,
        "programs_with_named_objects_in_a_recursive_function": n_rec_names,
        "programs_declaring_a_W_object_again_in_one_function_body": n_w_again,
        "programs_by_formerly_defective_shape": shape_hist,
        "programs_on_which_the_code_before_the_fixes_misbehaved": n_old_defect,
        "avoided_known_findings": 0,
        "fuel_exhausted": n_fuel,
        "samples": [{"prog": ser_prog(cases[j][0]), "sty": cases[j][1], "impl": impls[j], "spec_out": models[j]["spec"]["out"],
                     "wf_prog": models[j]["wf"]}
                    for j in (min(len(cases) - 1, n_exh // 2), len(load_cases(os.path.join(common.VERIF, "corpus", "c06.json"))) + n_exh + n_rec // 2,
                              len(cases) - len(NONWF) - 7)],
    })
    for p, sty, m in inconsistent[:3]:
        rep.violation("model-consistency", {"prog": ser_prog(p), "sty": sty, "model": m},
                      "extracted model contradicts theorem cleanup_mech_refines_spec_partial on %s" % ser_prog(p), True)

    def kind(i, sp):
        if sp["cls"] != i["cls"] or sp["out"] != i["out"]:
            return "transcript"
        if sp["cls"] == "ok" and (i["imb"] or i["depths"] != (0, 1, 1)):
            return "stacks"
        return None

    def rank(b):
        p, sty, o, m, i = b
        return ({"transcript": 0, "stacks": 1, None: 2}[kind(i, m["spec"])], 0 if m["wf"] else 1, size(p))
    bad.sort(key=rank)
    rep.coverage["disagreements"] = len(bad)
    reported = set()
    for p, sty, o, m, i in bad[:4]:
        want = kind(i, m["spec"])
        want_wf = m["wf"]

        def still_bad(q, s=sty):
            mm = run_models([q])[0]
            if mm["fuel"] or (want_wf and not mm["wf"]):
                return False
            ii = run_impl(impl, q, s)
            if impl_matches_mech(ii, mm["mech"]):
                return False
            return kind(ii, mm["spec"]) == want
        q, s2 = shrink(p, sty, impl, still_bad)
        mm = run_models([q])[0]
        ii = run_impl(impl, q, s2)
        if impl_matches_mech(ii, mm["mech"]):        # style-dependent: keep the original style
            s2 = sty
            ii = run_impl(impl, q, s2)
        rkey = (re.sub(r"(:|\bd|\bm)\d+", r"\1#", ser_prog(q)), kind(ii, mm["spec"]))    # same shape, other constants
        if rkey in reported:
            continue
        reported.add(rkey)
        spec_fail = kind(ii, mm["spec"]) is not None
        like_old = impl_matches_mech(ii, mm["pinned"])
        verdict = ("implementation violates the structural cleanup order: expected %r with balanced stacks, got %r imb=%r depths=%r%s%s"
                   % (mm["spec"]["out"], ii["out"], ii["imb"], ii["depths"],
                      " - exactly the behaviour of the code before the fix commits (a repair was reverted?)" if like_old else "",
                      "" if mm["wf"] else " (the program re-declares a live name: the proved model itself deviates from the Spec here, "
                                          "known findings - but the implementation does not behave like the model either)")) if spec_fail else \
            "implementation agrees with the Spec on this input but not with the proved model"
        rep.violation("corr", {"prog": ser_prog(q), "sty": s2, "cb": to_cb(q, s2), "impl": ii, "mech": mm["mech"], "spec": mm["spec"],
                               "wf_prog": mm["wf"], "formerly_defective_shapes": mm["shapes"], "origin": o,
                               "impl_equals_machine_before_fixes": like_old,
                               "broken": "correspondence Mech model = interpreter cleanup stacks (carrier of every C06 theorem)"},
                      "interpreter and proved cleanup model disagree on `%s` (%s)" % (ser_prog(q), verdict),
                      no_failing_input=not spec_fail)

    # documented order: defers, destructors, then evaluation of the return operand (docs/spec.md:1634)
    rc, o, e = common.run_cb(impl, DOC6, env={"CB_VERIF_STACKS": "1"})
    got = [l for l in o.split("\n") if l]
    rep.coverage["doc6_return_operand_after_cleanup"] = got == DOC6_EXPECT
    if got != DOC6_EXPECT or "call-imbalance" in e:
        rep.violation("doc6", {"cb": DOC6, "stdout": got, "expected": DOC6_EXPECT, "rc": rc, "stderr": e[-300:]},
                      "return g(): documented order (docs/spec.md:1634: defers, destructors, then evaluation of the "
                      "return operand) not observed or stacks unbalanced: got %r" % got)

    # constructs outside the skeleton language: fixed text programs with the demanded transcript
    extra_ok = 0
    for name, cb, expected in EXTRA:
        r = run_text(impl, cb)
        if text_ok(r, expected):
            extra_ok += 1
        else:
            rep.violation("extra", {"name": name, "cb": PRELUDE + cb, "text": cb, "expected": expected, "impl": r},
                          "%s: expected transcript %r with balanced stacks, got %r imb=%r depths=%r rc=%r"
                          % (name, expected, r["out"], r["imb"], r["depths"], r["rc"]))
    rep.coverage["fixed_text_programs_ok"] = "%d/%d" % (extra_ok, len(EXTRA))

    # known findings: replay each stored input against the output the property demands
    for f in common.known_findings(PROP):
        rp = f["replay"]
        if "text" in rp:
            r = run_text(impl, rp["text"])
            holds = text_ok(r, rp["expected"]["out"])
            same = r["out"] == rp.get("observed", {}).get("out", r["out"])
        else:
            p = parse_prog(rp["prog"])
            i = run_impl(impl, p, int(rp.get("sty", 0)))
            holds = impl_matches_spec(i, {"cls": "ok", "out": rp["expected"]["out"]})
            same = i["out"] == rp.get("observed", {}).get("out", i["out"])
        if holds:
            rep.notes.append("known finding %s no longer reproduces (fixed?)" % f["id"])
        else:
            rep.known(f["id"], f["what_fails"])
            if not same:
                rep.notes.append("known finding %s reproduces with another transcript than recorded" % f["id"])
    rep.assumptions += [
        "the Mech model is tied to the C++ by differential testing (transcript + hook depths), not by proof",
        "object/defer identities are k + 100 * n (n = depth parameter), return operands are constants, if/loop bodies are braced, "
        "no struct parameters/copies, no yield",
        "skeletons are printed to Cb text by the Python printer (for/while, void/int, call statement/initialiser, R through a typedef alias chosen per case)",
        "Spec-level claims for generated programs rest on theorem cleanup_mech_refines_spec_partial only inside wf_prog; outside it the "
        "model reproduces the recorded name-collision finding and only model = implementation is checked",
    ]


def replay(path):
    data = json.load(open(path))
    c = data["case"]
    impl = None
    if "text" in c and "expected" in c:
        impl = common.build_impl("plain")
        r = run_text(impl, c["text"])
        print(PRELUDE + c["text"])
        print("impl:", r)
        print("expected:", c["expected"])
        ok = text_ok(r, c["expected"])
        print("as demanded:", ok)
        return 0 if ok else 1
    if "prog" not in c:
        if "cb" in c and "expected" in c:
            impl = common.build_impl("plain")
            rc, o, e = common.run_cb(impl, c["cb"], env={"CB_VERIF_STACKS": "1"})
            got = [l for l in o.split("\n") if l]
            print(c["cb"]); print("impl:", got); print("expected:", c["expected"])
            return 0 if got == c["expected"] and "call-imbalance" not in e else 1
        print(json.dumps(c, indent=1)[:4000])
        return 1
    common.ensure_model(PROP)
    impl = common.build_impl("plain")
    p = parse_prog(c["prog"])
    sty = int(c.get("sty", 0))
    m = run_models([p])[0]
    i = run_impl(impl, p, sty)
    print(to_cb(p, sty))
    print("impl:", i)
    print("mech:", m["mech"])
    print("spec:", m["spec"], " wf_prog:", m["wf"])
    ok = impl_matches_mech(i, m["mech"])
    print("agree with model:", ok, " agree with spec:", impl_matches_spec(i, m["spec"]))
    return 0 if ok else 1
