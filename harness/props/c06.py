"""C06 - destructors and defers run exactly once, LIFO, on every scope-exit path.

Theorems: coq/C06/Properties_C06.v (the Mech model of the two cleanup stacks - as repaired by the fix
commits 52ea7be, 605aa41, c388113 - refines the structural Spec for ALL skeleton programs; both stacks
restored by every statement and call; defers before destructors on every exit; at-most-once on every
prefix; the Spec is LIFO/exactly-once).
Tie: skeleton programs (objects, defers, blocks, if/else, loops with break/continue, calls, returns)
printed as Cb programs with tracing constructors/destructors/defers and run on the real `main`
(hook CB_VERIF_STACKS) vs the extracted Mech model: stdout transcript, every call-imbalance line and
the final stack depths must agree for every program; since Mech = Spec is proved, every program is
also a direct test of the property.
"""
import itertools
import json
import os
import random
import re

import common
from common import rng_for

PROP = "C06"
LEVEL = "proof"
META = {
    "category": "proof",
    "technique": "Coq refinement proof (two-stack cleanup machine = structural scope-exit semantics, all programs; "
                 "at-most-once invariant) + extracted-model differential run against the real interpreter",
    "text": "Machine-checked theorems about a function-by-function Gallina model of cleanup.cpp / statement_list_executor.cpp / "
            "control_flow_executor.cpp / return.cpp / call_impl.cpp (defer_stacks_, destructor_stacks_) over a skeleton language "
            "(objects, defers, blocks, if/else, loops with break/continue, calls, return): for ALL programs the machine emits exactly "
            "the structural cleanup order of the property (defers LIFO then destructors LIFO at every scope exit by any path, inner "
            "scopes first, a call's cleanup a function of the callee alone), restores both stacks after every statement and call, "
            "destroys/runs nothing more often than constructed/registered on any prefix; the structural Spec is well bracketed "
            "(exactly once, LIFO). The model is tied to the code on every run: exhaustive small skeletons and random deeper ones are "
            "printed as Cb programs and executed on the real binary; transcript, CB_VERIF_STACKS imbalance lines and final depths must "
            "equal the extracted model (= Spec) for every program.",
    "note": "Trusted: Coq kernel, no axioms (Print Assumptions: closed; coqchk in the thorough tier); extraction via "
            "ExtrOcamlBasic+ExtrOcamlString; the model is hand-written and tied by differential testing only; the Python printer of "
            "skeletons to Cb text; return operands are constants (the documented order `defers, destructors, then evaluation of the "
            "return operand` is checked by one fixed program); if/loop bodies are always braced; no recursion; yield/async not modelled. "
            "coq/C06/Pinned.v keeps the machine of the code before the fix commits (findings #11, #43, #44) for the record.",
}
PRELUDE = """struct R { int id; };
impl R {
    self(int k) { self.id = k; println("ctor", k); }
    ~self() { println("dtor", self.id); }
}
"""

# ------------------------------------------------------------------ skeletons
# stmt: ("o",k) ("d",k) ("m",k) ("B",[..]) ("I",c,[..],[..]) c in "T","F",int  ("L",n,[..]) ("c",f) ("r",) ("b",) ("k",)
# program: list of function bodies, function 0 = main


def ser_block(b):
    return " ".join(ser_stmt(s) for s in b)


def ser_stmt(s):
    t = s[0]
    if t in "odmc":
        return "%s%d" % (t, s[1])
    if t in "rbk":
        return t
    if t == "B":
        return "{ %s }" % ser_block(s[1])
    if t == "I":
        return "?%s { %s } { %s }" % (s[1], ser_block(s[2]), ser_block(s[3]))
    if t == "L":
        return "L%d { %s }" % (s[1], ser_block(s[2]))
    raise ValueError(s)


def ser_prog(p):
    return " | ".join(ser_block(b) for b in p)


def parse_prog(text):
    def items(toks, i, closing):
        out = []
        while i < len(toks):
            t = toks[i]
            if t == "}":
                if not closing:
                    raise ValueError("stray }")
                return out, i + 1
            if t == "{":
                b, i = items(toks, i + 1, True)
                out.append(("B", b))
            elif t[0] in "odmc":
                out.append((t[0], int(t[1:]))); i += 1
            elif t in "rbk":
                out.append((t,)); i += 1
            elif t[0] == "?":
                c = t[1:] if t[1:] in ("T", "F") else int(t[1:])
                assert toks[i + 1] == "{"
                b1, i = items(toks, i + 2, True)
                assert toks[i] == "{"
                b2, i = items(toks, i + 1, True)
                out.append(("I", c, b1, b2))
            elif t[0] == "L":
                assert toks[i + 1] == "{"
                b, i = items(toks, i + 2, True)
                out.append(("L", int(t[1:]), b))
            else:
                raise ValueError(t)
        if closing:
            raise ValueError("missing }")
        return out, i
    return [items(f.split(), 0, False)[0] for f in text.split("|")]


def to_cb(p, sty=0):
    """Print a skeleton program as Cb text. `sty` selects surface variations the model abstracts from:
    for/while loops, void/int functions, call as statement or as initialiser."""
    rs = random.Random(sty)
    site = [0]
    fn_int = [rs.random() < 0.5 if sty else False for _ in p]
    out = [PRELUDE]

    def cond(c, loopvar):
        if c == "T":
            return "1 == 1"
        if c == "F":
            return "1 == 0"
        if loopvar is None:
            return "0 == 1"
        return "%s == %d" % (loopvar, c)

    def block(b, ind, fi, loopvar):
        ls = []
        pad = "    " * ind
        for s in b:
            t = s[0]
            if t == "o":
                ls.append("%sR o%d(%d);" % (pad, s[1], s[1]))
            elif t == "d":
                ls.append('%sprintln("reg", %d);' % (pad, s[1]))
                ls.append('%sdefer println("defer", %d);' % (pad, s[1]))
            elif t == "m":
                ls.append('%sprintln("mark", %d);' % (pad, s[1]))
            elif t == "B":
                ls.append(pad + "{")
                ls += block(s[1], ind + 1, fi, loopvar)
                ls.append(pad + "}")
            elif t == "I":
                ls.append("%sif (%s) {" % (pad, cond(s[1], loopvar)))
                ls += block(s[2], ind + 1, fi, loopvar)
                if s[3]:
                    ls.append(pad + "} else {")
                    ls += block(s[3], ind + 1, fi, loopvar)
                ls.append(pad + "}")
            elif t == "L":
                site[0] += 1
                n = site[0]
                if sty and rs.random() < 0.5:
                    v = "w%d" % n
                    ls.append("%sint %s = 0;" % (pad, v))
                    ls.append("%swhile (%s < %d) {" % (pad, v, s[1]))
                    ls.append("%s    %s = %s + 1;" % (pad, v, v))
                    ls += block(s[2], ind + 1, fi, "%s - 1" % v)
                else:
                    v = "i%d" % n
                    ls.append("%sfor (int %s = 0; %s < %d; %s++) {" % (pad, v, v, s[1], v))
                    ls += block(s[2], ind + 1, fi, v)
                ls.append(pad + "}")
            elif t == "c":
                site[0] += 1
                g = s[1]
                if g < len(p) and fn_int[g] and rs.random() < 0.5:
                    ls.append("%sint x%d = f%d();" % (pad, site[0], g))
                else:
                    ls.append("%sf%d();" % (pad, g))
            elif t == "r":
                ls.append(pad + ("return 0;" if fn_int[fi] else "return;"))
            elif t == "b":
                ls.append(pad + "break;")
            elif t == "k":
                ls.append(pad + "continue;")
        return ls

    for fi in range(len(p) - 1, -1, -1):
        name = "main" if fi == 0 else "f%d" % fi
        out.append("%s %s() {" % ("int" if fn_int[fi] else "void", name))
        out += block(p[fi], 1, fi, None)
        out.append("}")
    return "\n".join(out) + "\n"


# ------------------------------------------------------------------ running both sides
_IMB = re.compile(r"CBV call-imbalance fn=f(\d+) defer=(\d+)->(\d+) dtor=(\d+)->(\d+) scopes=(\d+)->(\d+)")
_STK = re.compile(r"CBV stacks defer=(\d+) dtor=(\d+) scopes=(\d+)")


def run_impl(impl_dir, p, sty=0):
    """Canonical observation of the implementation: (ok, transcript lines, imbalance tuples, final depths)."""
    rc, o, e = common.run_cb(impl_dir, to_cb(p, sty), env={"CB_VERIF_STACKS": "1"}, timeout=10)
    if rc == 124:      # these programs run in milliseconds: a timeout is machine load, try again with room
        rc, o, e = common.run_cb(impl_dir, to_cb(p, sty), env={"CB_VERIF_STACKS": "1"}, timeout=120)
    imb = [tuple(int(x) for x in m.groups()) for m in _IMB.finditer(e)]
    m = _STK.search(e)
    depths = tuple(int(x) for x in m.groups()) if m else None
    lines = o.split("\n")
    if lines and lines[-1] == "":
        lines.pop()
    if rc == 0:
        cls = "ok"
    elif rc == 1:
        cls = "error"
    else:
        cls = "rc%d" % rc
    other = [l for l in e.split("\n") if l and not l.startswith("CBV ")]
    return {"cls": cls, "out": lines, "imb": imb, "depths": depths, "stderr": other[:3]}


def _obs(ok, d, t, sc, evtext):
    ev = [x for x in evtext.split(";") if x]
    return {"cls": "ok" if ok == "1" else "error",
            "out": [x for x in ev if not x.startswith("imb ")],
            "imb": [tuple(int(y) for y in x.split()[1:]) for x in ev if x.startswith("imb ")],
            "depths": (int(d), int(t), int(sc)) if ok == "1" else None}


def run_models(progs):
    """Extracted model on many programs: the Mech and Spec observations, the labels of the formerly
    defective shapes, and (diagnosis only) the machine of the code before the fix commits."""
    lines = common.run_model(PROP, "run", [ser_prog(p) for p in progs], timeout=1800)
    if len(lines) != len(progs):
        raise RuntimeError("model result count mismatch %d vs %d" % (len(lines), len(progs)))
    res = []
    for l in lines:
        f = l.split("\t")
        res.append({
            "fuel": f[0] == "FUEL" or f[5] == "FUEL",
            "mech": _obs(f[0], f[1], f[2], f[3], f[4]),
            "spec": {"cls": "ok" if f[5] == "1" else "error", "out": [x for x in f[6].split(";") if x]},
            "shapes": {"#11": f[7] == "1", "#43": f[8] == "1", "#44": f[9] == "1"},
            "pinned": _obs(f[10], f[11], f[12], f[13], f[14]),
        })
    return res


def impl_matches_mech(i, m):
    return (i["cls"] == m["cls"] and i["out"] == m["out"] and i["imb"] == m["imb"]
            and (m["cls"] != "ok" or i["depths"] == m["depths"]))


def impl_matches_spec(i, s):
    """The property's own reading: transcript = structural order, no call leaves the stacks unbalanced,
    both stacks back at their initial depth at the end."""
    if s["cls"] != "ok":
        return i["cls"] == "error" and i["out"] == s["out"]
    return i["cls"] == "ok" and i["out"] == s["out"] and not i["imb"] and i["depths"] == (0, 1, 1)


def conforming(m):
    """Does the Mech model itself meet the Spec on this program?"""
    return (m["mech"]["cls"] == m["spec"]["cls"] and m["mech"]["out"] == m["spec"]["out"]
            and not m["mech"]["imb"] and (m["mech"]["cls"] != "ok" or m["mech"]["depths"] == (0, 1, 1)))


# ------------------------------------------------------------------ generators
def enum_blocks(budget, depth, in_loop, can_call):
    """All statement lists with at most `budget` items and nesting depth <= depth; no dead code after an
    exit statement; ids are placeholders (renumbered later). Yields (block, items_used, has_call)."""
    yield [], 0, False
    if budget <= 0:
        return
    leaves = [("o", 0), ("d", 0)]
    if can_call:
        leaves.append(("c", 1))
    exits = [("r",)] + ([("b",), ("k",)] if in_loop else [])
    # first statement, then the rest
    for s in leaves:
        for rest, used, hc in enum_blocks(budget - 1, depth, in_loop, can_call):
            yield [s] + rest, used + 1, hc or s[0] == "c"
    for s in exits:
        yield [s], 1, False
    if depth > 0:
        for kind in ("B", "I", "L"):
            for inner, u1, hc1 in enum_blocks(budget - 1, depth - 1, in_loop or kind == "L", can_call):
                if not inner and kind != "B":
                    continue
                if kind == "B":
                    s = ("B", inner)
                elif kind == "I":
                    s = ("I", 1 if in_loop else "T", inner, [])
                else:
                    s = ("L", 2, inner)
                for rest, u2, hc2 in enum_blocks(budget - 1 - u1, depth, in_loop, can_call):
                    yield [s] + rest, 1 + u1 + u2, hc1 or hc2


def renumber(p):
    """Give every object/defer a unique id (also the variable name), add a mark after every container
    and call so that the time of each cleanup is observable."""
    ctr = [0]

    def blk(b):
        out = []
        for s in b:
            t = s[0]
            if t in "od":
                ctr[0] += 1
                out.append((t, ctr[0]))
            elif t == "B":
                out.append(("B", blk(s[1])))
            elif t == "I":
                out.append(("I", s[1], blk(s[2]), blk(s[3])))
            elif t == "L":
                out.append(("L", s[1], blk(s[2])))
            else:
                out.append(s)
            if t in "BILc":
                ctr[0] += 1
                out.append(("m", ctr[0]))
        return out
    return [blk(b) for b in p]


def exhaustive_programs(budget, depth):
    """main (may call f1) x f1 (no calls), total items <= budget."""
    for mb, used, hc in enum_blocks(budget, depth, False, True):
        if not hc:
            yield renumber([mb])
        else:
            for fb, u2, _ in enum_blocks(budget - used, depth - 1, False, False):
                yield renumber([mb, fb])


def random_program(rng, maxdepth=4, nfuncs=None, stress=False):
    """Random skeleton: up to 4 functions (function i calls only j > i), nesting to `maxdepth`.
    Nothing is avoided. stress=True raises the share of the shapes that used to be defective (scopes
    that own both objects and defers, returns after them, returns from inside loops)."""
    nf = nfuncs or rng.choice([1, 2, 2, 3, 3, 4])
    p_ret = 0.16 if stress else 0.10

    def blk(fi, depth, in_loop, top):
        out = []
        n = rng.choice([0, 1, 1, 2, 2, 3, 3, 4]) if not top else rng.choice([1, 2, 3, 3, 4, 5])
        if stress:
            n += 1
        for j in range(n):
            r = rng.random()
            if r < 0.34:
                out.append((rng.choice("od"), 0))
            elif r < 0.44 and fi + 1 < nf:
                out.append(("c", rng.randint(fi + 1, nf - 1)))
            elif r < 0.44 + p_ret and (j > 0 or not stress):
                out.append(("r",)); break
            elif r < 0.62 + (p_ret - 0.10) and in_loop:
                out.append((rng.choice("bk"),)); break
            elif depth > 0:
                k = rng.choice("BIIL" if not stress else "BIILL")
                if k == "B":
                    out.append(("B", blk(fi, depth - 1, in_loop, False)))
                elif k == "I":
                    c = rng.choice(["T", "T", "F"] + ([0, 1, 1, 2] if in_loop else []))
                    els = blk(fi, depth - 1, in_loop, False) if rng.random() < 0.4 else []
                    out.append(("I", c, blk(fi, depth - 1, in_loop, False), els))
                else:
                    out.append(("L", rng.choice([1, 2, 2, 3]), blk(fi, depth - 1, True, False)))
        return out
    bodies = [blk(fi, maxdepth - (1 if fi else 0), False, True) for fi in range(nf)]
    # every function is called from a lower one (top level, before any exit statement)
    for fi in range(1, nf):
        if not any(fi in _calls(b) for b in bodies[:fi]):
            host = bodies[rng.randint(0, fi - 1)]
            lim = next((j for j, s in enumerate(host) if s[0] in "rbk"), len(host))
            host.insert(rng.randint(0, lim), ("c", fi))
    return renumber(bodies)


# ------------------------------------------------------------------ shrinking
def _variants_block(b):
    """Smaller variants of a statement list: drop one statement, unwrap one container, shrink inside."""
    for i, s in enumerate(b):
        yield b[:i] + b[i + 1:]
        t = s[0]
        if t == "B":
            yield b[:i] + s[1] + b[i + 1:]
            for v in _variants_block(s[1]):
                yield b[:i] + [("B", v)] + b[i + 1:]
        elif t == "I":
            yield b[:i] + s[2] + b[i + 1:]
            if s[3]:
                yield b[:i] + [("I", s[1], s[2], [])] + b[i + 1:]
            if s[1] not in ("T", "F"):
                yield b[:i] + [("I", "T", s[2], s[3])] + b[i + 1:]
            for v in _variants_block(s[2]):
                yield b[:i] + [("I", s[1], v, s[3])] + b[i + 1:]
            for v in _variants_block(s[3]):
                yield b[:i] + [("I", s[1], s[2], v)] + b[i + 1:]
        elif t == "L":
            if s[1] > 1:
                yield b[:i] + [("L", s[1] - 1, s[2])] + b[i + 1:]
            for v in _variants_block(s[2]):
                yield b[:i] + [("L", s[1], v)] + b[i + 1:]


def _calls(b):
    out = set()
    for s in b:
        if s[0] == "c":
            out.add(s[1])
        elif s[0] == "B":
            out |= _calls(s[1])
        elif s[0] == "I":
            out |= _calls(s[2]) | _calls(s[3])
        elif s[0] == "L":
            out |= _calls(s[2])
    return out


def variants(p):
    for fi in range(len(p)):
        for v in _variants_block(p[fi]):
            yield p[:fi] + [v] + p[fi + 1:]
    # drop a trailing function nobody calls
    if len(p) > 1 and (len(p) - 1) not in set().union(*[_calls(b) for b in p]):
        yield p[:-1]


def size(p):
    return len(ser_prog(p).split())


def shrink(p, sty, impl_dir, bad, budget=400):
    """Greedy delta debugging on the skeleton, keeping `bad(p)` true."""
    cur = p
    steps = 0
    changed = True
    while changed and steps < budget:
        changed = False
        for v in variants(cur):
            steps += 1
            if steps >= budget:
                break
            if size(v) < size(cur) and bad(v):
                cur = v
                changed = True
                break
    if sty and bad_with(cur, 0, bad):
        return cur, 0
    return cur, sty


def bad_with(p, sty, bad):
    try:
        return bad(p, sty)
    except TypeError:
        return False


# ------------------------------------------------------------------ fixed extra programs
NONWF = ["o1 b", "o1 c1 m2 | b", "L2 { c1 m1 } m2 | d1 b", "L2 { o5 c1 m1 } m2 | o1 k", "o1 { d2 k } m3",
         "c1 m1 | { o1 b } m2"]

DOC6 = PRELUDE + """int g() { println("mark", 9); return 0; }
int f1() { R o1(1); println("reg", 2); defer println("defer", 2); return g(); }
void main() { f1(); println("mark", 10); }
"""
DOC6_EXPECT = ["ctor 1", "reg 2", "defer 2", "dtor 1", "mark 9", "mark 10"]


def load_cases(path):
    if not os.path.exists(path):
        return []
    return [(parse_prog(c["prog"]), int(c.get("sty", 0))) for c in json.load(open(path))]


# ------------------------------------------------------------------ main
def run(rep):
    seed, tier = rep.seed, rep.tier
    thorough = tier == "thorough"
    cq = common.coq_check_props(PROP)
    extra = ""
    if thorough and cq["ok"]:
        rc, o, e = common.sh(["coqchk", "-silent", "-o", "-Q", ".", "Cb", "Cb.C06.Properties_C06"], cwd=common.COQ, timeout=900)
        m = re.search(r"\* Axioms:\s*(.*?)\n\s*\n", o + e, re.S)
        rep.coverage["coqchk"] = {"rc": rc, "axioms": (m.group(1).strip() if m else "?")}
        extra = " + coqchk -o of the closure"
        if rc != 0:
            cq["ok"] = False
            cq["failed_theorem"] = "coqchk"
            cq["log"] += (o + e)[-1500:]
    common.proof_coverage(rep, cq, extra)
    if not cq["ok"]:
        rep.violation("proof", {"theorem": cq["failed_theorem"], "log": cq["log"][-3000:]},
                      "proof obligation %s no longer checks" % cq["failed_theorem"], True)
    common.ensure_model(PROP)
    impl = common.build_impl("plain")

    cases, origin = [], []
    for p, sty in load_cases(os.path.join(common.VERIF, "corpus", "c06.json")):
        cases.append((p, sty)); origin.append("corpus")
    # (1) exhaustive small skeletons: main (+ one callee), every exit kind at every position
    budget, depth = (5, 3) if thorough else (4, 3)
    n_exh = 0
    for k, p in enumerate(exhaustive_programs(budget, depth)):
        cases.append((p, 0 if k % 3 == 0 else 1 + (k * 7919 + seed) % 1000)); origin.append("exhaustive"); n_exh += 1
    # (2) random deeper skeletons; nothing is avoided, half of them stress the formerly defective shapes
    n_rand = 150000 if thorough else 3000
    for k in range(n_rand):
        rng = rng_for(seed, "c06-rand", k)
        stress = k % 2 == 0
        cases.append((random_program(rng, rng.choice([3, 4, 4]), stress=stress), rng.randint(1, 10 ** 6)))
        origin.append("random-stress" if stress else "random")
    # (3) break/continue escaping a function (run-time error or caught by a caller's loop)
    for t in NONWF:
        cases.append((parse_prog(t), 0)); origin.append("escaping-break")

    models = run_models([p for p, _ in cases])
    impls = common.pmap(lambda c: run_impl(impl, c[0], c[1]), cases)

    hist, shape_hist = {}, {}
    n_fuel = 0
    distinct = set()
    nontrivial = 0
    n_old_defect = 0
    bad, inconsistent = [], []
    for (p, sty), o, m, i in zip(cases, origin, models, impls):
        hist[o] = hist.get(o, 0) + 1
        key = ser_prog(p)
        first = key not in distinct
        distinct.add(key)
        if m["fuel"]:
            n_fuel += 1
            continue
        if first and any(not x.startswith("mark") for x in m["mech"]["out"]):
            nontrivial += 1
        lab = "+".join(k for k, v in sorted(m["shapes"].items()) if v) or "none"
        shape_hist[lab] = shape_hist.get(lab, 0) + 1
        if m["pinned"] != m["mech"]:
            n_old_defect += 1
        if not conforming(m):          # contradicts theorem cleanup_mech_refines_spec: extraction/driver trouble
            inconsistent.append((p, sty, m))
        if not impl_matches_mech(i, m["mech"]):
            bad.append((p, sty, o, m, i))

    rep.coverage.update({
        "evaluations": len(cases), "distinct_nontrivial": nontrivial,
        "rule": "real interpreter (main, hook CB_VERIF_STACKS) vs extracted Coq Mech model (= Spec, theorem cleanup_mech_refines_spec) on the "
                "same skeleton program: stdout transcript, every CBV call-imbalance line and the final CBV stacks depths must be equal; "
                "distinct = distinct skeletons; non-trivial = the transcript contains at least one constructor/destructor/defer event",
        "exhaustive": True,
        "exhaustive_space": "all programs main(+one callee) with <= %d statements, nesting <= %d over {object, defer, call, return, break, continue, "
                            "block, if, loop(2)} without dead code (%d programs)" % (budget, depth, n_exh),
        "input_distribution": hist,
        "programs_by_formerly_defective_shape": shape_hist,
        "programs_on_which_the_code_before_the_fixes_misbehaved": n_old_defect,
        "avoided_known_findings": 0,
        "fuel_exhausted": n_fuel,
        "samples": [{"prog": ser_prog(cases[j][0]), "sty": cases[j][1], "impl": impls[j], "spec_out": models[j]["spec"]["out"]}
                    for j in (min(len(cases) - 1, n_exh // 2), len(cases) - len(NONWF) - 7)],
    })
    for p, sty, m in inconsistent[:3]:
        rep.violation("model-consistency", {"prog": ser_prog(p), "sty": sty, "model": m},
                      "extracted model contradicts theorem cleanup_mech_refines_spec on %s" % ser_prog(p), True)

    def kind(i, sp):
        if sp["cls"] != i["cls"] or sp["out"] != i["out"]:
            return "transcript"
        if sp["cls"] == "ok" and (i["imb"] or i["depths"] != (0, 1, 1)):
            return "stacks"
        return None

    def rank(b):
        p, sty, o, m, i = b
        return ({"transcript": 0, "stacks": 1, None: 2}[kind(i, m["spec"])], size(p))
    bad.sort(key=rank)
    rep.coverage["disagreements"] = len(bad)
    reported = set()
    for p, sty, o, m, i in bad[:4]:
        want = kind(i, m["spec"])

        def still_bad(q, s=sty):
            mm = run_models([q])[0]
            if mm["fuel"]:
                return False
            ii = run_impl(impl, q, s)
            if impl_matches_mech(ii, mm["mech"]):
                return False
            return kind(ii, mm["spec"]) == want
        q, s2 = shrink(p, sty, impl, still_bad)
        mm = run_models([q])[0]
        ii = run_impl(impl, q, s2)
        if impl_matches_mech(ii, mm["mech"]):        # style-dependent: keep the original style
            s2 = sty
            ii = run_impl(impl, q, s2)
        if (ser_prog(q), kind(ii, mm["spec"])) in reported:
            continue
        reported.add((ser_prog(q), kind(ii, mm["spec"])))
        spec_fail = kind(ii, mm["spec"]) is not None
        like_old = impl_matches_mech(ii, mm["pinned"])
        verdict = ("implementation violates the structural cleanup order: expected %r with balanced stacks, got %r imb=%r depths=%r%s"
                   % (mm["spec"]["out"], ii["out"], ii["imb"], ii["depths"],
                      " - exactly the behaviour of the code before the fix commits (a repair was reverted?)" if like_old else "")) if spec_fail else \
            "implementation agrees with the Spec on this input but not with the proved model"
        rep.violation("corr", {"prog": ser_prog(q), "sty": s2, "cb": to_cb(q, s2), "impl": ii, "mech": mm["mech"], "spec": mm["spec"],
                               "formerly_defective_shapes": mm["shapes"], "origin": o,
                               "impl_equals_machine_before_fixes": like_old,
                               "broken": "correspondence Mech model = interpreter cleanup stacks (carrier of every C06 theorem)"},
                      "interpreter and proved cleanup model disagree on `%s` (%s)" % (ser_prog(q), verdict),
                      no_failing_input=not spec_fail)

    # documented order: defers, destructors, then evaluation of the return operand (docs/spec.md:1634)
    rc, o, e = common.run_cb(impl, DOC6, env={"CB_VERIF_STACKS": "1"})
    got = [l for l in o.split("\n") if l]
    rep.coverage["doc6_return_operand_after_cleanup"] = got == DOC6_EXPECT
    if got != DOC6_EXPECT or "call-imbalance" in e:
        rep.violation("doc6", {"cb": DOC6, "stdout": got, "expected": DOC6_EXPECT, "rc": rc, "stderr": e[-300:]},
                      "return g(): documented order (docs/spec.md:1634: defers, destructors, then evaluation of the "
                      "return operand) not observed or stacks unbalanced: got %r" % got)

    # known findings still open (none at the moment): replay each stored input against the Spec
    for f in common.known_findings(PROP):
        p = parse_prog(f["replay"]["prog"])
        sty = int(f["replay"].get("sty", 0))
        m = run_models([p])[0]
        i = run_impl(impl, p, sty)
        if not impl_matches_spec(i, {"cls": "ok", "out": f["replay"]["expected"]["out"]}):
            rep.known(f["id"], f["what_fails"])
        else:
            rep.notes.append("known finding %s no longer reproduces (fixed?)" % f["id"])
    rep.assumptions += [
        "the Mech model is tied to the C++ by differential testing (transcript + hook depths), not by proof",
        "objects and defers have constant ids, return operands are constants, if/loop bodies are braced, no recursion, no yield",
        "skeletons are printed to Cb text by the Python printer (for/while, void/int, call statement/initialiser chosen per case)",
    ]


def replay(path):
    data = json.load(open(path))
    c = data["case"]
    if "prog" not in c:
        print(json.dumps(c, indent=1)[:4000])
        return 1
    common.ensure_model(PROP)
    impl = common.build_impl("plain")
    p = parse_prog(c["prog"])
    sty = int(c.get("sty", 0))
    m = run_models([p])[0]
    i = run_impl(impl, p, sty)
    print(to_cb(p, sty))
    print("impl:", i)
    print("mech:", m["mech"])
    print("spec:", m["spec"])
    ok = impl_matches_mech(i, m["mech"])
    print("agree with model:", ok, " agree with spec:", impl_matches_spec(i, m["spec"]))
    return 0 if ok else 1
