"""C10 - no input crashes or hangs the front end or causes invalid memory access (partial).

Two halves (DESIGN.md section 5, C10):
 (a) theorems (coq/C10/Properties_C10.v) about the MODELS of the three front-end stages: lexer
     (Lexer.v: every byte string, <= |input|+1 activations, every activation consumes a byte),
     expression ladder (ExprParse.v: recursion depth 14*(|tokens|+1) is always enough, every
     successful parse consumes a token), preprocessor (coq/C17/Model.v: find loop / replacement
     loop fuel is sufficient for a non-empty macro name; #define never creates an empty name);
     the models are tied to /repo on every run: extracted lexer vs the repository's
     recursive_lexer.cpp (leaf driver, token for token), directive-only files and
     println(<expr>); programs: model verdict vs exit status of `main`.
 (b) what no theorem can give (memory safety / UB / termination of the compiled C++): the
     ASan+UBSan build of the CURRENT tree, CB_VERIF_PARSE_ONLY=1, on every repository .cb file,
     token-level mutations (delete/duplicate/swap/insert, truncation at token boundaries), nesting
     amplification to depth 2000, raw bytes <= 8 KiB, token soup; generated CbCore programs are
     executed fully.  Oracle: exit 0 or 1, no signal, no sanitizer report, no time-out, a
     diagnostic on stderr when the status is 1, CPU time <= c*n (c fitted on the unmodified files).
"""
import hashlib
import json
import os
import re
import shutil
import subprocess
import tempfile
import threading
import time

import common
from common import rng_for

PROP = "C10"
LEVEL = "proof"
META = {
    "category": "proof",
    "technique": "Coq totality/termination-measure proofs about models of lexer, expression ladder and preprocessor loops + "
                 "extracted-model differential runs (lexer token for token, front-end verdicts) + ASan/UBSan robustness campaign on the real binary",
    "text": "Machine-checked theorems about hand-written Gallina models of RecursiveLexer (every byte string lexes to a token list ending in "
            "EOF/ERROR within |input|+1 activations, each consuming >= 1 byte), of the expression ladder parseAssignment..parsePrimary (recursion depth "
            "14*(|tokens|+1) never runs out, every successful parse consumes a token, the lexer+ladder verdict function is total) and of the "
            "preprocessor loops of coq/C17/Model.v (search/sweep fuel sufficient for non-empty macro names; #define never yields an empty name). "
            "Refuted on the faithful models: linear look-ahead (#38), termination of the find loop for an empty macro name (-D=5). "
            "The models are tied to /repo on every run (extracted lexer vs recursive_lexer.cpp token for token; model verdict vs exit status for "
            "directive-only files and println(<expr>); programs). Memory safety, absence of UB and termination of the C++ itself are TESTED, not proved: "
            "ASan+UBSan build, parse-only mode, on all repository .cb files, token mutations, truncations, nesting amplification to depth 2000, raw "
            "bytes, token soup, plus full execution of generated CbCore programs.",
    "note": "PARTIAL by design: no C++ semantics in Coq, so the sanitizer half is a test campaign labelled as such; statement/declaration parsers are "
            "not modelled. Trusted: Coq kernel (vm_compute for one finite sweep), no axioms (Print Assumptions: closed for all 15 theorems), extraction "
            "(ExtrOcamlBasic+ExtrOcamlString), OCaml driver, leaf driver c10_lexdump.cpp, Python oracle, GCC sanitizers. Depends on coq/C17/Model.v "
            "(preprocessor model) and coq/C17/Expand.v (two soundness lemmas).",
}

MEM_LIMIT_MB = 6144        # per run: plain build RLIMIT_AS, sanitised build hard_rss_limit_mb (ASan needs a huge address space)
SAN_ENV = {"ASAN_OPTIONS": "exitcode=97:detect_leaks=0:allocator_may_return_null=1:hard_rss_limit_mb=%d" % MEM_LIMIT_MB,
           "UBSAN_OPTIONS": "exitcode=96:print_stacktrace=0"}
MAX_BYTES = 8192
SAFE_DEPTH = 300          # nesting that must work on the default 8 MiB stack (ASan frames are ~3x larger)
BIG_STACK = 1 << 30       # deep-nesting stream: stack-size limit raised so that only non-stack failures show


# ------------------------------------------------------------------ running the implementation
def run_case(impl_dir, data, mode="parse", args=(), big_stack=False, cpu=10, wall=60):
    """One run of `main` on the byte string `data`. Returns rc (negative = signal), CPU seconds, stdout/stderr."""
    d = tempfile.mkdtemp(prefix="c10run-", dir=common.SCRATCH_ROOT)
    try:
        try:
            os.utime(impl_dir, None)      # keep the cached build "recent": other checks prune .cache/impl by mtime during long runs
        except OSError:
            pass
        p = os.path.join(d, "t.cb")
        with open(p, "wb") as fh:
            fh.write(data)
        env = dict(os.environ)
        env.update(SAN_ENV)
        if mode == "parse":
            env["CB_VERIF_PARSE_ONLY"] = "1"
        # CPU limit (hang -> SIGXCPU) and output-size limit (an endless diagnostic loop must not fill the disk -> SIGXFSZ)
        cmd = ["prlimit", "--cpu=%d" % cpu, "--fsize=%d" % (32 << 20)]
        if big_stack:
            cmd.append("--stack=%d" % BIG_STACK)
        if not impl_dir.rstrip("/").endswith("asan"):
            cmd.append("--as=%d" % (MEM_LIMIT_MB << 20))
        cmd += [os.path.join(impl_dir, "main"), p] + list(args)
        fo = open(os.path.join(d, "out"), "wb")
        fe = open(os.path.join(d, "err"), "wb")
        t0 = time.time()
        pr = subprocess.Popen(cmd, cwd=impl_dir, env=env, stdout=fo, stderr=fe, stdin=subprocess.DEVNULL)
        killed = [False]

        def kill():
            killed[0] = True
            try:
                pr.kill()
            except Exception:
                pass
        tm = threading.Timer(wall, kill)
        tm.start()
        _, status, ru = os.wait4(pr.pid, 0)
        tm.cancel()
        pr.returncode = 0
        fo.close()
        fe.close()
        rc = -os.WTERMSIG(status) if os.WIFSIGNALED(status) else os.WEXITSTATUS(status)
        with open(os.path.join(d, "out"), "rb") as fh:
            out = fh.read(65536).decode("utf-8", "replace")
        with open(os.path.join(d, "err"), "rb") as fh:
            err = fh.read(200000).decode("utf-8", "replace")
        return {"rc": rc, "cpu": ru.ru_utime + ru.ru_stime, "wall": time.time() - t0, "out": out, "err": err,
                "killed": killed[0]}
    finally:
        shutil.rmtree(d, ignore_errors=True)


_UB = re.compile(r"^(\S+?):(\d+):(\d+): runtime error: (.*)$", re.M)
_AS = re.compile(r"ERROR: AddressSanitizer: (\S+)")
_FR = re.compile(r"#\d+ 0x[0-9a-f]+ in (\S+).*? (src/\S+?):(\d+)")


def signature(r, bound=None):
    """None if the run satisfies the oracle, else a canonical failure signature
    (crash kind | place), free of addresses, line numbers and values."""
    err = r["err"]
    m = _UB.search(err)
    if m:
        msg = re.sub(r"0x[0-9a-f]+|-?\d+", "N", m.group(4))
        return "ubsan|%s|%s" % (os.path.basename(m.group(1)), msg)
    m = _AS.search(err)
    if m:
        f = _FR.search(err)
        return "asan|%s|%s" % (m.group(1), (f.group(1).split("(")[0] + "@" + os.path.basename(f.group(2))) if f else "?")
    if r["killed"] or r["rc"] in (-24, -9):
        return "timeout"
    if r["rc"] == -25:
        return "endless-output"
    if r["rc"] < 0:
        return "signal|%d" % -r["rc"]
    if r["rc"] not in (0, 1):
        return "exit|%d" % r["rc"]
    if r["rc"] == 1 and not err.strip():
        return "exit-1-without-diagnostic"
    if bound is not None and r["cpu"] > bound:
        return "slow"
    return None


def match_known(sig, findings, stream_only=True):
    for f in findings:
        rx = f.get("signature", {}).get("kind")
        if rx and re.search(rx, sig) and (f.get("stream") or not stream_only):
            return f
    return None


# ------------------------------------------------------------------ token-level view of a source file
TOKRE = re.compile(rb'''//[^\n]*|/\*.*?\*/|"[^"\n]*"|'(?:\\.|[^'\\\n])'|[A-Za-z_][A-Za-z_0-9]*|[0-9][0-9A-Za-z_.]*'''
                   rb'''|<<=|>>=|\.\.\.|\+\+|--|->|=>|::|&&|\|\||[-+*/%&|^<>=!]=|<<|>>|\s+|.''', re.S)


def tokenize(data):
    return TOKRE.findall(data)


MUT_KINDS = ["del", "dup", "swap", "trunc", "del2", "swapfar", "insert"]


def mutate(rng, toks):
    idx = [i for i, t in enumerate(toks) if not t.isspace()]
    if len(idx) < 3:
        return None, None
    t = list(toks)
    kind = rng.choice(MUT_KINDS)
    i = rng.choice(idx)
    if kind == "del":
        del t[i]
    elif kind == "del2":
        j = rng.choice(idx)
        for k in sorted({i, j}, reverse=True):
            del t[k]
    elif kind == "dup":
        t.insert(i, t[i])
    elif kind == "swap":
        k = idx.index(i)
        j = idx[min(k + 1, len(idx) - 1)]
        t[i], t[j] = t[j], t[i]
    elif kind == "swapfar":
        j = rng.choice(idx)
        t[i], t[j] = t[j], t[i]
    elif kind == "insert":
        j = rng.choice(idx)
        t.insert(i, t[j])
    else:
        t = t[:i]
    return kind, b"".join(t)


_DEFINE = re.compile(rb"^[ \t]*#[ \t]*define[ \t]+([A-Za-z_][A-Za-z_0-9]*)[ \t]+(.*)$", re.M)


def trips_selfref_macro(data):
    """avoid C10-selfref-macro-exponential: an object-like macro whose body mentions a macro name that (transitively)
    leads back to itself together with other text (growth). Conservative: any macro reachable from its own body."""
    defs = {}
    for m in _DEFINE.finditer(data):
        defs[m.group(1)] = set(re.findall(rb"[A-Za-z_][A-Za-z_0-9]*", m.group(2)))
    for n in defs:
        seen, todo = set(), list(defs[n])
        while todo:
            x = todo.pop()
            if x == n:
                return True
            if x in defs and x not in seen:
                seen.add(x)
                todo += list(defs[x])
    return False


LEXEMES = ["main", "if", "else", "for", "while", "break", "continue", "return", "int", "long", "short", "tiny", "void", "string", "char",
           "bool", "float", "double", "big", "quad", "true", "false", "print", "println", "printf", "typedef", "const", "static",
           "private", "struct", "enum", "interface", "impl", "self", "new", "delete", "nullptr", "null", "unsigned", "assert", "defer",
           "yield", "default", "switch", "case", "match", "func", "import", "export", "async", "await", "try", "checked", "panic",
           "unwrap", "foreign", "use", "x", "y", "f", "T", "S", "Option", "Result", "Some", "None", "Ok", "Err", "a", "b", "_", "sizeof",
           "0", "1", "42", "3.14", "1e5", "'c'", "'\\n'", '"s"', '"a{x}b"', '""',
           "+", "-", "*", "/", "%", "==", "!=", "<", "<=", ">", ">=", "&&", "||", "!", "++", "--", "=", "+=", "-=", "*=", "/=", "%=", "&=",
           "|=", "^=", "<<=", ">>=", "&", "|", "^", "~", "<<", ">>", "?", ":", ";", ",", "(", ")", "{", "}", "[", "]", ".", "->", "::",
           "=>", "...", "#", "@", "$", "\\", "`"]
SKELETONS = ["void main() { %s }", "int f(%s) { return 0; }", "struct S { %s };", "enum E { %s };", "interface I { %s };",
             "impl I for S { %s };", "void main() { println(%s); }", "void main() { int x = %s; }", "typedef %s;", "%s",
             "void main() { match (x) { %s } }", "void main() { switch (x) { %s } }", "void main() { for (%s) { } }",
             "T f<T>(%s) { }", "struct S<T> { %s };", "void main() { if (%s) { } else { } }", "import %s;", "export %s",
             "foreign.m { %s }", "use foreign.m { %s }", "async int f() { %s }", "void main() { S s = {%s}; }", "union U = %s;",
             "void main() { int[%s] a; }", "void main() { x = func int(int a) { %s }; }", "void main() { defer %s; }",
             "void main() { println(\"{%s}\"); }"]


def soup(rng):
    r = rng.random()
    if r < 0.25:
        return "soup", " ".join(rng.choice(LEXEMES) for _ in range(rng.randint(1, 300))).encode()[:MAX_BYTES]
    if r < 0.8:
        body = " ".join(rng.choice(LEXEMES) for _ in range(rng.randint(1, 40)))
        return "skeleton-soup", (rng.choice(SKELETONS) % body).encode()
    if r < 0.9:
        return "bytes", bytes(rng.randrange(256) for _ in range(rng.randint(0, rng.choice([16, 200, 2000, MAX_BYTES]))))
    return "ascii", bytes(rng.choice(b"\n\t (){}[];,.<>=+-*/%&|^!~?:#\"'\\abcxyzAZ_0129")
                          for _ in range(rng.randint(0, rng.choice([16, 200, 2000, MAX_BYTES]))))


# ------------------------------------------------------------------ nesting amplification
def amp(kind, d):
    def W(body):
        return ("void main() {\n int x = 1; int[3] a = [1,2,3];\n %s\n}\n" % body).encode()
    table = {
        "paren": lambda: W("println(" + "(" * d + "1" + ")" * d + ");"),
        "unary-minus": lambda: W("println(" + "-(" * d + "1" + ")" * d + ");"),
        "not": lambda: W("println(" + "!" * d + "x);"),
        "tilde": lambda: W("println(" + "~" * d + "x);"),
        "deref": lambda: W("println(" + "*" * d + "x);"),
        "block": lambda: W("{" * d + " x = 2; " + "}" * d),
        "if": lambda: W("if (x) { " * d + "x = 2;" + " }" * d),
        "while": lambda: W("while (x) { " * d + "x = 0;" + " }" * d),
        "else-if": lambda: W("if (x == 0) { x = 1; }" + " else if (x == 0) { x = 1; }" * d),
        "ternary-right": lambda: W("x = " + "x ? 1 : " * d + "0;"),
        "ternary-mid": lambda: W("x = " + "x ? " * d + "1" + " : 0" * d + ";"),
        "qmarks": lambda: W("x = x" + "?" * d + ";"),
        "binary-right": lambda: W("x = " + "1 + (" * d + "1" + ")" * d + ";"),
        "binary-flat": lambda: W("x = 1" + " + 1" * d + ";"),
        "call": lambda: ("int f(int v) { return v; }\nvoid main() { println(" + "f(" * d + "1" + ")" * d + "); }\n").encode(),
        "index": lambda: W("println(a" + "[0" * d + "]" * d + ");"),
        "index-chain": lambda: W("println(a" + "[0]" * d + ");"),
        "member-chain": lambda: W("println(x" + ".m" * d + ");"),
        "arrow-chain": lambda: W("println(x" + "->m" * d + ");"),
        "array-lit": lambda: W("int[1] b = " + "[" * d + "1" + "]" * d + ";"),
        "generic-type": lambda: ("struct Box<T> { T v; };\nvoid main() { " + "Box<" * d + "int" + ">" * d + " b; }\n").encode(),
        "generic-call": lambda: W("println(f" + "<Box" * d + ">" * d + "(1));"),
        "lt-chain": lambda: W("x = x" + " < x" * d + ";"),
        "pointer-type": lambda: W("int" + "*" * d + " p;"),
        "array-type": lambda: W("int" + "[2]" * d + " q;"),
        "comments": lambda: W("/* c */ " * d + "x = 1;"),
        "line-comments": lambda: W("// c\n" * d + "x = 1;"),
        "open-paren": lambda: W("println(" + "(" * d),
        "open-brace": lambda: W("{" * d),
        "open-bracket": lambda: W("x = " + "[" * d),
        "interp": lambda: W('println("' + "{x}" * d + '");'),
        "interp-nest": lambda: W('println("' + "{" * d + "x" + "}" * d + '");'),
        "string-long": lambda: W('println("' + "a" * d + '");'),
        "ident-long": lambda: W("int " + "a" * d + " = 1;"),
        "number-long": lambda: W("x = " + "9" * d + ";"),
        "cast": lambda: W("x = " + "(int)" * d + "x;"),
        "lambda": lambda: W("x = " + "func int(int v) { return " * d + "v" + "; }" * d + ";"),
        "struct-lit": lambda: ("struct S { int v; };\nvoid main() { S s = " + "{v: " * d + "1" + "}" * d + "; }\n").encode(),
        "match": lambda: W("match (x) { " * d + "_ => { x = 1; }" + " }" * d),
        "switch": lambda: W("switch (x) { case (1) { " * d + "x = 1;" + " } }" * d),
        "defines": lambda: ("#define A0 1\n" + "".join("#define A%d A%d\n" % (i + 1, i) for i in range(d))
                            + "void main() { println(A%d); }\n" % d).encode(),
        "ifdefs": lambda: ("#ifdef X\n" * d + "#endif\n" * d + "void main() { }\n").encode(),
    }
    return table[kind]()


AMP_KINDS = ["paren", "unary-minus", "not", "tilde", "deref", "block", "if", "while", "else-if", "ternary-right", "ternary-mid",
             "qmarks", "binary-right", "binary-flat", "call", "index", "index-chain", "member-chain", "arrow-chain", "array-lit",
             "generic-type", "generic-call", "lt-chain", "pointer-type", "array-type", "comments", "line-comments", "open-paren",
             "open-brace", "open-bracket", "interp", "interp-nest", "string-long", "ident-long", "number-long", "cast", "lambda",
             "struct-lit", "match", "switch", "defines", "ifdefs"]


# ------------------------------------------------------------------ lexer correspondence (leaf driver vs extracted model)
def token_enum():
    """TokenType names by numeric value, from the CURRENT recursive_lexer.h."""
    txt = open(os.path.join(common.REPO, "src/frontend/recursive_parser/recursive_lexer.h")).read()
    body = re.search(r"enum\s+class\s+TokenType\s*\{(.*?)\};", txt, re.S).group(1)
    body = re.sub(r"//[^\n]*", "", body)
    names, val, byname = {}, 0, {}
    for ent in body.split(","):
        ent = ent.strip()
        if not ent:
            continue
        if "=" in ent:
            n, v = [x.strip() for x in ent.split("=")]
            v = byname[v] if v in byname else int(v, 0)
            byname[n] = v
            names.setdefault(v, n)
            val = v + 1
        else:
            byname[ent] = val
            names.setdefault(val, ent)
            val += 1
    return names


def _blocks(text):
    res, cur = [], []
    for l in text.split("\n"):
        if l == "END":
            res.append(cur)
            cur = []
        elif l:
            cur.append(l)
    return res


def lex_both(inputs, leaf, names):
    """-> list of (model_tokens, impl_tokens); tokens are 'NAME hexvalue' strings (impl: 'LOOP' / 'HANG' markers)."""
    data = ("\n".join(x.hex() for x in inputs) + "\n").encode()
    rc, mo, me = common.sh([common.model_bin(PROP), "lex"], input=data, timeout=900)
    if rc != 0:
        raise RuntimeError("c10_model lex failed rc=%d: %s" % (rc, me[-400:]))
    mb = [[l[2:] for l in b if l.startswith("T ")] for b in _blocks(mo)]
    rc, io, ie = common.sh([leaf], input=data, timeout=300)
    ib = _blocks(io)
    if rc != 0 or len(ib) != len(inputs):
        # the repository lexer hangs or crashes on some input: isolate it case by case
        ib = []
        for x in inputs:
            rc1, o1, e1 = common.sh([leaf, "one"], input=(x.hex() + "\n").encode(), timeout=10)
            b = _blocks(o1)
            ib.append(b[0] if (rc1 == 0 and b) else ["HANG rc=%d" % rc1])
    out = []
    for m, i in zip(mb, ib):
        conv = []
        for l in i:
            if l.startswith("T "):
                p = l.split(" ")
                conv.append("%s %s" % (names.get(int(p[1]), "TOK#" + p[1]), p[2] if len(p) > 2 else ""))
            else:
                conv.append(l)
        out.append(([x if " " in x else x + " " for x in m], conv))
    if len(mb) != len(inputs):
        raise RuntimeError("c10_model lex returned %d blocks for %d inputs" % (len(mb), len(inputs)))
    return out


LEX_ALPHA = [b"a", b"_", b"9", b"0", b".", b"e", b"E", b"+", b"-", b"f", b"q", b'"', b"'", b"\\", b"{", b"}", b"/", b"*", b"\n",
             b" ", b"<", b">", b"=", b"&", b"|", b":", b"!", b"^", b"%", b"~", b"?", b";", b"\x00", b"\xff", b"n", b"(", b"#", b"@"]


def lexer_inputs(seed, tier, files):
    """strings aimed at the case splits of nextToken / makeNumber / makeString / makeChar / comments"""
    ins, origin = [], []
    for a in LEX_ALPHA:                                   # exhaustive: all strings of length <= 2 over 38 bytes
        ins.append(a); origin.append("exh1")
        for b in LEX_ALPHA:
            ins.append(a + b); origin.append("exh2")
    small = [b"9", b".", b"e", b"+", b"f", b"a", b'"', b"'", b"\\", b"{", b"/", b"*", b"\n", b"<", b"=", b">"]
    for a in small:                                       # exhaustive: length 3 (and 4 in the thorough tier) over 16 bytes
        for b in small:
            for c in small:
                ins.append(a + b + c); origin.append("exh3")
                if tier != "quick":
                    for d in small:
                        ins.append(a + b + c + d); origin.append("exh4")
    n = 1000 if tier == "quick" else 20000
    pieces = [b"12", b"3.5", b"1e5", b"1e+", b"2E-3f", b"7.", b".5", b"0x1F", b"abc", b"_x1", b"_", b"main", b"println", b"Result",
              b'"s"', b'"a{x}b"', b'"{{x"', b'"\\"{x}"', b'"unterminated', b"'c'", b"'\\n'", b"'\\q'", b"'ab'", b"''", b"'",
              b"// c\n", b"// c", b"/* c */", b"/* u", b"/*/", b"*/", b"<<=", b">>=", b"...", b"..", b"->", b"=>", b"::", b"&&", b"||",
              b"++", b"--", b"+=", b"!=", b"==", b"<=", b">=", b" ", b"\n", b"\t", b"\r", b"\x00", b"\xe3\x81\x82", b"@", b"#", b"$", b"`", b"\\"]
    for k in range(n):
        rng = rng_for(seed, "c10-lex", k)
        r = rng.random()
        if r < 0.6:
            s = b"".join(rng.choice(pieces) for _ in range(rng.randint(1, 12)))
        elif r < 0.8:
            s = bytes(rng.randrange(256) for _ in range(rng.randint(0, 64)))
        else:
            f = rng.choice(files)
            d = open(f, "rb").read()
            o = rng.randrange(max(1, len(d)))
            s = d[o:o + rng.randint(1, 300)]
        ins.append(s); origin.append("random")
    return ins, origin


# ------------------------------------------------------------------ front-end verdicts: model vs main
NAMES = ["A", "B", "C", "DEBUG"]


def directive_file(rng):
    """directive-only file (text lines are comments / blank) + -D arguments; bodies are single tokens (no growth)"""
    lines, depth = [], 0
    for _ in range(rng.randint(1, 14)):
        r = rng.random()
        nm = rng.choice(NAMES)
        if r < 0.22:
            lines.append(rng.choice(["#ifdef ", "#ifndef "]) + nm); depth += 1
        elif r < 0.32 and (depth > 0 or rng.random() < 0.15):
            lines.append(rng.choice(["#elif ", "#elseif "]) + nm)
        elif r < 0.42 and (depth > 0 or rng.random() < 0.15):
            lines.append("#else")
        elif r < 0.58 and (depth > 0 or rng.random() < 0.15):
            lines.append("#endif"); depth = max(0, depth - 1)
        elif r < 0.72:
            lines.append("#define %s%s" % (nm, rng.choice(["", " 1", " %d" % rng.randint(0, 99), " " + rng.choice(NAMES), ' "s"'])))
        elif r < 0.78:
            lines.append("#undef " + nm)
        elif r < 0.84:
            lines.append(rng.choice(["#foo", "#", "#ifdef", "#define", "#undef", "#error boom", "#warning w", "#include <x>",
                                     "  #  ifdef   A  ", "#define F(x) x", "#define G(x", "#pragma once", "#define (x) 1", "#else junk"]))
        else:
            lines.append(rng.choice(["", "// t %s %s" % (rng.choice(NAMES), rng.choice(NAMES)), "   ", "// __LINE__ __FILE__"]))
    if rng.random() < 0.8:
        lines += ["#endif"] * depth
    args = []
    for nm in NAMES:
        if rng.random() < 0.25:
            args.append(nm + rng.choice(["", "=1", "=%s" % rng.choice(NAMES), "="]))
    text = "\n".join(lines) + rng.choice(["\n", "", "\n\n"])
    return text, args


E_IDS = ["a", "b", "c", "f", "g", "x"]
E_BIN = ["||", "&&", "|", "^", "&", "==", "!=", "<", "<=", ">", ">=", "<<", ">>", "+", "-", "*", "/", "%"]
E_ASG = ["=", "+=", "-=", "*=", "/=", "%=", "&=", "|=", "^=", "<<=", ">>="]
E_ALL = E_IDS + ["0", "1", "7", "42"] + E_BIN + E_ASG + ["!", "~", "++", "--", "(", ")", "[", "]", ".", "->", "?", ":", ","]


def gen_expr(rng, depth):
    """tokens of a (mostly) well-formed expression of the modelled fragment"""
    r = rng.random()
    if depth <= 0 or r < 0.22:
        return [rng.choice(E_IDS + ["0", "1", "7", "42"])]
    if r < 0.50:
        return gen_expr(rng, depth - 1) + [rng.choice(E_BIN)] + gen_expr(rng, depth - 1)
    if r < 0.58:
        return [rng.choice(["!", "-", "~", "*", "&", "++", "--"])] + gen_expr(rng, depth - 1)
    if r < 0.66:
        return ["("] + gen_expr(rng, depth - 1) + [")"]
    if r < 0.72:
        return gen_expr(rng, depth - 1) + ["?"] + gen_expr(rng, depth - 1) + [":"] + gen_expr(rng, depth - 1)
    if r < 0.78:
        args = []
        for i in range(rng.randint(0, 3)):
            if i:
                args.append(",")
            args += gen_expr(rng, depth - 1)
        return [rng.choice(["f", "g"]), "("] + args + [")"]
    if r < 0.84:
        return [rng.choice(E_IDS), "["] + gen_expr(rng, depth - 1) + ["]"]
    if r < 0.88:
        return [rng.choice(E_IDS), rng.choice([".", "->"]), rng.choice(E_IDS)]
    if r < 0.92:
        return [rng.choice(E_IDS), rng.choice(["++", "--"])]
    if r < 0.97:
        return [rng.choice(E_IDS), rng.choice(E_ASG)] + gen_expr(rng, depth - 1)
    return gen_expr(rng, depth - 1) + ["?"]


def unmodelled_expr(toks):
    """shapes ExprParse.v answers Err for because the construct is outside the model (method call, chained call,
    array literal = a '[' in operand position)"""
    for i, t in enumerate(toks):
        if t == "[" and (i == 0 or not (toks[i - 1][0].isalnum() or toks[i - 1][0] == "_" or toks[i - 1] in (")", "]"))):
            return True
    for i in range(len(toks) - 1):
        if toks[i] in (")", "]") and toks[i + 1] == "(":
            return True
        if toks[i] in (".", "->") and i + 2 < len(toks) and toks[i + 2] == "(":
            return True
    return False


def expr_case(rng):
    toks = gen_expr(rng, rng.randint(1, 4))
    kind = "valid"
    if rng.random() < 0.55:
        kind = "mutated"
        for _ in range(rng.randint(1, 2)):
            r = rng.random()
            i = rng.randrange(len(toks))
            if r < 0.3 and len(toks) > 1:
                del toks[i]
            elif r < 0.55:
                toks.insert(i, rng.choice(E_ALL))
            elif r < 0.75:
                toks[i] = rng.choice(E_ALL)
            elif r < 0.9:
                j = rng.randrange(len(toks))
                toks[i], toks[j] = toks[j], toks[i]
            else:
                toks.insert(i, toks[i])
    sep = " " if rng.random() < 0.8 else ""
    if sep == "":
        # compact spelling only where adjacent lexemes cannot merge
        text = ""
        for t in toks:
            if text and (text[-1].isalnum() or text[-1] == "_") and (t[0].isalnum() or t[0] == "_"):
                text += " "
            elif text and text[-1] in "+-<>=&|!*/%^.?:" and t[0] in "+-<>=&|*/.:":
                text += " "
            text += t
    else:
        text = " ".join(toks)
    return kind, toks, text


def model_lines(sub, lines):
    rc, o, e = common.sh([common.model_bin(PROP), sub], input=("\n".join(lines) + "\n").encode(), timeout=900)
    if rc != 0:
        raise RuntimeError("c10_model %s failed rc=%d: %s" % (sub, rc, e[-400:]))
    res = o.split("\n")
    if res and res[-1] == "":
        res.pop()
    if len(res) != len(lines):
        raise RuntimeError("c10_model %s: %d answers for %d cases" % (sub, len(res), len(lines)))
    return res


# ------------------------------------------------------------------ shrinking
def shrink_bytes(data, still_bad, budget=60):
    """delta debugging on the token list (chunks, then single tokens)"""
    toks = tokenize(data)
    n = 2
    while len(toks) >= 2 and budget > 0:
        size = max(1, len(toks) // n)
        reduced = False
        for s in range(0, len(toks), size):
            cand = toks[:s] + toks[s + size:]
            if not cand:
                continue
            budget -= 1
            if still_bad(b"".join(cand)):
                toks = cand
                n = max(n - 1, 2)
                reduced = True
                break
            if budget <= 0:
                break
        if not reduced:
            if size == 1:
                break
            n = min(len(toks), n * 2)
    return b"".join(toks)


def show(data, limit=4000):
    return data[:limit].decode("latin-1")


# ------------------------------------------------------------------ main
def run(rep):
    seed, tier = rep.seed, rep.tier
    quick = tier == "quick"
    t_stage = time.time()
    cq = common.coq_check_props(PROP)
    common.proof_coverage(rep, cq)
    rep.coverage["coq_wall_s_incl_lock_wait"] = round(time.time() - t_stage, 1)
    if not cq["ok"]:
        rep.violation("proof", {"theorem": cq["failed_theorem"], "log": cq["log"][-3000:]},
                      "proof obligation %s no longer checks" % cq["failed_theorem"], True)
    if not quick and cq["ok"]:
        ok, axioms = common.coqchk(PROP)
        rep.coverage["coqchk"] = {"ok": ok, "context_summary": axioms[:1500]}
        if not ok:
            rep.violation("coqchk", {"output": axioms[-3000:]}, "coqchk rejects the compiled development", True)
    common.ensure_model(PROP)
    leaf = common.build_leaf("c10_lexdump", ["src/frontend/recursive_parser/recursive_lexer.cpp"])
    asan = common.build_impl("asan")
    plain = common.build_impl("plain")
    rep.coverage["builds_wall_s_incl_lock_wait"] = round(time.time() - t_stage - rep.coverage["coq_wall_s_incl_lock_wait"], 1)
    findings = common.known_findings(PROP)
    names = token_enum()
    files = sorted(os.path.join(r, f) for r, _, fs in os.walk(common.REPO) for f in fs if f.endswith(".cb")
                   and "/.git/" not in r)
    hist, evaluations = {}, 0
    seen_nontrivial = set()
    failures = []          # (stream, label, data, mode, args, big_stack, result, sig)
    samples = []

    def note(data, r):
        # non-trivial = the front end did more than start up: a diagnostic was produced, or a non-empty program was accepted
        if ((r["rc"] == 1 and r["err"].strip()) or r["rc"] == 0) and len(data) >= 8 and len(set(data.split())) >= 3:
            seen_nontrivial.add(hashlib.sha256(data).digest()[:12])

    # ---------------- (1) lexer: extracted model vs recursive_lexer.cpp, token for token
    lins, lorig = lexer_inputs(seed, tier, files)
    for f in files:
        d = open(f, "rb").read()
        if len(d) <= 16384:
            lins.append(d); lorig.append("repo-file")
    t_lex = time.time()
    lres = lex_both(lins, leaf, names)
    rep.coverage["lexer_wall_s"] = round(time.time() - t_lex, 1)
    lbad = [(x, o, m, i) for x, o, (m, i) in zip(lins, lorig, lres) if m != i]
    for o in lorig:
        hist["lexer:" + o] = hist.get("lexer:" + o, 0) + 1
    evaluations += len(lins)
    lex_nontrivial = len({x for x, (m, i) in zip(lins, lres) if len(m) > 1 or (m and not m[0].startswith("TOK_EOF"))})
    rep.coverage["lexer_cases"] = len(lins)
    rep.coverage["lexer_disagreements"] = len(lbad)
    samples.append({"stream": "lexer", "input": show(lins[len(LEX_ALPHA) * 39 + 7]), "model_tokens": lres[len(LEX_ALPHA) * 39 + 7][0]})
    lbad.sort(key=lambda b: len(b[0]))
    for x, o, m, i in lbad[:3]:
        def still(y):
            (mm, ii), = lex_both([y], leaf, names)
            return mm != ii
        y = x
        if len(x) > 8:
            # shrink byte-wise from both ends
            changed = True
            while changed and len(y) > 1:
                changed = False
                for cand in (y[1:], y[:-1]):
                    if cand and still(cand):
                        y = cand; changed = True; break
        (mm, ii), = lex_both([y], leaf, names)
        spec_bad = not ii or ii[-1].split(" ")[0] not in ("TOK_EOF", "TOK_ERROR") or len(ii) > len(y) + 1
        rep.violation("corr-lexer", {"input": show(y), "input_hex": y.hex(), "model": mm, "impl": ii, "origin": o,
                                     "broken": "correspondence Lexer.lex_all = RecursiveLexer::nextToken sequence (carrier of lex_total_linear)"},
                      "recursive_lexer.cpp and the proved lexer model disagree on %r: model %s, code %s%s" % (
                          show(y, 60), mm[-2:], ii[-2:], "; the code's token list does not end in EOF/ERROR within |input|+1 tokens" if spec_bad else ""),
                      no_failing_input=not spec_bad)

    # ---------------- (2) baseline: every repository .cb file, parse-only, sanitised build; fit c
    def run_file(f):
        d = open(f, "rb").read()
        return f, d, run_case(asan, d, "parse")
    base = common.pmap(run_file, files)
    evaluations += len(base)
    hist["repo-file"] = len(base)
    cpu0 = min(r["cpu"] for _, _, r in base) if base else 0.05
    fit = sorted((r["cpu"] - cpu0) / len(d) for _, d, r in base if len(d) >= 2000)
    # 90th percentile of (cpu - startup)/bytes over the unmodified files, clipped: robust against load spikes of single runs
    c_fit = fit[(len(fit) * 9) // 10] if fit else 1e-5
    c_fit = min(max(c_fit, 2e-6), 5e-5)

    def bound(n):
        return 3 * cpu0 + 0.5 + 8 * c_fit * n
    rep.coverage["timing"] = {"startup_cpu_s": round(cpu0, 4), "c_fit_s_per_byte": c_fit, "bound": "3*startup + 0.5 + 8*c*n (CPU seconds)",
                              "max_repo_file_cpu_s": round(max(r["cpu"] for _, _, r in base), 3) if base else None}
    for f, d, r in base:
        note(d, r)
        s = signature(r, bound(len(d)) * 2)
        if s:
            failures.append(("repo-file", f, d, "parse", [], False, r, s))
    usable = [(f, d) for f, d, r in base if len(d) <= MAX_BYTES and len(d) > 20 and not trips_selfref_macro(d)]

    # ---------------- (3) generated streams, all through one pool
    cases = []        # (stream, label, data, mode, args, big_stack)
    n_mut = 1500 if quick else 20000
    for k in range(n_mut):
        rng = rng_for(seed, "c10-mut", k)
        f, d = rng.choice(usable)
        m, kinds = d, []
        toks = tokenize(d)
        for _ in range(1 if rng.random() < 0.6 else rng.randint(2, 6)):
            kind, m2 = mutate(rng, toks)
            if m2 is None:
                break
            m, toks = m2, tokenize(m2)
            kinds.append(kind)
        if trips_selfref_macro(m):
            continue
        cases.append(("mutation", "%s:%s" % (os.path.relpath(f, common.REPO), "+".join(kinds)), m, "parse", [], False))
    # truncation at EVERY token boundary of a few files
    n_trunc_files = 3 if quick else 30
    rngt = rng_for(seed, "c10-trunc")
    smallf = [(f, d) for f, d in usable if len(d) <= (1500 if quick else 4000)]
    for f, d in rngt.sample(smallf, min(n_trunc_files, len(smallf))):
        toks = tokenize(d)
        pos = 0
        for t in toks:
            pos += len(t)
            if not t.isspace():
                cases.append(("truncation", "%s@%d" % (os.path.relpath(f, common.REPO), pos), d[:pos], "parse", [], False))
    # nesting amplification
    for kind in AMP_KINDS:
        for dpt in ([40, SAFE_DEPTH] if quick else [10, 40, 150, SAFE_DEPTH]):
            cases.append(("amplify", "%s:%d" % (kind, dpt), amp(kind, dpt), "parse", [], False))
        for dpt in ([600, 2000] if quick else [500, 1000, 1500, 2000]):
            cases.append(("amplify-deep", "%s:%d" % (kind, dpt), amp(kind, dpt), "parse", [], True))
    # amplification of repository files: wrap one expression token of a file in parentheses / blocks
    for k in range(40 if quick else 600):
        rng = rng_for(seed, "c10-ampfile", k)
        f, d = rng.choice(usable)
        toks = tokenize(d)
        idx = [i for i, t in enumerate(toks) if re.fullmatch(rb"[0-9]+", t)]
        if not idx:
            continue
        i = rng.choice(idx)
        dpt = rng.choice([20, 100, SAFE_DEPTH])
        toks[i] = b"(" * dpt + toks[i] + b")" * dpt
        cases.append(("amplify-file", "%s:%d" % (os.path.relpath(f, common.REPO), dpt), b"".join(toks), "parse", [], False))
    # raw bytes, ascii noise, token soup
    for k in range(800 if quick else 12000):
        kind, d = soup(rng_for(seed, "c10-soup", k))
        cases.append((kind, "", d, "parse", [], False))
    # corpus of minimised past failures
    corpus = os.path.join(common.VERIF, "corpus", "c10.json")
    if os.path.exists(corpus):
        for c in json.load(open(corpus)):
            cases.append(("corpus", c.get("label", ""), bytes.fromhex(c["source_hex"]), c.get("mode", "parse"), c.get("args", []),
                          bool(c.get("big_stack"))))

    # directive-only files: model verdict
    pp_cases = []
    for k in range(200 if quick else 3000):
        rng = rng_for(seed, "c10-pp", k)
        text, args = directive_file(rng)
        pp_cases.append((text, args))
    pp_model = model_lines("preproc", [" ".join([(t.encode().hex() or "-")] + [a.encode().hex() for a in args if True])
                                       for t, args in pp_cases])
    # println(<expr>); programs: model verdict
    ex_cases = []
    for k in range(450 if quick else 6000):
        rng = rng_for(seed, "c10-expr", k)
        ex_cases.append(expr_case(rng))
    ex_model = model_lines("verdict", [t.encode().hex() for _, _, t in ex_cases])

    # generated CbCore programs, executed fully
    core_srcs = []
    try:
        import gen_core
        import langrun
        sx = []
        for k in range(300 if quick else 5000):
            rng = rng_for(seed, "c10-core", k)
            g = gen_core.Gen(rng, gen_core.Opts(wide_lits=False))
            # avoid C10-shift-ub: shift operators are replaced (any count outside 0..63 / negative operand is UB in the evaluator)
            sx.append(g.program().replace("(bin << ", "(bin + ").replace("(bin >> ", "(bin - "))
        ms = langrun.model_run(sx)
        core_srcs = [m for m in ms if m["expect"] not in ("undef", "nofuel") and "<<" not in m["src"] and ">>" not in m["src"]]
    except Exception as e:      # the shared CbCore tool chain is not mine; its absence must not fail C10
        rep.notes.append("CbCore generator unavailable (%s): execution half skipped" % str(e)[:200])
    for m in core_srcs:
        cases.append(("cbcore-exec", m["expect"], m["src"].encode(), "full", [], False))

    # a hanging implementation must not stall the check: after 25 time-outs the remaining runs get 1 s of CPU
    hung = {"n": 0}

    def guarded(data, mode, args, big):
        slow = hung["n"] > 25
        r = run_case(asan, data, mode, args, big, cpu=1 if slow else 10, wall=10 if slow else 60)
        if r["killed"] or r["rc"] in (-24, -25, -9):
            hung["n"] += 1
        return r

    def run_one(c):
        return c, guarded(c[2], c[3], c[4], c[5])
    t_run = time.time()
    results = common.pmap(run_one, cases)

    def run_pp(c):
        text, args = c
        return guarded(text.encode(), "parse", ["-D" + a for a in args], False)
    pp_res = common.pmap(run_pp, pp_cases)

    def run_ex(c):
        return guarded(("void main() { println(%s); }\n" % c[2]).encode(), "parse", [], False)
    ex_res = common.pmap(run_ex, ex_cases)
    rep.coverage["campaign_wall_s"] = round(time.time() - t_run, 1)

    for c, r in results:
        evaluations += 1
        hist[c[0]] = hist.get(c[0], 0) + 1
        note(c[2], r)
        s = signature(r, bound(len(c[2])) * (3 if c[5] else 1))
        if s:
            failures.append((c[0], c[1], c[2], c[3], c[4], c[5], r, s))
    samples.append({"stream": results[0][0][0], "label": results[0][0][1], "source": show(results[0][0][2], 300), "rc": results[0][1]["rc"]})
    for c, r in results:
        if c[0] == "amplify-deep":
            samples.append({"stream": c[0], "label": c[1], "bytes": len(c[2]), "rc": r["rc"], "cpu_s": round(r["cpu"], 3)})
            break

    # ---- verdict correspondence: directive-only files
    pp_bad, pp_cmp = [], 0
    for (text, args), mv, r in zip(pp_cases, pp_model, pp_res):
        evaluations += 1
        note(text.encode(), r)
        s = signature(r, bound(len(text)))
        if s:
            failures.append(("directive-file", " ".join(args), text.encode(), "parse", ["-D" + a for a in args], False, r, s))
            continue
        if mv == "EMPTYNAME":
            continue
        pp_cmp += 1
        want = 0 if mv == "E 0" else 1
        if r["rc"] != want:
            pp_bad.append((text, args, mv, r))
    hist["directive-file"] = len(pp_cases)
    samples.append({"stream": "directive-file", "file": pp_cases[0][0], "args": pp_cases[0][1], "model": pp_model[0], "rc": pp_res[0]["rc"]})
    for text, args, mv, r in pp_bad[:3]:
        lines = text.split("\n")
        changed = True
        while changed and len(lines) > 1:
            changed = False
            for k in range(len(lines)):
                cand = lines[:k] + lines[k + 1:]
                t2 = "\n".join(cand)
                m2 = model_lines("preproc", [" ".join([(t2.encode().hex() or "-")] + [a.encode().hex() for a in args])])[0]
                r2 = run_case(asan, t2.encode(), "parse", ["-D" + a for a in args])
                if m2 != "EMPTYNAME" and r2["rc"] in (0, 1) and r2["rc"] != (0 if m2 == "E 0" else 1):
                    lines, changed, mv, r = cand, True, m2, r2
                    break
        rep.violation("corr-preproc", {"file": "\n".join(lines), "args": ["-D" + a for a in args], "model": mv, "rc": r["rc"],
                                       "stderr": r["err"][-400:],
                                       "broken": "correspondence C17.Model.process (errors = 0) <-> main exits 0 on a directive-only file"},
                      "main exits %d on a directive-only file for which the preprocessor model reports %s" % (r["rc"], mv),
                      no_failing_input=True)
    rep.coverage["preproc_verdicts_compared"] = pp_cmp

    # ---- verdict correspondence: println(<expr>);
    ex_bad, ex_cmp, ex_skip = [], 0, 0
    for (kind, toks, text), mv, r in zip(ex_cases, ex_model, ex_res):
        evaluations += 1
        src = ("void main() { println(%s); }\n" % text).encode()
        note(src, r)
        s = signature(r, bound(len(src)))
        if s:
            failures.append(("expr-program", kind, src, "parse", [], False, r, s))
            continue
        if mv == "FUEL":
            rep.violation("model-fuel", {"expr": text}, "the extracted expression model ran out of fuel on %r (contradicts front_end_verdict_total)" % text, True)
            continue
        if mv not in ("ACCEPT", "REJECT") or unmodelled_expr(toks):
            ex_skip += 1
            continue
        ex_cmp += 1
        if r["rc"] != (0 if mv == "ACCEPT" else 1):
            ex_bad.append((toks, text, mv, r))
    hist["expr-program"] = len(ex_cases)
    samples.append({"stream": "expr-program", "expr": ex_cases[1][2], "model": ex_model[1], "rc": ex_res[1]["rc"]})
    ex_bad.sort(key=lambda b: len(b[0]))
    for toks, text, mv, r in ex_bad[:3]:
        changed = True
        while changed and len(toks) > 1:
            changed = False
            for k in range(len(toks)):
                cand = toks[:k] + toks[k + 1:]
                if unmodelled_expr(cand):
                    continue
                t2 = " ".join(cand)
                m2 = model_lines("verdict", [t2.encode().hex()])[0]
                r2 = run_case(asan, ("void main() { println(%s); }\n" % t2).encode(), "parse")
                if m2 in ("ACCEPT", "REJECT") and r2["rc"] in (0, 1) and r2["rc"] != (0 if m2 == "ACCEPT" else 1):
                    toks, text, mv, r, changed = cand, t2, m2, r2, True
                    break
        rep.violation("corr-expr", {"expr": text, "program": "void main() { println(%s); }" % text, "model": mv, "rc": r["rc"],
                                    "stderr": r["err"][-400:],
                                    "broken": "correspondence ExprParse.expr_verdict <-> exit status of main on println(<expr>); (carrier of parse_expr_total_linear)"},
                      "main exits %d on println(%s); but the expression-ladder model says %s" % (r["rc"], text, mv), no_failing_input=True)
    rep.coverage["expr_verdicts_compared"] = ex_cmp
    rep.coverage["expr_verdicts_skipped_unmodelled"] = ex_skip

    # ---------------- (4) failures of the oracle: known signature (tolerated stream leak) or VIOLATION
    rep.coverage["oracle_failures"] = len(failures)
    by_sig = {}
    for fl in failures:
        by_sig.setdefault(fl[7], []).append(fl)
    reported = 0
    for s, fls in sorted(by_sig.items(), key=lambda kv: -len(kv[1])):
        k = match_known(s, findings)
        if k is not None:
            rep.known(k["id"], k["what_fails"])
            rep.notes.append("%d main-stream case(s) leaked into known finding %s (%s)" % (len(fls), k["id"], s))
            continue
        if reported >= 4:
            continue
        reported += 1
        fls.sort(key=lambda x: len(x[2]))
        stream, label, data, mode, args, big, r, _ = fls[0]

        def still(y, s=s, mode=mode, args=args, big=big):
            r2 = run_case(asan, y, mode, args, big)
            return signature(r2, bound(len(y)) * (3 if big else 1)) == s
        small = shrink_bytes(data, still, 40 if quick else 150) if len(data) <= 20000 and s != "slow" else data
        r2 = run_case(asan, small, mode, args, big)
        if signature(r2, bound(len(small)) * (3 if big else 1)) != s:
            small, r2 = data, r
        rp = run_case(plain, small, mode, args, big)
        rep.violation("oracle", {"source": show(small), "source_hex": small[:20000].hex(), "mode": mode, "args": args, "big_stack": big,
                                 "stream": stream, "label": label, "signature": s, "rc_sanitised": r2["rc"], "cpu_s": round(r2["cpu"], 3),
                                 "stderr": r2["err"][:1500], "rc_plain_build": rp["rc"], "cases_with_this_signature": len(fls),
                                 "demanded": "exit status 0 or 1, no signal, no sanitizer report, diagnostic when 1, CPU <= %.2fs" % bound(len(small))},
                      "front end violates C10 on a %d-byte input (%s, %s): %s; plain build exit %d" % (
                          len(small), stream, mode, s, rp["rc"]))

    # ---------------- (5) known findings: replay each; still failing -> KNOWN-FINDING
    for f in findings:
        ok, text = replay_finding(f, asan, plain)
        if ok is None:
            rep.notes.append("known finding %s: %s" % (f["id"], text))
        elif ok:
            rep.known(f["id"], f["what_fails"])
        else:
            rep.notes.append("known finding %s no longer reproduces (fixed?): %s" % (f["id"], text))

    rep.coverage.update({
        "evaluations": evaluations,
        "distinct_nontrivial": len(seen_nontrivial) + lex_nontrivial,
        "rule": "inputs: exhaustive short byte strings + random lexeme strings (lexer, leaf driver vs extracted model); every repository .cb "
                "file; token mutations (delete/duplicate/swap/insert/truncate, 1-6 edits); truncation at every token boundary of sampled files; "
                "42 nesting amplifiers at depth 40/300 (default stack) and 600-2000 (1 GiB stack limit); raw bytes / ascii noise / keyword soup "
                "<= 8 KiB; directive-only files with -D; println(<expr>); programs; generated CbCore programs executed fully. All on the "
                "ASan+UBSan build of the current tree. distinct_nontrivial = distinct inputs (sha256) of at least 8 bytes and 3 different "
                "blank-separated words for which the front end produced a diagnostic with exit 1 or accepted the program, plus distinct lexer "
                "inputs whose token list has more than the EOF token.",
        "samples": samples[:8],
        "input_distribution": hist,
        "exhaustive": False,
        "tested_not_proved": "memory safety / UB / termination of the compiled C++ (sanitizer campaign); statement and declaration parsers",
    })
    rep.assumptions += [
        "the sanitizer half is a test: absence of reports on the explored inputs, not a proof about the C++",
        "lexer, expression-ladder and preprocessor models are hand-written; they are tied to the code by the differential runs above",
        "CPU-time bound c*n is fitted on this run's unmodified repository files (machine-dependent constant)",
        "deep-nesting inputs (600-2000 levels) are run with the stack-size limit raised to 1 GiB; the default-stack overflow is a recorded finding",
    ]


# ------------------------------------------------------------------ known findings
def finding_input(rp):
    if "gen" in rp:
        g = rp["gen"]
        if g["kind"] == "repeat":
            return (g["head"] + g["unit"] * g["n"] + g["tail"]).encode()
        return amp(g["kind"], g["depth"])
    return rp["source"].encode("latin-1")


def replay_finding(f, asan, plain):
    """-> (True still fails / False fixed / None not decidable, text)"""
    rp = f["replay"]
    impl = asan if rp.get("build", "asan") == "asan" else plain
    if rp.get("kind") == "scaling":
        # CPU time of the two sizes: super-linear if time grows clearly faster than size
        a = finding_input({"gen": dict(rp["gen"], n=rp["n_small"])})
        b = finding_input({"gen": dict(rp["gen"], n=rp["n_large"])})
        ra = run_case(impl, a, rp.get("mode", "parse"), cpu=30)
        rb = run_case(impl, b, rp.get("mode", "parse"), cpu=30)
        if ra["rc"] not in (0, 1) or rb["rc"] not in (0, 1, -24):
            return None, "unexpected exit %d/%d" % (ra["rc"], rb["rc"])
        ratio_t = (rb["cpu"] - 0.003) / max(ra["cpu"] - 0.003, 1e-3)
        ratio_n = len(b) / len(a)
        return ratio_t > 1.8 * ratio_n, "cpu %.3fs for %d bytes, %.3fs for %d bytes" % (ra["cpu"], len(a), rb["cpu"], len(b))
    data = finding_input(rp)
    r = run_case(impl, data, rp.get("mode", "parse"), rp.get("args", []), cpu=rp.get("cpu", 10))
    s = signature(r)
    if s is None:
        if rp.get("expect_stderr_empty") and r["err"].strip():
            return True, "exit %d with a diagnostic on an accepted program" % r["rc"]
        return False, "exit %d" % r["rc"]
    if re.search(f["signature"]["kind"], s):
        return True, s
    return None, "fails differently now: %s" % s


def replay(path):
    data = json.load(open(path))
    c = data["case"]
    if "source_hex" in c:
        asan = common.build_impl("asan")
        r = run_case(asan, bytes.fromhex(c["source_hex"]), c.get("mode", "parse"), c.get("args", []), bool(c.get("big_stack")))
        s = signature(r)
        print("exit", r["rc"], "cpu %.3f" % r["cpu"], "signature", s)
        print(r["err"][:1500])
        return 1 if s else 0
    if "input_hex" in c:
        common.ensure_model(PROP)
        leaf = common.build_leaf("c10_lexdump", ["src/frontend/recursive_parser/recursive_lexer.cpp"])
        (m, i), = lex_both([bytes.fromhex(c["input_hex"])], leaf, token_enum())
        print("model:", m)
        print("impl: ", i)
        return 0 if m == i else 1
    if "expr" in c and "program" in c:
        common.ensure_model(PROP)
        asan = common.build_impl("asan")
        mv = model_lines("verdict", [c["expr"].encode().hex()])[0]
        r = run_case(asan, (c["program"] + "\n").encode(), "parse")
        print("model:", mv, "impl exit:", r["rc"], r["err"][:300])
        return 0 if r["rc"] == (0 if mv == "ACCEPT" else 1) else 1
    if "file" in c:
        common.ensure_model(PROP)
        asan = common.build_impl("asan")
        args = [a[2:] for a in c.get("args", [])]
        mv = model_lines("preproc", [" ".join([(c["file"].encode().hex() or "-")] + [a.encode().hex() for a in args])])[0]
        r = run_case(asan, c["file"].encode(), "parse", c.get("args", []))
        print("model:", mv, "impl exit:", r["rc"], r["err"][:300])
        return 0 if r["rc"] == (0 if mv == "E 0" else 1) else 1
    print(json.dumps(c, indent=1)[:3000])
    return 1
