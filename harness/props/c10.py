"""C10 - no input crashes or hangs the front end or causes invalid memory access (partial).

Two halves (DESIGN.md section 5, C10):
 (a) theorems (coq/C10/Properties_C10.v) about the MODELS of the three front-end stages: lexer
     (Lexer.v: every byte string, <= |input|+1 activations, every activation consumes a byte),
     expression ladder (ExprParse.v: recursion depth 14*(|tokens|+1) is always enough, every
     successful parse consumes a token), preprocessor (coq/C17/Model.v: find loop / replacement
     loop fuel is sufficient for a non-empty macro name; #define never creates an empty name);
     the models are tied to /repo on every run: extracted lexer vs the repository's
     recursive_lexer.cpp (leaf driver, token for token), directive-only files and
     println(<expr>); programs: model verdict vs exit status of `main`.
 (b) what no theorem can give (memory safety / UB / termination of the compiled C++): the
     ASan+UBSan build of the CURRENT tree, CB_VERIF_PARSE_ONLY=1, on every repository .cb file,
     token-level mutations (delete/duplicate/swap/insert, truncation at token boundaries), nesting
     amplification to depth 2000, raw bytes <= 8 KiB, token soup; generated CbCore programs are
     executed fully.  Oracle: exit 0 or 1, no signal, no sanitizer report, no time-out, a
     diagnostic on stderr when the status is 1, CPU time <= c*n (c fitted on the unmodified files).
"""
import hashlib
import json
import os
import re
import shutil
import subprocess
import tempfile
import threading
import time

import common
from common import rng_for

PROP = "C10"
LEVEL = "proof"
META = {
    "category": "proof",
    "technique": "Coq totality/termination-measure proofs about models of lexer, expression ladder and preprocessor loops + "
                 "extracted-model differential runs (lexer token for token, front-end verdicts) + ASan/UBSan robustness campaign on the real binary",
    "text": "Machine-checked theorems about hand-written Gallina models of RecursiveLexer (every byte string lexes to a token list ending in "
            "EOF/ERROR within |input|+1 activations, each consuming >= 1 byte), of the expression ladder parseAssignment..parsePrimary (recursion depth "
            "14*(|tokens|+1) never runs out, every successful parse consumes a token, the lexer+ladder verdict function is total) and of the "
            "preprocessor loops of coq/C17/Model.v (search/sweep fuel sufficient for non-empty macro names; #define never yields an empty name). "
            "Refuted on the faithful models: linear look-ahead (#38), termination of the find loop for an empty macro name (-D=5). "
            "The models are tied to /repo on every run (extracted lexer vs recursive_lexer.cpp token for token; model verdict vs exit status for "
            "directive-only files and println(<expr>); programs). Memory safety, absence of UB and termination of the C++ itself are TESTED, not proved: "
            "ASan+UBSan build, parse-only mode, on all repository .cb files, token mutations, truncations, nesting amplification to depth 2000, raw "
            "bytes, token soup, plus full execution of generated CbCore programs. Declaration-level parser state: theorems about the two table walks "
            "(TypeUtilityParser::resolveTypedefChain as coded ends within |typedef_map_|+1 iterations on every table, computes the chain where it ends and "
            "answers 'unknown type' where it runs into a cycle; the start-only cycle check is refuted on the tables of a three-line program; "
            "detectCircularReference as coded since fix 08b0ce5 - walked structs stay marked - recurses at most |struct_definitions_|+1 deep on every "
            "table, walks every struct at most once per check, makes at most 1 + (value members of the table) activations per check - linear, "
            "where the former code was exponential on diamonds - and answers true exactly when the struct being defined is reachable along value "
            "members), tied to /repo by a leaf driver that links the "
            "repository's parser and dumps typedef_map_ / the definition tables / resolveTypedefChain for generated declaration sequences and, for "
            "struct graphs (deep diamonds and layered graphs included), the answer and the visited set of single cycle checks; malformed "
            "declaration programs (name reuse between tags and aliases, re-declaration, self-reference, typedef cycles entered from outside, "
            "self-mapped aliases) with uses of every name run under the same oracle; modules that import each other (cycles of 1-5 modules, "
            "through the input or not) are parsed on the default stack and executed with their known output.",
    "note": "PARTIAL by design: no C++ semantics in Coq, so the sanitizer half is a test campaign labelled as such; statement/declaration parsers are "
            "not modelled beyond the two table walks. Trusted: Coq kernel (vm_compute for one finite sweep), no axioms (Print Assumptions: closed for all 35 theorems), extraction "
            "(ExtrOcamlBasic+ExtrOcamlString), OCaml driver, leaf drivers c10_lexdump.cpp and c10_typedefs.cpp (private members of RecursiveParser reached by "
            "'#define private public' in that translation unit), Python oracle, GCC sanitizers. Depends on coq/C17/Model.v "
            "(preprocessor model) and coq/C17/Expand.v (two soundness lemmas).",
}

MEM_LIMIT_MB = 3072        # per run: plain build RLIMIT_AS, sanitised build hard_rss_limit_mb (ASan needs a huge address space)
SAN_ENV = {"ASAN_OPTIONS": "exitcode=97:detect_leaks=0:allocator_may_return_null=1:hard_rss_limit_mb=%d" % MEM_LIMIT_MB,
           "UBSAN_OPTIONS": "exitcode=96:print_stacktrace=0"}
REF_CPU_DEV = 0.040       # median CPU of a repository file on the sanitised build on the development machine (only used to SCALE the
                          # size of the amplified inputs down on a slower machine; no verdict depends on it)
MAX_BYTES = 8192
SAFE_DEPTH = 300          # nesting that must work on the default 8 MiB stack (ASan frames are ~3x larger)
BIG_STACK = 1 << 30       # deep-nesting stream: stack-size limit raised so that only non-stack failures show


# ------------------------------------------------------------------ running the implementation
def run_case(impl_dir, data, mode="parse", args=(), big_stack=False, cpu=10, wall=300, stack=None, files=None):
    """_run_case_once, repeated when the scratch directory of the run vanished under it (seen once: another job on the shared machine
    removed /var/tmp/c10run-* while a case was running - the check must not crash on that)"""
    for attempt in range(3):
        try:
            return _run_case_once(impl_dir, data, mode, args, big_stack, cpu, wall, stack, files)
        except FileNotFoundError:
            if attempt == 2:
                raise
            time.sleep(0.5)


def _run_case_once(impl_dir, data, mode="parse", args=(), big_stack=False, cpu=10, wall=300, stack=None, files=None):
    """One run of `main` on the byte string `data`. Returns rc (negative = signal), CPU seconds, stdout/stderr.
    big_stack: stack-size limit 1 GiB; stack=<bytes>: that stack-size limit; default: the inherited one (8 MiB).
    files: {name: text} written next to the input (modules it imports; the input itself is t.cb, i.e. module `t`)."""
    d = tempfile.mkdtemp(prefix="c10run-", dir=common.SCRATCH_ROOT)
    try:
        try:
            os.utime(impl_dir, None)      # keep the cached build "recent": other checks prune .cache/impl by mtime during long runs
        except OSError:
            pass
        p = os.path.join(d, "t.cb")
        with open(p, "wb") as fh:
            fh.write(data)
        for fn, txt in (files or {}).items():
            with open(os.path.join(d, os.path.basename(fn)), "wb") as fh:
                fh.write(txt.encode("latin-1") if isinstance(txt, str) else txt)
        env = dict(os.environ)
        env.update(SAN_ENV)
        if mode == "parse":
            env["CB_VERIF_PARSE_ONLY"] = "1"
        # CPU limit (hang -> SIGXCPU) and output-size limit (an endless diagnostic loop must not fill the disk -> SIGXFSZ)
        cmd = ["prlimit", "--cpu=%d" % cpu, "--fsize=%d" % (32 << 20)]
        if stack:
            cmd.append("--stack=%d" % stack)
        elif big_stack:
            cmd.append("--stack=%d" % BIG_STACK)
        if not impl_dir.rstrip("/").endswith("asan"):
            cmd.append("--as=%d" % (MEM_LIMIT_MB << 20))
        cmd += [os.path.join(impl_dir, "main"), p] + list(args)
        fo = open(os.path.join(d, "out"), "wb")
        fe = open(os.path.join(d, "err"), "wb")
        t0 = time.time()
        # the parser finds a module next to the importing file, the run-time loader only below the working directory: a program that
        # comes with module files is run from its own directory (such programs import no stdlib module)
        pr = subprocess.Popen(cmd, cwd=d if files else impl_dir, env=env, stdout=fo, stderr=fe, stdin=subprocess.DEVNULL)
        killed = [False]

        def kill():
            killed[0] = True
            try:
                pr.kill()
            except Exception:
                pass
        tm = threading.Timer(wall, kill)
        tm.start()
        _, status, ru = os.wait4(pr.pid, 0)
        tm.cancel()
        pr.returncode = 0
        fo.close()
        fe.close()
        rc = -os.WTERMSIG(status) if os.WIFSIGNALED(status) else os.WEXITSTATUS(status)
        with open(os.path.join(d, "out"), "rb") as fh:
            out = fh.read(65536).decode("utf-8", "replace")
        with open(os.path.join(d, "err"), "rb") as fh:
            err = fh.read(200000).decode("utf-8", "replace")
        return {"rc": rc, "cpu": ru.ru_utime + ru.ru_stime, "wall": time.time() - t0, "out": out, "err": err,
                "killed": killed[0]}
    finally:
        shutil.rmtree(d, ignore_errors=True)


_UB = re.compile(r"^(\S+?):(\d+):(\d+): runtime error: (.*)$", re.M)
_AS = re.compile(r"ERROR: AddressSanitizer: (\S+)")
_FR = re.compile(r"#\d+ 0x[0-9a-f]+ in (\S+).*? (src/\S+?):(\d+)")


def signature(r, bound=None):
    """None if the run satisfies the oracle, else a canonical failure signature
    (crash kind | place), free of addresses, line numbers and values."""
    err = r["err"]
    m = _UB.search(err)
    if m:
        msg = re.sub(r"0x[0-9a-f]+|-?\d+", "N", m.group(4))
        return "ubsan|%s|%s" % (os.path.basename(m.group(1)), msg)
    if "AddressSanitizer: hard rss limit exhausted" in err:
        return "memory|rss-limit"
    m = _AS.search(err)
    if m:
        f = _FR.search(err)
        return "asan|%s|%s" % (m.group(1), (f.group(1).split("(")[0] + "@" + os.path.basename(f.group(2))) if f else "?")
    if r["killed"] or r["rc"] in (-24, -9):
        return "timeout"
    if r["rc"] == -25:
        return "endless-output"
    if r["rc"] < 0:
        return "signal|%d" % -r["rc"]
    if r["rc"] not in (0, 1):
        return "exit|%d" % r["rc"]
    if r["rc"] == 1 and not err.strip():
        return "exit-1-without-diagnostic"
    if bound is not None and r["cpu"] > bound:
        return "slow"
    return None


def match_known(sig, findings, stream_only=True):
    for f in findings:
        rx = f.get("signature", {}).get("kind")
        if rx and re.search(rx, sig) and (f.get("stream") or not stream_only):
            return f
    return None


# ------------------------------------------------------------------ token-level view of a source file
TOKRE = re.compile(rb'''//[^\n]*|/\*.*?\*/|"[^"\n]*"|'(?:\\.|[^'\\\n])'|[A-Za-z_][A-Za-z_0-9]*|[0-9][0-9A-Za-z_.]*'''
                   rb'''|<<=|>>=|\.\.\.|\+\+|--|->|=>|::|&&|\|\||[-+*/%&|^<>=!]=|<<|>>|\s+|.''', re.S)


def tokenize(data):
    return TOKRE.findall(data)


MUT_KINDS = ["del", "dup", "swap", "trunc", "del2", "swapfar", "insert"]


def mutate(rng, toks):
    idx = [i for i, t in enumerate(toks) if not t.isspace()]
    if len(idx) < 3:
        return None, None
    t = list(toks)
    kind = rng.choice(MUT_KINDS)
    i = rng.choice(idx)
    if kind == "del":
        del t[i]
    elif kind == "del2":
        j = rng.choice(idx)
        for k in sorted({i, j}, reverse=True):
            del t[k]
    elif kind == "dup":
        t.insert(i, t[i])
    elif kind == "swap":
        k = idx.index(i)
        j = idx[min(k + 1, len(idx) - 1)]
        t[i], t[j] = t[j], t[i]
    elif kind == "swapfar":
        j = rng.choice(idx)
        t[i], t[j] = t[j], t[i]
    elif kind == "insert":
        j = rng.choice(idx)
        t.insert(i, t[j])
    else:
        t = t[:i]
    return kind, b"".join(t)


_DEFINE = re.compile(rb"^[ \t]*#[ \t]*define[ \t]+([A-Za-z_][A-Za-z_0-9]*)[ \t]+(.*)$", re.M)


def trips_selfref_macro(data):
    """avoid C10-selfref-macro-exponential: an object-like macro whose body mentions a macro name that (transitively)
    leads back to itself together with other text (growth). Conservative: any macro reachable from its own body."""
    defs = {}
    for m in _DEFINE.finditer(data):
        defs[m.group(1)] = set(re.findall(rb"[A-Za-z_][A-Za-z_0-9]*", m.group(2)))
    for n in defs:
        seen, todo = set(), list(defs[n])
        while todo:
            x = todo.pop()
            if x == n:
                return True
            if x in defs and x not in seen:
                seen.add(x)
                todo += list(defs[x])
    return False


LEXEMES = ["main", "if", "else", "for", "while", "break", "continue", "return", "int", "long", "short", "tiny", "void", "string", "char",
           "bool", "float", "double", "big", "quad", "true", "false", "print", "println", "printf", "typedef", "const", "static",
           "private", "struct", "enum", "interface", "impl", "self", "new", "delete", "nullptr", "null", "unsigned", "assert", "defer",
           "yield", "default", "switch", "case", "match", "func", "import", "export", "async", "await", "try", "checked", "panic",
           "unwrap", "foreign", "use", "x", "y", "f", "T", "S", "Option", "Result", "Some", "None", "Ok", "Err", "a", "b", "_", "sizeof",
           "0", "1", "42", "3.14", "1e5", "'c'", "'\\n'", '"s"', '"a{x}b"', '""',
           "+", "-", "*", "/", "%", "==", "!=", "<", "<=", ">", ">=", "&&", "||", "!", "++", "--", "=", "+=", "-=", "*=", "/=", "%=", "&=",
           "|=", "^=", "<<=", ">>=", "&", "|", "^", "~", "<<", ">>", "?", ":", ";", ",", "(", ")", "{", "}", "[", "]", ".", "->", "::",
           "=>", "...", "#", "@", "$", "\\", "`"]
SKELETONS = ["void main() { %s }", "int f(%s) { return 0; }", "struct S { %s };", "enum E { %s };", "interface I { %s };",
             "impl I for S { %s };", "void main() { println(%s); }", "void main() { int x = %s; }", "typedef %s;", "%s",
             "void main() { match (x) { %s } }", "void main() { switch (x) { %s } }", "void main() { for (%s) { } }",
             "T f<T>(%s) { }", "struct S<T> { %s };", "void main() { if (%s) { } else { } }", "import %s;", "export %s",
             "foreign.m { %s }", "use foreign.m { %s }", "async int f() { %s }", "void main() { S s = {%s}; }", "union U = %s;",
             "void main() { int[%s] a; }", "void main() { x = func int(int a) { %s }; }", "void main() { defer %s; }",
             "void main() { println(\"{%s}\"); }"]


def soup(rng):
    r = rng.random()
    if r < 0.25:
        return "soup", " ".join(rng.choice(LEXEMES) for _ in range(rng.randint(1, 300))).encode()[:MAX_BYTES]
    if r < 0.8:
        body = " ".join(rng.choice(LEXEMES) for _ in range(rng.randint(1, 40)))
        return "skeleton-soup", (rng.choice(SKELETONS) % body).encode()
    if r < 0.9:
        return "bytes", bytes(rng.randrange(256) for _ in range(rng.randint(0, rng.choice([16, 200, 2000, MAX_BYTES]))))
    return "ascii", bytes(rng.choice(b"\n\t (){}[];,.<>=+-*/%&|^!~?:#\"'\\abcxyzAZ_0129")
                          for _ in range(rng.randint(0, rng.choice([16, 200, 2000, MAX_BYTES]))))


# ------------------------------------------------------------------ nesting / length amplification
# One entry per self-recursive or mutually recursive production of the parser (expression_parser.cpp, primary_expression_parser.cpp,
# statement_parser.cpp, declaration/struct/enum/interface/union/type parsers), per loop of lexer and preprocessor, and (names "x-...")
# per recursive path of the evaluator / executor.  Every entry is run at depths 10^3, 10^4, 10^5 on the sanitised AND the plain build
# with the DEFAULT 8 MiB stack: the parser's stack guard (RecursiveParser::checkNesting, cb_stack_guard) and the evaluator's
# ("Stack limit reached") have to turn each of them into exit 1 + diagnostic.
PRE = ("struct Box<T> { T v; };\nstruct S { int v; };\nstruct N { N* n; int v; };\nenum E { A, B };\n"
       "int f(int v) { return v; }\nint g<T>(T v) { return 1; }\n")


PER_LINE = 40


def R(u, d):
    """d copies of u, a line break after every PER_LINE copies: lines stay short (known finding C10-source-line-copy-quadratic:
    every AST node stores a copy of its whole source line, so ONE long line costs nodes x bytes)"""
    if ONE_LINE[0]:
        return u * d
    q, r = divmod(d, PER_LINE)
    return (u * PER_LINE + "\n") * q + u * r


def Rr(u, d):
    return u * d


ONE_LINE = [False]


def W(body, pre=""):
    return (pre + "void main() {\n int x = 1; int[3] a = [1,2,3]; int* p = &x;\n %s\n}\n" % body).encode()


def T(body):
    """top level text"""
    return (body + "\nvoid main() { }\n").encode()


BINOPS = [("or", "||"), ("and", "&&"), ("bor", "|"), ("xor", "^"), ("band", "&"), ("eq", "=="), ("ne", "!="), ("lt", "<"), ("le", "<="),
          ("gt", ">"), ("ge", ">="), ("shl", "<<"), ("shr", ">>"), ("add", "+"), ("sub", "-"), ("mul", "*"), ("div", "/"), ("mod", "%")]

AMP = {
    # ---- expression ladder: self-recursive prefix productions of parseUnary
    "paren": lambda d: W("println(" + R("(", d) + "1" + R(")", d) + ");"),
    "unary-minus-paren": lambda d: W("println(" + R("-(", d) + "1" + R(")", d) + ");"),
    "minus": lambda d: W("println(" + R("- ", d) + "x);"),
    "not": lambda d: W("println(" + R("!", d) + "x);"),
    "tilde": lambda d: W("println(" + R("~", d) + "x);"),
    "deref": lambda d: W("println(" + R("*", d) + "x);"),
    "addr": lambda d: W("println(" + R("& ", d) + "x);"),
    "try": lambda d: W("int y = " + R("try ", d) + "1;"),
    "checked": lambda d: W("int y = " + R("checked ", d) + "1;"),
    "await": lambda d: W("int y = " + R("await ", d) + "x;"),
    "try-checked-await": lambda d: W("int y = " + R("try checked await ", (d // 3 + 1)) + "x;"),
    "prefix-mix": lambda d: W("int y = " + R("! - ~ * & try checked await ", (d // 8 + 1)) + "x;"),
    "pre-incr": lambda d: W(R("++ ", d) + "x;"),
    "cast": lambda d: W("x = " + R("(int)", d) + "x;"),
    "cast-long-int": lambda d: W("x = " + R("(long)(int)", (d // 2 + 1)) + "x;"),
    "cast-paren": lambda d: W("x = " + R("(int)(", d) + "x" + R(")", d) + ";"),
    "cast-generic": lambda d: W("x = " + R("(Box<int>)", d) + "x;", PRE),
    # ---- ternary / assignment (right recursion of parseTernary / parseAssignment)
    "ternary-right": lambda d: W("x = " + R("x ? 1 : ", d) + "0;"),
    "ternary-mid": lambda d: W("x = " + R("x ? ", d) + "1" + R(" : 0", d) + ";"),
    "ternary-open": lambda d: W("x = " + R("x ? ", d)),
    "qmarks": lambda d: W("x = x" + R("?", d) + ";"),
    "assign-chain": lambda d: W(R("x = ", d) + "1;"),
    "compound-assign-chain": lambda d: W(R("x += ", d) + "1;"),
    "member-assign-chain": lambda d: W("S s; " + R("s.v = ", d) + "1;", PRE),
    "index-assign-chain": lambda d: W(R("a[0] = ", d) + "1;"),
    # ---- binary levels
    "binary-right": lambda d: W("x = " + R("1 + (", d) + "1" + R(")", d) + ";"),
    "binary-right-mul": lambda d: W("x = " + R("1 * (", d) + "1" + R(")", d) + ";"),
    "binary-right-and": lambda d: W("x = " + R("x && (", d) + "1" + R(")", d) + ";"),
    "lt-chain": lambda d: W("x = x" + R(" < x", d) + ";"),
    "lt-gt-chain": lambda d: W("x = x" + R(" < x > x", (d // 2 + 1)) + ";"),
    "generic-call": lambda d: W("println(f" + R("<Box", d) + R(">", d) + "(1));"),
    "generic-call-nest": lambda d: W("println(" + R("g<int>(", d) + "1" + R(")", d) + ");", PRE),
    "generic-call-open": lambda d: W("println(f" + R("<Box", d)),
    # ---- postfix / primary
    "call": lambda d: W("println(" + R("f(", d) + "1" + R(")", d) + ");", PRE),
    "call-args-wide": lambda d: W("println(f(" + R("1, ", d) + "1));", PRE),
    "call-chain": lambda d: W("println(f(1)" + R("(1)", d) + ");", PRE),
    "method-chain": lambda d: W("println(x" + R(".m()", d) + ");"),
    "method-nest": lambda d: W("println(" + R("x.m(", d) + "1" + R(")", d) + ");"),
    "arrow-method-nest": lambda d: W("println(" + R("p->m(", d) + "1" + R(")", d) + ");"),
    "funcptr-call-chain": lambda d: W("println(*p" + R("(1)", d) + ");"),
    "funcptr-call-nest": lambda d: W("println(" + R("*p(", d) + "1" + R(")", d) + ");"),
    "enum-construct": lambda d: W("println(" + R("E::A(", d) + "1" + R(")", d) + ");", PRE),
    "generic-enum-construct": lambda d: W("println(" + R("Option<int>::Some(", d) + "1" + R(")", d) + ");"),
    "index": lambda d: W("println(a" + R("[a", d) + "[0]" + R("]", d) + ");"),
    "index-chain": lambda d: W("println(a" + R("[0]", d) + ");"),
    "member-chain": lambda d: W("println(x" + R(".m", d) + ");"),
    "arrow-chain": lambda d: W("println(x" + R("->m", d) + ");"),
    "member-index-chain": lambda d: W("println(x" + R(".m[0]", d) + ");"),
    "array-lit": lambda d: W("int[1] b = " + R("[", d) + "1" + R("]", d) + ";"),
    "array-lit-wide": lambda d: W("int[1] b = [" + R("1, ", d) + "1];"),
    "array-lit-expr": lambda d: W("println(" + R("[", d) + "1" + R("]", d) + ");"),
    "array-struct-lit": lambda d: W("S[1] b = " + R("[{v: ", d) + "1" + R("}]", d) + ";", PRE),
    "struct-lit": lambda d: W("S s = " + R("{v: ", d) + "1" + R("}", d) + ";", PRE),
    "struct-lit-pos": lambda d: W("S s = " + R("{", d) + "1" + R("}", d) + ";", PRE),
    "struct-lit-wide": lambda d: W("S s = {" + R("v: 1, ", d) + "v: 1};", PRE),
    "struct-lit-expr": lambda d: W("println(" + R("{v: ", d) + "1" + R("}", d) + ");", PRE),
    "lambda": lambda d: W("int* q = " + R("int func(int v) { return ", d) + "v" + R("; }", d) + ";"),
    "lambda-call": lambda d: W("x = " + R("int func(int v) { return ", d) + "v" + R("; }(1)", d) + ";"),
    "lambda-params-wide": lambda d: W("int* q = int func(" + R("int v, ", d) + "int w) { return 1; };"),
    "lambda-body-blocks": lambda d: W("int* q = int func(int v) " + R("{ ", d) + "return v;" + R(" }", d) + ";"),
    "async-lambda": lambda d: W("int* q = " + R("async int func(int v) { return ", d) + "v" + R("; }", d) + ";"),
    "sizeof": lambda d: W("x = " + R("sizeof(", d) + "x" + R(")", d) + ";"),
    "sizeof-type": lambda d: W("x = sizeof(" + R("Box<", d) + "int" + R(" >", d) + ");", PRE),
    "new-nest": lambda d: W("int* q = " + R("new int[", d) + "1" + R("]", d) + ";"),
    "new-generic": lambda d: W("int* q = new " + R("Box<", d) + "int" + R(">", d) + ";", PRE),
    "delete-chain": lambda d: W(R("delete ", d) + "p;"),
    "interp": lambda d: W('println("' + Rr("{x}", d) + '");'),
    "interp-nest": lambda d: W('println("' + Rr("{", d) + "x" + Rr("}", d) + '");'),
    "interp-paren": lambda d: W('println("{' + Rr("(", d) + "x" + Rr(")", d) + '}");'),
    "interp-unary": lambda d: W('println("{' + Rr("!", d) + 'x}");'),
    "interp-try": lambda d: W('println("{' + Rr("try ", d) + 'x}");'),
    "interp-fmt": lambda d: W('println("' + Rr("{x:5}", d) + '");'),
    "interp-escaped": lambda d: W('println("' + Rr("{{", d) + "x" + Rr("}}", d) + '");'),
    "string-concat": lambda d: W('string s = "a"' + R(' + "a"', d) + ";"),
    "println-args-wide": lambda d: W("println(" + R("1, ", d) + "1);"),
    "print-args-wide": lambda d: W("print(" + R("1, ", d) + "1);"),
    "printf-args-wide": lambda d: W('printf("' + Rr("%d", d) + '"' + Rr(", 1", d) + ");"),
    # ---- types (parseType recursion)
    "generic-type": lambda d: W(R("Box<", d) + "int" + R(">", d) + " b;", PRE),
    "generic-type-spaced": lambda d: W(R("Box<", d) + "int" + R(" >", d) + " b;", PRE),
    "generic-type-open": lambda d: W(R("Box<", d), PRE),
    "generic-type-2": lambda d: W(R("Result<", d) + "int" + R(", int>", d) + " b;"),
    "generic-type-2r": lambda d: W(R("Result<int, ", d) + "int" + R(">", d) + " b;"),
    "option-type": lambda d: W(R("Option<", d) + "int" + R(">", d) + " b;"),
    "generic-param-type": lambda d: T(PRE + "int h(" + R("Box<", d) + "int" + R(">", d) + " b) { return 1; }"),
    "generic-return-type": lambda d: T(PRE + R("Box<", d) + "int" + R(">", d) + " h() { }"),
    "generic-member-type": lambda d: T(PRE + "struct M { " + R("Box<", d) + "int" + R(">", d) + " b; };"),
    "generic-global-type": lambda d: T(PRE + R("Box<", d) + "int" + R(">", d) + " gb;"),
    "generic-typedef-type": lambda d: T(PRE + "typedef " + R("Box<", d) + "int" + R(">", d) + " TB;"),
    "generic-impl-type": lambda d: T(PRE + "impl " + R("Box<", d) + "int" + R(">", d) + " { int m() { return 1; } };"),
    "generic-enum-assoc-type": lambda d: T(PRE + "enum Q { A(" + R("Box<", d) + "int" + R(">", d) + "), B };"),
    "generic-lambda-type": lambda d: W("int* q = " + R("Box<", d) + "int" + R(">", d) + " func() { };", PRE),
    "pointer-type": lambda d: W("int" + R("*", d) + " q;"),
    "array-type": lambda d: W("int" + R("[2]", d) + " q;"),
    "array-type-expr": lambda d: W("int[" + R("(", d) + "2" + R(")", d) + "] q;"),
    "const-chain": lambda d: W(R("const ", d) + "int q = 1;"),
    "unsigned-chain": lambda d: W(R("unsigned ", d) + "int q = 1;"),
    "static-chain": lambda d: W(R("static ", d) + "int q = 1;"),
    "ref-type": lambda d: W("int" + R("&", d) + " q = x;"),
    "funcptr-type": lambda d: T("typedef int (*F)(" + R("int, ", d) + "int);"),
    "typedef-chain": lambda d: T("typedef int T0;\n" + "".join("typedef T%d T%d;\n" % (i, i + 1) for i in range(d)) + "T%d gq = 1;" % d),
    "typedef-array-chain": lambda d: T("typedef int[2] T0;\n" + "".join("typedef T%d T%d;\n" % (i, i + 1) for i in range(d)) + "T%d gq;" % d),
    # typedef_map_ walks (resolveTypedefChain): a chain of d UNFLATTENED entries (typedef struct TAG {..} ALIAS; stores ALIAS -> TAG),
    # then one use of its first name; a cycle of d entries entered from a tail; the same closed through the start; re-declarations
    "typedef-struct-chain": lambda d: T("".join("typedef struct Q%d { int x; } Q%d;\n" % (i + 1, i) for i in range(d)) + "Q0 gq;"),
    "typedef-cycle-tail": lambda d: T("".join("typedef struct Q%d { int x; } Q%d;\n" % ((i + 1) % d, i) for i in range(d))
                                      + "typedef struct Q0 { int x; } QT;\nQT gq;"),
    "typedef-cycle-start": lambda d: T("".join("typedef struct Q%d { int x; } Q%d;\n" % ((i + 1) % d, i) for i in range(d)) + "Q0 gq;"),
    "typedef-redeclare": lambda d: T(R("typedef int QA; typedef QA QB; typedef QB QA; ", d) + "QA gq;"),
    "struct-diamond": lambda d: T("struct M0 { int v; };\n" + "".join("struct M%d { M%d a; M%d b; };\n" % (i, i - 1, i - 1) for i in range(1, d + 1))),
    "union-wide": lambda d: T("typedef U = " + R("1 | ", d) + "2;"),
    "union-types-wide": lambda d: T("typedef U = " + R("int | ", d) + "string;"),
    "union-array-nest": lambda d: T("typedef U = int" + R("[2]", d) + " | string;"),
    # ---- declarations
    "struct-members-wide": lambda d: T("struct M { " + "".join("int m%d; " % i for i in range(d)) + "};"),
    "struct-generic-params-wide": lambda d: T("struct M<" + "".join("T%d, " % i for i in range(d)) + "T> { int v; };"),
    "struct-self-nest": lambda d: T("".join("struct M%d { %s int v; };\n" % (i, ("M%d m;" % (i - 1)) if i else "") for i in range(d))),
    "struct-in-struct": lambda d: T(R("struct M { ", d) + "int v;" + R(" };", d)),
    "enum-members-wide": lambda d: T("enum Q { " + "".join("A%d, " % i for i in range(d)) + "Z };"),
    "enum-generic-assoc-wide": lambda d: T("enum Q<T> { " + "".join("A%d(T), " % i for i in range(d)) + "Z };"),
    "interface-methods-wide": lambda d: T("interface I { " + "".join("int m%d(int a); " % i for i in range(d)) + "};"),
    "impl-methods-wide": lambda d: T("struct M { int v; };\ninterface I { " + "".join("int m%d();\n" % i for i in range(d)) + "}\nimpl I for M { "
                                       + "".join("int m%d() { return 1; }\n" % i for i in range(d)) + "}"),
    "impl-method-blocks": lambda d: T("struct M { int v; };\ninterface I { int m(); }\nimpl I for M { int m() " + R("{ ", d) + "return 1;" + R(" }", d) + " }"),
    "impl-ctor-blocks": lambda d: T("struct M { int v; };\nimpl M { self() " + R("{ ", d) + "self.v = 1;" + R(" }", d) + " ~self() " + R("{ ", d) + R(" }", d) + " };"),
    "impl-static-expr": lambda d: T("struct M { int v; };\nimpl M { static int c = " + R("(", d) + "1" + R(")", d) + "; };"),
    "params-wide": lambda d: T("int h(" + R("int a, ", d) + "int b) { return 1; }"),
    "param-default-expr": lambda d: T("int h(int a = " + R("(", d) + "1" + R(")", d) + ") { return a; }"),
    "generic-params-wide": lambda d: T("int h<" + "".join("T%d, " % i for i in range(d)) + "T>(T v) { return 1; }"),
    "functions-many": lambda d: T("".join("int h%d() { return 1; }\n" % i for i in range(d))),
    "globals-many": lambda d: T("".join("int g%d = 1;\n" % i for i in range(d))),
    "global-init-expr": lambda d: T("int gq = " + R("(", d) + "1" + R(")", d) + ";"),
    "global-array-lit": lambda d: T("int[1] gq = " + R("[", d) + "1" + R("]", d) + ";"),
    "var-list-wide": lambda d: W("int " + "".join("v%d = 1, " % i for i in range(d)) + "w = 1;"),
    "func-in-func": lambda d: W(R("int h() { ", d) + "return 1;" + R(" }", d)),
    "foreign-wide": lambda d: T("use foreign.m { " + R("int h(int a); ", d) + "}"),
    "export-chain": lambda d: T(R("export ", d) + "int h() { return 1; }"),
    "imports-many": lambda d: T(R("import stdlib.std.nothing;\n", d)),
    "async-fn-blocks": lambda d: T("async int h() " + R("{ ", d) + "return 1;" + R(" }", d)),
    # ---- statements (parseStatement recursion)
    "block": lambda d: W(R("{", d) + " x = 2; " + R("}", d)),
    "if": lambda d: W(R("if (x) { ", d) + "x = 2;" + R(" }", d)),
    "if-nobrace": lambda d: W(R("if (x) ", d) + "x = 2;"),
    "if-else-nest": lambda d: W(R("if (x) { x = 1; } else { ", d) + "x = 2;" + R(" }", d)),
    "else-if": lambda d: W("if (x == 0) { x = 1; }" + R(" else if (x == 0) { x = 1; }", d)),
    "if-cond-expr": lambda d: W("if (" + R("(", d) + "x" + R(")", d) + ") { }"),
    "while": lambda d: W(R("while (x) { ", d) + "x = 0;" + R(" }", d)),
    "while-nobrace": lambda d: W(R("while (x) ", d) + "x = 0;"),
    "for": lambda d: W(R("for (int i = 0; i < 1; i++) { ", d) + "x = 0;" + R(" }", d)),
    "for-nobrace": lambda d: W(R("for (x = 0; x < 1; x++) ", d) + "x = 0;"),
    "for-init-nest": lambda d: W(R("for (", d) + "x = 0;" + R(";) { }", d)),
    "for-init-blocks": lambda d: W("for (" + R("{", d) + R("}", d) + " x < 1; x++) { }"),
    "defer": lambda d: W(R("defer ", d) + "x = 1;"),
    "defer-blocks": lambda d: W(R("defer { ", d) + "x = 1;" + R(" }", d)),
    "return-expr": lambda d: W("return " + R("(", d) + "1" + R(")", d) + ";"),
    "assert-expr": lambda d: W("assert(" + R("(", d) + "1" + R(")", d) + ");"),
    "yield-expr": lambda d: W("yield " + R("(", d) + "1" + R(")", d) + ";"),
    "switch": lambda d: W(R("switch (x) { case (1) { ", d) + "x = 1;" + R(" } }", d)),
    "switch-else": lambda d: W(R("switch (x) { case (1) { } else { ", d) + "x = 1;" + R(" } }", d)),
    "switch-cases-wide": lambda d: W("switch (x) { " + R("case (1) { x = 1; } ", d) + "}"),
    "switch-case-values-wide": lambda d: W("switch (x) { case (" + R("1 | ", d) + "2) { x = 1; } }"),
    "switch-case-range": lambda d: W("switch (x) { case (" + R("1 ... ", d) + "2) { x = 1; } }"),
    "switch-case-expr": lambda d: W("switch (" + R("(", d) + "x" + R(")", d) + ") { case (" + R("(", d) + "1" + R(")", d) + ") { } }"),
    "match": lambda d: W(R("match (x) { _ => { ", d) + "x = 1;" + R(" } }", d)),
    "match-arm-expr": lambda d: W("match (x) { _ => " + R("(", d) + "1" + R(")", d) + " }"),
    "match-arm-match": lambda d: W(R("match (x) { Some(v) => { ", d) + "x = 1;" + R(" } }", d)),
    "match-arms-wide": lambda d: W("match (x) { " + R("Some(v) => { x = 1; } ", d) + "}"),
    "match-scrutinee-expr": lambda d: W("match (" + R("(", d) + "x" + R(")", d) + ") { _ => { } }"),
    "statements-many": lambda d: W(R("x = 1; ", d)),
    "empty-statements": lambda d: W(R(";", d)),
    "decls-many": lambda d: W("".join("int v%d = 1; " % i for i in range(d))),
    "array-decl-init-nest": lambda d: W("int[2][2] m = " + R("[", d) + "1" + R("]", d) + ";"),
    "array-decl-size-expr": lambda d: W("int[" + R("1+", d) + "1] q;"),
    # ---- truncated / unbalanced
    "open-paren": lambda d: W("println(" + R("(", d)),
    "open-brace": lambda d: W(R("{", d)),
    "open-bracket": lambda d: W("x = " + R("[", d)),
    "open-call": lambda d: W("x = " + R("f(", d)),
    "open-index": lambda d: W("x = a" + R("[a", d)),
    "open-struct-lit": lambda d: W("S s = " + R("{v: ", d), PRE),
    "open-if": lambda d: W(R("if (x) { ", d)),
    "open-lambda": lambda d: W("int* q = " + R("int func(int v) { return ", d)),
    "close-paren": lambda d: W("println(1" + R(")", d) + ";"),
    "close-brace": lambda d: W(R("}", d)),
    # ---- lexer / preprocessor
    "comments": lambda d: W(R("/* c */ ", d) + "x = 1;"),
    "comment-long": lambda d: W("/* " + R("c ", d) + "*/ x = 1;"),
    "comment-nested-open": lambda d: W(R("/* ", d) + "x = 1;"),
    "comment-open": lambda d: W("x = 1; /* " + Rr("c", d)),
    "line-comments": lambda d: W(Rr("// c\n", d) + "x = 1;"),
    "line-comment-long": lambda d: W("// " + Rr("c", d) + "\nx = 1;"),
    "newlines": lambda d: W(Rr("\n", d) + "x = 1;"),
    "spaces": lambda d: W(Rr(" ", d) + "x = 1;"),
    "string-long": lambda d: W('println("' + Rr("a", d) + '");'),
    "string-open": lambda d: W('println("' + Rr("a", d)),
    "string-escapes": lambda d: W('println("' + Rr("\\n", d) + '");'),
    "char-escapes": lambda d: W("char c = " + R("'\\n' + ", d) + "'a';"),
    "ident-long": lambda d: W("int " + Rr("a", d) + " = 1;"),
    "number-long": lambda d: W("x = " + Rr("9", d) + ";"),
    "float-long": lambda d: W("double z = 1." + Rr("9", d) + ";"),
    "exp-long": lambda d: W("double z = 1e" + Rr("9", d) + ";"),
    "hex-long": lambda d: W("x = 0x" + Rr("F", d) + ";"),
    "dots": lambda d: W("x = x" + Rr(".", d) + ";"),
    "defines": lambda d: ("#define A0 1\n" + "".join("#define A%d A%d\n" % (i + 1, i) for i in range(d))
                          + "void main() { println(A%d); }\n" % d).encode(),
    "defines-wide": lambda d: ("".join("#define A%d %d\n" % (i, i) for i in range(d)) + "void main() { println(A0); }\n").encode(),
    "define-uses-wide": lambda d: ("#define A 1\nvoid main() { println(" + R("A + ", d) + "A); }\n").encode(),
    "define-selfref": lambda d: ("#define A A A\nvoid main() { int A = 1; " + R("println(A); ", min(d, 50)) + "}\n").encode(),
    "define-mutual": lambda d: ("#define A B B\n#define B A A\nvoid main() { println(" + R("A ", min(d, 50)) + "); }\n").encode(),
    "define-fn-nest": lambda d: ("#define F(x) (x + 1)\nvoid main() { println(" + Rr("F(", d) + "1" + Rr(")", d) + "); }\n").encode(),
    "define-fn-args-wide": lambda d: ("#define F(x) x\nvoid main() { println(F(" + Rr("1, ", d) + "1)); }\n").encode(),
    "define-fn-open": lambda d: ("#define F(x) x\nvoid main() { println(" + Rr("F(", d) + "); }\n").encode(),
    "define-long-body": lambda d: ("#define A " + Rr("1 + ", d) + "1\nvoid main() { println(A); }\n").encode(),
    "define-continuation": lambda d: ("#define A 1 \\\n" + Rr(" + 1 \\\n", d) + " + 1\nvoid main() { println(A); }\n").encode(),
    "ifdefs": lambda d: (R("#ifdef X\n", d) + R("#endif\n", d) + "void main() { }\n").encode(),
    "ifndefs-true": lambda d: (R("#ifndef X\n", d) + "void main() { }\n" + R("#endif\n", d)).encode(),
    "ifdefs-open": lambda d: (R("#ifndef X\n", d) + "void main() { }\n").encode(),
    "endifs": lambda d: ("void main() { }\n" + R("#endif\n", d)).encode(),
    "elifs": lambda d: ("#ifdef X\n" + R("#elif X\n", d) + "#else\n#endif\nvoid main() { }\n").encode(),
    "undefs": lambda d: (R("#define A 1\n#undef A\n", d) + "void main() { }\n").encode(),
}
for _n, _o in BINOPS:
    AMP["flat-" + _n] = (lambda o: lambda d: W("x = x" + R(" %s x" % o, d) + ";"))(_o)


# ------------------------------------------------------------------ executed amplifiers (mode "full"): evaluator / executor recursion
def X(body, pre="", decl=""):
    return (pre + "void main() {\n int x = 1; long y = 1; double z = 1.5; string s = \"a\"; bool b = true; int[3] a = [0,1,2]; int* p = &x;\n %s\n %s\n println(x);\n}\n" % (decl, body)).encode()


XPRE = ("struct S { int v; };\nstruct N { N* n; int v; };\nint f(int v) { return v; }\n")


def rec(ret, params, base, step, call, pre=""):
    return lambda d: (pre + "%s r(%s) { if (n <= 0) { %s } %s }\nvoid main() { %s; println(1); }\n" % (ret, params, base, step, call % d)).encode()


EXEC = {
    "x-recursion": rec("int", "int n", "return 0;", "return 1 + r(n - 1);", "println(r(%d))"),
    "x-recursion-void": rec("void", "int n", "return;", "r(n - 1);", "r(%d)"),
    "x-recursion-tail": rec("int", "int n", "return 0;", "return r(n - 1);", "println(r(%d))"),
    "x-recursion-ternary": rec("int", "int n", "return 0;", "return n == 1 ? 1 : 1 + r(n - 1);", "println(r(%d))"),
    "x-recursion-long": rec("long", "long n", "return 0;", "return 1 + r(n - 1);", "println(r(%d))"),
    "x-recursion-double": rec("double", "int n", "return 0.5;", "return 1.5 + r(n - 1);", "println(r(%d))"),
    "x-recursion-string": rec("string", "int n", 'return "";', 'return "a" + r(n - 1);', "string q = r(%d)"),
    "x-recursion-interp": rec("string", "int n", 'return "";', 'return "a{r(n - 1)}";', "string q = r(%d)"),
    "x-recursion-bool": rec("bool", "int n", "return true;", "return !r(n - 1);", "println(r(%d))"),
    "x-recursion-arg": rec("int", "int n", "return 0;", "return f(r(n - 1));", "println(r(%d))", XPRE),
    "x-recursion-index": rec("int", "int n", "return 0;", "int[2] q = [0, 0]; return q[r(n - 1)];", "println(r(%d))"),
    "x-recursion-local-array": rec("int", "int n", "return 0;", "int[64] q; q[0] = n; return q[0] - n + r(n - 1);", "println(r(%d))"),
    "x-recursion-struct": rec("S", "int n", "S q; q.v = 0; return q;", "S t = r(n - 1); t.v = t.v + 1; return t;", "S w = r(%d)", XPRE),
    "x-recursion-while": rec("int", "int n", "return 0;", "int k = 0; int t = 0; while (k < 1) { t = r(n - 1); k = k + 1; } return t;", "println(r(%d))"),
    "x-recursion-for": rec("int", "int n", "return 0;", "int t = 0; for (int k = 0; k < 1; k++) { t = r(n - 1); } return t;", "println(r(%d))"),
    "x-recursion-if-blocks": rec("int", "int n", "return 0;", "{ { if (n > 0) { return r(n - 1); } } } return 0;", "println(r(%d))"),
    "x-recursion-switch": rec("int", "int n", "return 0;", "switch (n) { case (0) { return 0; } else { return r(n - 1); } } return 0;", "println(r(%d))"),
    "x-recursion-defer": rec("int", "int n", "return 0;", "defer f(1); return r(n - 1);", "println(r(%d))", XPRE),
    "x-recursion-decl-init": rec("int", "int n", "return 0;", "int t = r(n - 1); return t;", "println(r(%d))"),
    "x-recursion-assign": rec("int", "int n", "return 0;", "int t; t = r(n - 1); return t;", "println(r(%d))"),
    "x-recursion-compound": rec("int", "int n", "return 0;", "int t = 1; t += r(n - 1); return t;", "println(r(%d))"),
    "x-recursion-println": rec("void", "int n", "return;", "println(n); r(n - 1);", "r(%d)") ,
    "x-recursion-and": rec("bool", "int n", "return true;", "return true && r(n - 1);", "println(r(%d))"),
    "x-recursion-try": rec("int", "int n", "return 0;", "return try r(n - 1);", "println(r(%d))"),
    "x-recursion-checked": rec("int", "int n", "return 0;", "return checked r(n - 1);", "println(r(%d))"),
    "x-recursion-cast": rec("int", "int n", "return 0;", "return (int)r(n - 1);", "println(r(%d))"),
    "x-recursion-unary": rec("int", "int n", "return 0;", "return -r(n - 1);", "println(r(%d))"),
    "x-recursion-infinite": lambda d: b"void r() { r(); }\nvoid main() { r(); println(1); }\n",
    "x-recursion-infinite-expr": lambda d: b"int r(int n) { return r(n + 1) + 1; }\nvoid main() { println(r(0)); }\n",
    "x-mutual": lambda d: ("int ea(int n) { if (n <= 0) { return 0; } return eb(n - 1); }\nint eb(int n) { if (n <= 0) { return 1; } return ea(n - 1); }\n"
                           "void main() { println(ea(%d)); }\n" % d).encode(),
    "x-recursion-funcptr": lambda d: ("int r(int n) { if (n <= 0) { return 0; } int* q = &r; return q(n - 1); }\nvoid main() { println(r(%d)); }\n" % d).encode(),
    "x-recursion-method": lambda d: ("struct C { int v; };\ninterface I { int m(int n); }\nimpl I for C { int m(int n) { if (n <= 0) { return 0; } return 1 + self.m(n - 1); } }\n"
                                     "void main() { C c; c.v = 1; println(c.m(%d)); }\n" % d).encode(),
    "x-recursion-generic": lambda d: ("T r<T>(T n) { if (n <= 0) { return n; } return r<T>(n - 1); }\nvoid main() { println(r<int>(%d)); }\n" % d).encode(),
    "x-recursion-async": lambda d: ("async int r(int n) { if (n <= 0) { return 0; } int t = await r(n - 1); return t + 1; }\nvoid main() { int q = await r(%d); println(q); }\n" % d).encode(),
    "x-recursion-lambda": lambda d: ("int r(int n) { if (n <= 0) { return 0; } int* q = int func(int k) { return r(k - 1); }; return q(n); }\nvoid main() { println(r(%d)); }\n" % d).encode(),
    "x-recursion-option": lambda d: ("Option<int> r(int n) { if (n <= 0) { return Option<int>::None; } return r(n - 1); }\nvoid main() { Option<int> q = r(%d); println(1); }\n" % d).encode(),
    "x-recursion-match": lambda d: ("int r(int n) { if (n <= 0) { return 0; } Option<int> o = Option<int>::Some(n); match (o) { Some(v) => { return r(v - 1); } None => { return 0; } } return 0; }\n"
                                    "void main() { println(r(%d)); }\n" % d).encode(),
    "x-ctor-recursion": lambda d: b"struct C { int v; };\nimpl C { self() { C inner; self.v = 1; } }\nvoid main() { C c; println(1); }\n",
    # AST depth: nested
    "x-paren": lambda d: X("x = " + R("(", d) + "1" + R(")", d) + ";"),
    "x-minus": lambda d: X("x = " + R("- ", d) + "x;"),
    "x-not": lambda d: X("b = " + R("!", d) + "b;"),
    "x-tilde": lambda d: X("x = " + R("~", d) + "x;"),
    "x-cast": lambda d: X("x = " + R("(int)", d) + "x;"),
    "x-try": lambda d: X("x = " + R("try ", d) + "1;"),
    "x-checked": lambda d: X("x = " + R("checked ", d) + "1;"),
    "x-ternary-right": lambda d: X("x = " + R("x == 0 ? 1 : ", d) + "0;"),
    "x-ternary-mid": lambda d: X("x = " + R("x == 1 ? ", d) + "1" + R(" : 0", d) + ";"),
    "x-binary-right": lambda d: X("x = " + R("1 + (", d) + "1" + R(")", d) + ";"),
    "x-call-nest": lambda d: X("x = " + R("f(", d) + "1" + R(")", d) + ";", XPRE),
    "x-index-nest": lambda d: X("x = " + R("a[", d) + "0" + R("]", d) + ";"),
    "x-assign-chain": lambda d: X(R("x = ", d) + "1;"),
    "x-array-lit-nest": lambda d: X("int[1] q = " + R("[", d) + "1" + R("]", d) + ";"),
    "x-struct-lit-nest": lambda d: X("S q = " + R("{v: ", d) + "1" + R("}", d) + ";", XPRE),
    "x-lambda-nest": lambda d: X("int* q = " + R("int func(int v) { return ", d) + "v" + R("; }", d) + ";"),
    "x-block": lambda d: X(R("{", d) + " x = 2; " + R("}", d)),
    "x-if": lambda d: X(R("if (x == 1) { ", d) + "x = 1;" + R(" }", d)),
    "x-if-else": lambda d: X(R("if (x == 0) { x = 1; } else { ", d) + "x = 1;" + R(" }", d)),
    "x-else-if": lambda d: X("if (x == 0) { x = 1; }" + R(" else if (x == 0) { x = 1; }", d) + " else { x = 1; }"),
    "x-while": lambda d: X("int k = 0; " + R("while (k == 0) { ", d) + "k = 1;" + R(" }", d)),
    "x-for": lambda d: X("int k = 0; " + R("for (k = 0; k < 1; k++) { ", d) + "x = 1;" + R(" }", d)),
    "x-switch": lambda d: X(R("switch (x) { case (1) { ", d) + "x = 1;" + R(" } }", d)),
    "x-defer-nest": lambda d: X(R("defer { ", d) + "x = 1;" + R(" }", d)),
    "x-interp-paren": lambda d: X('println("{' + "(" * d + "x" + ")" * d + '}");'),
    # AST depth: flat chains (parsed iteratively, evaluated recursively)
    "x-flat-string": lambda d: X('s = s' + R(' + "a"', d) + ";"),
    "x-flat-double": lambda d: X("z = z" + R(" + 0.5", d) + ";"),
    "x-flat-long": lambda d: X("y = y" + R(" + y", d) + ";"),
    "x-flat-bool-and": lambda d: X("b = b" + R(" && b", d) + ";"),
    "x-flat-bool-or": lambda d: X("b = !b" + R(" || !b", d) + ";"),
    "x-flat-cmp": lambda d: X("b = x" + R(" == 1", d) + ";"),
    "x-flat-in-call": lambda d: X("x = f(1" + R(" + 1", d) + ");", XPRE),
    "x-flat-in-index": lambda d: X("x = a[0" + R(" + 0", d) + "];"),
    "x-flat-in-cond": lambda d: X("if (x" + R(" + 0", d) + " == 1) { x = 1; }"),
    "x-flat-in-println": lambda d: X("println(1" + R(" + 1", d) + ");"),
    "x-flat-in-return": lambda d: ("int h() { return 1" + R(" + 1", d) + "; }\nvoid main() { println(h()); }\n").encode(),
    "x-flat-in-decl": lambda d: X("int q = 1" + R(" + 1", d) + ";"),
    "x-flat-in-global": lambda d: ("int gq = 1" + R(" + 1", d) + ";\nvoid main() { println(gq); }\n").encode(),
    "x-flat-in-array-lit": lambda d: X("int[1] q = [1" + R(" + 1", d) + "];"),
    "x-flat-in-interp": lambda d: X('println("{1' + " + 1" * d + '}");'),
    "x-flat-in-ternary": lambda d: X("x = x == 1 ? 1" + R(" + 1", d) + " : 0;"),
    "x-flat-compound": lambda d: X("x += 1" + R(" + 1", d) + ";"),
    "x-arrow-chain": lambda d: X("N node; node.v = 7; node.n = &node; x = node.n" + R("->n", d) + "->v;", XPRE),
    "x-call-chain-args": lambda d: X("x = f(1)" + R(" + f(1)", d) + ";", XPRE),
    "x-postfix-chain": lambda d: X(R("x++; ", d)),
    "x-statements-many": lambda d: X(R("x = 1; ", d)),
    "x-println-args-wide": lambda d: X("println(" + R("1, ", d) + "1);"),
    "x-array-lit-wide": lambda d: X("int[%d] q = [" % (d + 1) + R("1, ", d) + "1];"),
    "x-interp-many": lambda d: X('println("' + "{x}" * d + '");'),
    "x-loop-defer": lambda d: X("for (int k = 0; k < %d; k++) { defer x = x + 1; }" % d),
    "x-loop-alloc": lambda d: X("for (int k = 0; k < %d; k++) { int[100] q; q[0] = k; }" % d),
    "x-string-grow": lambda d: X('for (int k = 0; k < %d; k++) { s = s + "a"; }' % d),
}
for _n, _o in BINOPS:
    EXEC["x-flat-" + _n] = (lambda o: lambda d: X("x = x" + R(" %s x" % o, d) + ";"))(_o)
AMP.update(EXEC)


PARSE_KINDS = [k for k in AMP if k not in EXEC]
EXEC_KINDS = list(EXEC)
DEPTHS = [1000, 10000, 100000]
# every look-ahead / backtracking point of the parser copies the lexer INCLUDING the source text (finding C10-lexer-copy-quadratic), so
# the cost of an amplified input is (levels reached) x (bytes): the input size is capped (the depth is scaled down, never below 10^4)
CAP_BYTES = {"asan": 150000, "plain": 400000}
# known findings of the unchanged tree: the main stream stays below the depth at which the recorded defect shows
# (per kind and build; the finding's own replay runs the input that trips it)
AVOID_DEPTH = {
    "comments": {"asan": 10000, "plain": 40000},           # C10-comment-run-stack-overflow
    "line-comments": {"asan": 10000, "plain": 40000},
    "ternary-open": {"asan": 150, "plain": 300},            # C10-ternary-reparse-superlinear
    "ternary-mid": {"asan": 1000, "plain": 10000},          # C10-ternary-swallows-nesting-error
    "x-ternary-mid": {"asan": 1000, "plain": 5000},
    "struct-self-nest": {"asan": 1000, "plain": 1000},      # C10-struct-chain-superlinear
    "struct-diamond": {"asan": 500, "plain": 1000},         # C10-struct-chain-superlinear (the diamond itself is linear per check since 08b0ce5)
    "enum-members-wide": {"asan": 10000, "plain": 30000},   # C10-lexer-copy-quadratic (and a linear member search per member)
    "switch-cases-wide": {"asan": 5000, "plain": 20000},
    "match-arms-wide": {"asan": 5000, "plain": 20000},
    "lt-chain": {"asan": 15000, "plain": 50000},            # linear, but 256 tokens of look-ahead per '<'
    "lt-gt-chain": {"asan": 15000, "plain": 50000},
    "flat-lt": {"asan": 15000, "plain": 50000},
    "x-flat-lt": {"asan": 15000, "plain": 50000},
    "x-string-grow": {"asan": 20000, "plain": 50000},       # the sanitised build keeps every freed string (quarantine)
    "cast-generic": {"asan": 5000, "plain": 15000},         # C10-lexer-copy-quadratic: two lexer copies + a type instantiation per cast
    "cast-long-int": {"plain": 60000},                      # C10-lexer-copy-quadratic: a lexer copy (= the whole source) per open cast probe; at the
    "cast": {"plain": 70000},                               # size cap (400 KB) the plain build reaches the 3 GiB address-space limit of the campaign
    "cast-paren": {"plain": 80000},                         # BEFORE the stack guard: bad_alloc (exit 1) or, now and then, SIGSEGV in the failing allocation
    "interp": {"asan": 20000, "plain": 50000},              # C10-source-line-copy-quadratic: a string literal cannot be broken into lines
    "interp-fmt": {"asan": 15000, "plain": 40000},
    "x-interp-many": {"asan": 20000, "plain": 50000},
    "x-ternary-right": {"plain": 5000},                     # evaluation below the guard is quadratic (type inference re-walks the chain)
    "statements-many": {"asan": 15000},
    "x-statements-many": {"asan": 15000},
    "x-postfix-chain": {"asan": 15000},
}
PARSE_ONLY_EXEC = {"x-assign-chain"}                        # C10-assign-expr-null-deref: `x = y = 1;` crashes the evaluator


def amp(kind, d, one_line=False):
    """input of an amplifier (NOT thread safe: inputs are built before the pool starts)"""
    ONE_LINE[0] = one_line
    try:
        return AMP[kind](d)
    finally:
        ONE_LINE[0] = False


def amp_capped(kind, depth, build, scale=1.0):
    """(actual depth, bytes): depth limited by the avoidance table and by the size cap of the build (scaled down on a slow machine)"""
    d = min(depth, AVOID_DEPTH.get(kind, {}).get(build, depth))
    if d > 10000 and scale < 1.0:
        d = max(10000, int(d * scale))
    data = amp(kind, d)
    cap = int(CAP_BYTES[build] * scale)
    if len(data) > cap and d > 1000:
        d = max(1000, int(d * cap / len(data)))
        data = amp(kind, d)
    return d, data


def amp_matrix(tier, seed):
    """[(kind, mode, build, depth)] of the deep streams of this run"""
    quick = tier == "quick"
    out = []
    for i, k in enumerate(PARSE_KINDS + EXEC_KINDS):
        mode = "parse" if (k not in EXEC or k in PARSE_ONLY_EXEC) else "full"
        if not quick:
            out += [(k, mode, b, dp) for b in ("asan", "plain") for dp in (1000, 3000, 10000, 30000, 100000)]
            continue
        # quick tier: 10^3 and 10^5 on the sanitised build, 10^5 on the plain build, 10^4 on one of the two (alternating with the seed)
        flat = k.startswith("x-flat") or k in ("x-call-chain-args", "x-ternary-right", "x-ternary-mid")   # evaluating a flat chain is quadratic below the guard
        out += [(k, mode, "asan", 1000), (k, mode, "asan", 100000), (k, mode, "plain", 100000)]
        mid_build = "asan" if (i + seed) % 2 == 0 else "plain"
        if not (flat and mid_build == "plain"):
            out.append((k, mode, mid_build, 10000))
    return out


# a few kinds under other stack-size limits (the guard's budget is derived from RLIMIT_STACK)
STACK_KINDS = ["paren", "try", "block", "generic-type", "if-nobrace", "call", "x-recursion", "x-flat-add", "x-minus", "lambda"]
STACK_LIMITS = [2 << 20, 64 << 20]


# ------------------------------------------------------------------ executed edge cases of integer arithmetic and allocation
EDGE_VALS = ["0", "1", "2", "-1", "-2", "7", "31", "32", "33", "63", "64", "65", "127", "128", "255", "256", "1000", "32767", "32768",
             "65535", "65536", "2147483647", "2147483648", "-2147483648", "4294967296", "4611686018427387904",
             "9223372036854775807", "-9223372036854775807", "(0 - 9223372036854775807 - 1)", "-64", "-63"]
EDGE_OPS = ["+", "-", "*", "/", "%", "<<", ">>", "&", "|", "^"]
EDGE_FORMS = [
    "void main() {{ {t} a = {a}; {t} b = {b}; println(a {op} b); }}\n",
    "void main() {{ {t} a = {a}; {t} b = {b}; {t} c = a {op} b; println(c); }}\n",
    "void main() {{ {t} a = {a}; {t} b = {b}; a {op}= b; println(a); }}\n",
    "void main() {{ println({a} {op} {b}); }}\n",
    "void main() {{ {t} a = {a}; println(a {op} {b}); }}\n",
    "void main() {{ {t} b = {b}; println({a} {op} b); }}\n",
    "void main() {{ {t} a = {a}; {t} b = {b}; if ((a {op} b) == 0) {{ println(0); }} else {{ println(1); }} }}\n",
    "void main() {{ {t}[2] q = [{a}, {b}]; println(q[0] {op} q[1]); }}\n",
    "{t} h({t} a, {t} b) {{ return a {op} b; }}\nvoid main() {{ println(h({a}, {b})); }}\n",
    "void main() {{ {t} a = {a}; println(-a); println(~a); a++; println(a); a--; a--; println(a); }}\n",
    "void main() {{ {t} a = {a}; {t} b = {b}; println(-(a {op} b)); }}\n",
]
EDGE_TYPES = ["long", "int", "short", "tiny", "unsigned int", "unsigned long"]
ALLOC_EDGE = [
    "void main() { int[65536][65536] q; println(1); }\n",
    "void main() { int[46341][46341] q; println(1); }\n",
    "void main() { int[1024][1024][1024] q; println(1); }\n",
    "void main() { int[2048][1024][1024] q; println(1); }\n",
    "void main() { long[65536][32768] q; println(1); }\n",
    "void main() { int[2147483647] q; println(1); }\n",
    "void main() { int[2147483648] q; println(1); }\n",
    "void main() { int[4294967296] q; println(1); }\n",
    "void main() { int[4294967297] q; println(1); }\n",
    "void main() { int[9223372036854775807] q; println(1); }\n",
    "void main() { int[1000000000] q; println(1); }\n",
    "void main() { string[100000000] q; println(1); }\n",
    "void main() { int[0] q; println(1); }\n",
    "void main() { int[-1] q; println(1); }\n",
    "void main() { int[3][0] q; println(1); }\n",
    "void main() { int[0][3] q; q[0][0] = 1; println(1); }\n",
    "void main() { int[2][2147483647] q; println(1); }\n",
    "void main() { int[3][3][3][3][3][3][3][3][3][3][3][3][3][3][3][3][3][3][3][3][3] q; println(1); }\n",
    "const int N = 65536;\nvoid main() { int[N][N] q; println(1); }\n",
    "const int N = -3;\nvoid main() { int[N] q; println(1); }\n",
    "void main() { int[3] a = [1, 2, 3]; println(a[3]); }\n",
    "void main() { int[3] a = [1, 2, 3]; println(a[-1]); }\n",
    "void main() { int[3] a = [1, 2, 3]; println(a[2147483647]); }\n",
    "void main() { int[3] a = [1, 2, 3]; println(a[2147483648]); }\n",
    "void main() { int[3] a = [1, 2, 3]; println(a[4294967296]); }\n",
    "void main() { int[3] a = [1, 2, 3]; println(a[9223372036854775807]); }\n",
    "void main() { int[3] a = [1, 2, 3]; long i = 0 - 9223372036854775807 - 1; println(a[i]); }\n",
    "void main() { int[3] a = [1, 2, 3]; a[3] = 1; println(1); }\n",
    "void main() { int[3] a = [1, 2, 3]; a[-1] = 1; println(1); }\n",
    "void main() { int[3] a = [1, 2, 3]; a[4294967296] = 1; println(a[0]); }\n",
    "void main() { int[2][2] m = [[1, 2], [3, 4]]; println(m[1][2]); }\n",
    "void main() { int[2][2] m = [[1, 2], [3, 4]]; println(m[2][0]); }\n",
    "void main() { int[2][2] m = [[1, 2], [3, 4]]; println(m[0][-1]); }\n",
    "void main() { int[2][2] m = [[1, 2], [3, 4]]; println(m[-1][0]); }\n",
    "void main() { int[2][2] m = [[1, 2], [3, 4]]; m[1][2] = 5; println(m[1][1]); }\n",
    "void main() { int[2][2] m = [[1, 2], [3, 4]]; m[4294967296][0] = 5; println(m[0][0]); }\n",
    "void main() { int[2][3][2] m; m[1][2][2] = 1; println(1); }\n",
    "void main() { int[2][3][2] m; println(m[1][3][0]); }\n",
    "void main() { int[3] a = [1, 2, 3, 4]; println(1); }\n",
    "void main() { int[2][2] m = [[1, 2, 3], [4, 5, 6]]; println(1); }\n",
    "void main() { int[2][2] m = [[1, 2], [3, 4], [5, 6]]; println(1); }\n",
    "void main() { string s = \"abc\"; println(s[3]); }\n",
    "void main() { string s = \"abc\"; println(s[-1]); }\n",
    "void main() { string s = \"abc\"; println(s[4294967296]); }\n",
    "void main() { string s = \"\"; println(s[0]); }\n",
    "void main() { char c = 'a'; int x = c + 2147483647; println(x); }\n",
    "void main() { int x = 2147483647; x++; println(x); }\n",
    # since 84c6f60 / b283959 (former findings C10-incdec-long-overflow-ub, C10-global- / C10-member-array-dims-int-overflow)
    "void main() { long x = 9223372036854775807; x++; println(x); }\n",
    "void main() { long x = 0 - 9223372036854775807 - 1; x--; println(x); }\n",
    "void main() { long x = 9223372036854775807; ++x; println(x); long y = 0 - 9223372036854775807 - 1; --y; println(y); }\n",
    "void main() { long[2] q = [9223372036854775807, 0 - 9223372036854775807 - 1]; q[0]++; q[1]--; println(q[0]); println(q[1]); }\n",
    "struct S { long v; };\nvoid main() { S s; s.v = 9223372036854775807; s.v++; println(s.v); }\n",
    "void main() { unsigned long x = 0; x--; println(x); }\n",
    "int[65536][65536] gq;\nvoid main() { println(1); }\n",
    "int[46341][46341] gq;\nvoid main() { println(1); }\n",
    "long[65536][32768] gq;\nvoid main() { println(1); }\n",
    "const int N = 65536;\nint[N][N] gq;\nvoid main() { println(1); }\n",
    "struct M { int[65536][65536] v; };\nvoid main() { M m; println(1); }\n",
    "struct M { int[1024][1024][1024] v; int w; };\nvoid main() { M m; println(1); }\n",
    "struct M { int[65536][65536] v; };\nM gm;\nvoid main() { println(1); }\n",
    "void main() { long x = 0 - 9223372036854775807 - 1; println(-x); }\n",
    "void main() { long x = 0 - 9223372036854775807 - 1; println(x / -1); }\n",
    "void main() { long x = 0 - 9223372036854775807 - 1; println(x % -1); }\n",
    "void main() { long x = 0 - 9223372036854775807 - 1; long y = -1; x /= y; println(x); }\n",
    "void main() { int x = 1; println(x / 0); }\n",
    "void main() { int x = 1; println(x % 0); }\n",
    "void main() { double z = 1.0; println(z / 0.0); }\n",
    "void main() { double z = 1e308; println(z * 10.0); int k = z; println(k); }\n",
    "void main() { double z = 1e308; long k = (long)z; println(k); }\n",
    "void main() { float z = 3.0e38; int k = (int)z; println(k); }\n",
    "void main() { double z = 0.0; double w = z / z; int k = (int)w; println(k); }\n",
    "void main() { println(99999999999999999999); }\n",
    "void main() { long x = 99999999999999999999999999; println(x); }\n",
    "void main() { println(1e999); }\n",
    "void main() { println(0x7FFFFFFFFFFFFFFF + 1); }\n",
    "void main() { println(0xFFFFFFFFFFFFFFFFF); }\n",
]


def edge_case(rng):
    form = rng.choice(EDGE_FORMS)
    t = rng.choice(EDGE_TYPES) if rng.random() < 0.5 else "long"
    a, b = rng.choice(EDGE_VALS), rng.choice(EDGE_VALS)      # ++ / -- at the ends of the 64-bit range included (fixed by 84c6f60)
    return form.format(t=t, a=a, b=b, op=rng.choice(EDGE_OPS))


# ------------------------------------------------------------------ lexer correspondence (leaf driver vs extracted model)
def token_enum():
    """TokenType names by numeric value, from the CURRENT recursive_lexer.h."""
    txt = open(os.path.join(common.REPO, "src/frontend/recursive_parser/recursive_lexer.h")).read()
    body = re.search(r"enum\s+class\s+TokenType\s*\{(.*?)\};", txt, re.S).group(1)
    body = re.sub(r"//[^\n]*", "", body)
    names, val, byname = {}, 0, {}
    for ent in body.split(","):
        ent = ent.strip()
        if not ent:
            continue
        if "=" in ent:
            n, v = [x.strip() for x in ent.split("=")]
            v = byname[v] if v in byname else int(v, 0)
            byname[n] = v
            names.setdefault(v, n)
            val = v + 1
        else:
            byname[ent] = val
            names.setdefault(val, ent)
            val += 1
    return names


def _blocks(text):
    res, cur = [], []
    for l in text.split("\n"):
        if l == "END":
            res.append(cur)
            cur = []
        elif l:
            cur.append(l)
    return res


def _leaf_alive(leaf, name, sources):
    """the leaf cache is shared and pruned by age (directories older than an hour when more than 30 exist - dozens of mutant runs
    create that many): keep the directory in use recent, and build the driver again if another run removed it meanwhile"""
    try:
        os.utime(os.path.dirname(leaf), None)
    except OSError:
        pass
    if not os.path.exists(leaf):
        leaf = common.build_leaf(name, sources)
    return leaf


def lex_both(inputs, leaf, names):
    """-> list of (model_tokens, impl_tokens); tokens are 'NAME hexvalue' strings (impl: 'LOOP' / 'HANG' markers)."""
    leaf = _leaf_alive(leaf, "c10_lexdump", ["src/frontend/recursive_parser/recursive_lexer.cpp"])
    data = ("\n".join(x.hex() for x in inputs) + "\n").encode()
    rc, mo, me = common.sh([common.model_bin(PROP), "lex"], input=data, timeout=900)
    if rc != 0:
        raise RuntimeError("c10_model lex failed rc=%d: %s" % (rc, me[-400:]))
    mb = [[l[2:] for l in b if l.startswith("T ")] for b in _blocks(mo)]
    rc, io, ie = common.sh([leaf], input=data, timeout=300)
    ib = _blocks(io)
    if rc != 0 or len(ib) != len(inputs):
        # the repository lexer hangs or crashes on some input: isolate it case by case
        ib = []
        for x in inputs:
            rc1, o1, e1 = common.sh([leaf, "one"], input=(x.hex() + "\n").encode(), timeout=10)
            b = _blocks(o1)
            ib.append(b[0] if (rc1 == 0 and b) else ["HANG rc=%d" % rc1])
    out = []
    for m, i in zip(mb, ib):
        conv = []
        for l in i:
            if l.startswith("T "):
                p = l.split(" ")
                conv.append("%s %s" % (names.get(int(p[1]), "TOK#" + p[1]), p[2] if len(p) > 2 else ""))
            else:
                conv.append(l)
        out.append(([x if " " in x else x + " " for x in m], conv))
    if len(mb) != len(inputs):
        raise RuntimeError("c10_model lex returned %d blocks for %d inputs" % (len(mb), len(inputs)))
    return out


LEX_ALPHA = [b"a", b"_", b"9", b"0", b".", b"e", b"E", b"+", b"-", b"f", b"q", b'"', b"'", b"\\", b"{", b"}", b"/", b"*", b"\n",
             b" ", b"<", b">", b"=", b"&", b"|", b":", b"!", b"^", b"%", b"~", b"?", b";", b"\x00", b"\xff", b"n", b"(", b"#", b"@"]


def lexer_inputs(seed, tier, files):
    """strings aimed at the case splits of nextToken / makeNumber / makeString / makeChar / comments"""
    ins, origin = [], []
    for a in LEX_ALPHA:                                   # exhaustive: all strings of length <= 2 over 38 bytes
        ins.append(a); origin.append("exh1")
        for b in LEX_ALPHA:
            ins.append(a + b); origin.append("exh2")
    small = [b"9", b".", b"e", b"+", b"f", b"a", b'"', b"'", b"\\", b"{", b"/", b"*", b"\n", b"<", b"=", b">"]
    for a in small:                                       # exhaustive: length 3 (and 4 in the thorough tier) over 16 bytes
        for b in small:
            for c in small:
                ins.append(a + b + c); origin.append("exh3")
                if tier != "quick":
                    for d in small:
                        ins.append(a + b + c + d); origin.append("exh4")
    n = 1000 if tier == "quick" else 20000
    pieces = [b"12", b"3.5", b"1e5", b"1e+", b"2E-3f", b"7.", b".5", b"0x1F", b"abc", b"_x1", b"_", b"main", b"println", b"Result",
              b'"s"', b'"a{x}b"', b'"{{x"', b'"\\"{x}"', b'"unterminated', b"'c'", b"'\\n'", b"'\\q'", b"'ab'", b"''", b"'",
              b"// c\n", b"// c", b"/* c */", b"/* u", b"/*/", b"*/", b"<<=", b">>=", b"...", b"..", b"->", b"=>", b"::", b"&&", b"||",
              b"++", b"--", b"+=", b"!=", b"==", b"<=", b">=", b" ", b"\n", b"\t", b"\r", b"\x00", b"\xe3\x81\x82", b"@", b"#", b"$", b"`", b"\\"]
    for k in range(n):
        rng = rng_for(seed, "c10-lex", k)
        r = rng.random()
        if r < 0.6:
            s = b"".join(rng.choice(pieces) for _ in range(rng.randint(1, 12)))
        elif r < 0.8:
            s = bytes(rng.randrange(256) for _ in range(rng.randint(0, 64)))
        else:
            f = rng.choice(files)
            d = open(f, "rb").read()
            o = rng.randrange(max(1, len(d)))
            s = d[o:o + rng.randint(1, 300)]
        ins.append(s); origin.append("random")
    return ins, origin


# ------------------------------------------------------------------ front-end verdicts: model vs main
NAMES = ["A", "B", "C", "DEBUG"]


def directive_file(rng):
    """directive-only file (text lines are comments / blank) + -D arguments; bodies are single tokens (no growth)"""
    lines, depth = [], 0
    for _ in range(rng.randint(1, 14)):
        r = rng.random()
        nm = rng.choice(NAMES)
        if r < 0.22:
            lines.append(rng.choice(["#ifdef ", "#ifndef "]) + nm); depth += 1
        elif r < 0.32 and (depth > 0 or rng.random() < 0.15):
            lines.append(rng.choice(["#elif ", "#elseif "]) + nm)
        elif r < 0.42 and (depth > 0 or rng.random() < 0.15):
            lines.append("#else")
        elif r < 0.58 and (depth > 0 or rng.random() < 0.15):
            lines.append("#endif"); depth = max(0, depth - 1)
        elif r < 0.72:
            lines.append("#define %s%s" % (nm, rng.choice(["", " 1", " %d" % rng.randint(0, 99), " " + rng.choice(NAMES), ' "s"'])))
        elif r < 0.78:
            lines.append("#undef " + nm)
        elif r < 0.84:
            lines.append(rng.choice(["#foo", "#", "#ifdef", "#define", "#undef", "#error boom", "#warning w", "#include <x>",
                                     "  #  ifdef   A  ", "#define F(x) x", "#define G(x", "#pragma once", "#define (x) 1", "#else junk"]))
        else:
            lines.append(rng.choice(["", "// t %s %s" % (rng.choice(NAMES), rng.choice(NAMES)), "   ", "// __LINE__ __FILE__"]))
    if rng.random() < 0.8:
        lines += ["#endif"] * depth
    args = []
    for nm in NAMES:
        if rng.random() < 0.25:
            args.append(nm + rng.choice(["", "=1", "=%s" % rng.choice(NAMES), "="]))
    text = "\n".join(lines) + rng.choice(["\n", "", "\n\n"])
    return text, args


E_IDS = ["a", "b", "c", "f", "g", "x"]
E_BIN = ["||", "&&", "|", "^", "&", "==", "!=", "<", "<=", ">", ">=", "<<", ">>", "+", "-", "*", "/", "%"]
E_ASG = ["=", "+=", "-=", "*=", "/=", "%=", "&=", "|=", "^=", "<<=", ">>="]
E_PREFIX = ["!", "-", "~", "*", "&", "try", "checked", "await"]      # the eight self-recursive prefix productions of parseUnary
E_ALL = E_IDS + ["0", "1", "7", "42"] + E_BIN + E_ASG + ["!", "~", "++", "--", "(", ")", "[", "]", ".", "->", "?", ":", ",",
                                                          "try", "checked", "await"]


def gen_expr(rng, depth):
    """tokens of a (mostly) well-formed expression of the modelled fragment"""
    r = rng.random()
    if depth <= 0 or r < 0.22:
        return [rng.choice(E_IDS + ["0", "1", "7", "42"])]
    if r < 0.50:
        return gen_expr(rng, depth - 1) + [rng.choice(E_BIN)] + gen_expr(rng, depth - 1)
    if r < 0.58:
        return [rng.choice(E_PREFIX + ["++", "--"])] + gen_expr(rng, depth - 1)
    if r < 0.66:
        return ["("] + gen_expr(rng, depth - 1) + [")"]
    if r < 0.72:
        return gen_expr(rng, depth - 1) + ["?"] + gen_expr(rng, depth - 1) + [":"] + gen_expr(rng, depth - 1)
    if r < 0.78:
        args = []
        for i in range(rng.randint(0, 3)):
            if i:
                args.append(",")
            args += gen_expr(rng, depth - 1)
        return [rng.choice(["f", "g"]), "("] + args + [")"]
    if r < 0.84:
        return [rng.choice(E_IDS), "["] + gen_expr(rng, depth - 1) + ["]"]
    if r < 0.88:
        return [rng.choice(E_IDS), rng.choice([".", "->"]), rng.choice(E_IDS)]
    if r < 0.92:
        return [rng.choice(E_IDS), rng.choice(["++", "--"])]
    if r < 0.97:
        return [rng.choice(E_IDS), rng.choice(E_ASG)] + gen_expr(rng, depth - 1)
    return gen_expr(rng, depth - 1) + ["?"]


def unmodelled_expr(toks):
    """shapes ExprParse.v answers Err for because the construct is outside the model (method call, chained call,
    array literal = a '[' in operand position)"""
    for i, t in enumerate(toks):
        if t == "[" and (i == 0 or toks[i - 1] in ("try", "checked", "await")     # a prefix KEYWORD is no operand: `await [ ]` is an array literal
                         or not (toks[i - 1][0].isalnum() or toks[i - 1][0] == "_" or toks[i - 1] in (")", "]"))):
            return True
    for i in range(len(toks) - 1):
        if toks[i] in (")", "]") and toks[i + 1] == "(":
            return True
        if toks[i] in (".", "->") and i + 2 < len(toks) and toks[i + 2] == "(":
            return True
    return False


def expr_case(rng):
    toks = gen_expr(rng, rng.randint(1, 4))
    kind = "valid"
    r0 = rng.random()
    if r0 < 0.06:
        # long chains of the prefix productions / parentheses: the model (fuel 15 per token) accepts them, so must the parser
        n = rng.choice([5, 30, 120, 400, 1000])
        kind = "chain"
        if rng.random() < 0.7:
            pre = [rng.choice(E_PREFIX)] if rng.random() < 0.4 else E_PREFIX
            toks = [rng.choice(pre) for _ in range(n)] + toks
        else:
            n = min(n, 400)
            toks = ["("] * n + toks + [")"] * n
    elif r0 < 0.58:
        kind = "mutated"
        for _ in range(rng.randint(1, 2)):
            r = rng.random()
            i = rng.randrange(len(toks))
            if r < 0.3 and len(toks) > 1:
                del toks[i]
            elif r < 0.55:
                toks.insert(i, rng.choice(E_ALL))
            elif r < 0.75:
                toks[i] = rng.choice(E_ALL)
            elif r < 0.9:
                j = rng.randrange(len(toks))
                toks[i], toks[j] = toks[j], toks[i]
            else:
                toks.insert(i, toks[i])
    sep = " " if rng.random() < 0.8 else ""
    if sep == "":
        # compact spelling only where adjacent lexemes cannot merge
        text = ""
        for t in toks:
            if text and (text[-1].isalnum() or text[-1] == "_") and (t[0].isalnum() or t[0] == "_"):
                text += " "
            elif text and text[-1] in "+-<>=&|!*/%^.?:" and t[0] in "+-<>=&|*/.:":
                text += " "
            text += t
    else:
        text = " ".join(toks)
    return kind, toks, text


def model_lines(sub, lines):
    rc, o, e = common.sh([common.model_bin(PROP), sub], input=("\n".join(lines) + "\n").encode(), timeout=900)
    if rc != 0:
        raise RuntimeError("c10_model %s failed rc=%d: %s" % (sub, rc, e[-400:]))
    res = o.split("\n")
    if res and res[-1] == "":
        res.pop()
    if len(res) != len(lines):
        raise RuntimeError("c10_model %s: %d answers for %d cases" % (sub, len(res), len(lines)))
    return res


# ------------------------------------------------------------------ declaration-level tables: typedef_map_ & co
# (leaf driver harness/cpp/c10_typedefs.cpp = the repository's parser, vs the extracted model coq/C10/Typedefs.v)
TD_POOL = ["A", "B", "C", "D", "E", "T", "U"]
TD_PRIMS = ["int", "long", "short", "tiny", "bool", "string", "char"]
TD_BUILTIN = {"SD": {"Future"}, "ED": {"Option", "Result", "RuntimeError"}, "UD": set(), "ID": set()}   # registered by the parser's constructor
N_TD_QUICK, N_TD_THOROUGH = 1500, 30000
N_DECL_QUICK, N_DECL_THOROUGH = 140, 3000


def td_leaf_sources():
    """every parser source of the CURRENT tree + what they link against (no interpreter)"""
    import glob
    rel = lambda p: os.path.relpath(p, common.REPO)
    src = [rel(p) for p in sorted(glob.glob(os.path.join(common.REPO, "src/frontend/recursive_parser/*.cpp")))]
    src += [rel(p) for p in sorted(glob.glob(os.path.join(common.REPO, "src/frontend/recursive_parser/parsers/*.cpp")))]
    src += [rel(p) for p in sorted(glob.glob(os.path.join(common.REPO, "src/common/*.cpp")))]
    src += ["src/backend/interpreter/core/error_handler.cpp", "src/platform/native/native_stdio_output.cpp",
            "src/platform/baremetal/baremetal_uart_output.cpp"]
    return src


def td_decl_text(d):
    k = d[0]
    if k == "tstruct":
        return "typedef struct %s { int x; } %s;" % (d[1], d[2])
    if k == "tanon":
        return "typedef struct { int x; } %s;" % d[1]
    if k == "tenum":
        return "typedef enum { P%s, Q%s } %s;" % (d[1], d[1], d[1])
    if k == "tprim":
        return "typedef %s %s;" % (d[1], d[2])
    if k == "talias":
        return "typedef %s %s;" % (d[1], d[2])
    if k == "teq":
        return "typedef %s = %s;" % (d[1], d[2])
    if k == "tunion":
        return "typedef %s = int | string;" % d[1]
    if k == "struct":
        return "struct %s { int x; };" % d[1]
    if k == "fwd":
        return "struct %s;" % d[1]
    if k == "enum":
        return "enum %s { R%s, S%s };" % (d[1], d[1], d[1])
    if k == "fptr":
        return "typedef int (*%s)(int);" % d[1]
    if k == "iface":
        return "interface %s { int m(); };" % d[1]
    if k == "gvar":
        return "%s gv%d;" % (d[1], d[2])
    raise ValueError(k)


_TD_TAG = {"tstruct": "ts", "tanon": "ta", "tenum": "te", "tprim": "tp", "talias": "tl", "teq": "tq", "tunion": "tu", "struct": "st", "fwd": "st",
           "enum": "en", "fptr": "fp", "iface": "if", "gvar": "gv"}


def td_text(prog):
    return "\n".join(td_decl_text(d) for d in prog) + "\n"


def td_line(prog, queries):
    """the same declarations in the protocol of `c10_model typedefs`"""
    ws = []
    for d in prog:
        args = [str(a) for a in d[1:]] if d[0] != "gvar" else [d[1]]
        ws.append(":".join([_TD_TAG[d[0]]] + args))
    return " ".join(ws) + " | " + ",".join(queries)


def td_random_decl(rng, pool, i):
    n = lambda: rng.choice(pool)
    r = rng.random()
    if r < 0.30:
        return ("tstruct", n(), n())
    if r < 0.36:
        return ("tanon", n())
    if r < 0.42:
        return ("tenum", n())
    if r < 0.50:
        return ("tprim", rng.choice(TD_PRIMS + ["float", "double", "void"]) + "".join("[%d]" % rng.randint(1, 3) for _ in range(rng.choice([0, 0, 1, 2]))), n())
    if r < 0.70:
        return ("talias", n(), n())
    if r < 0.74:
        return ("teq", n(), rng.choice(TD_PRIMS))
    if r < 0.78:
        return ("tunion", n())
    if r < 0.84:
        return ("struct", n())
    if r < 0.86:
        return ("fwd", n())
    if r < 0.90:
        return ("enum", n())
    if r < 0.93:
        return ("fptr", n())
    if r < 0.95:
        return ("iface", n())
    return ("gvar", n(), i)


def td_case(rng):
    """(query names, declarations).  Half of the cases are DIRECTED at the case split of the chain walk: a cycle of length 1..4 in
    typedef_map_ (only  typedef struct TAG {..} ALIAS;  stores ALIAS -> TAG unflattened, so the cycle is made of those, in any order),
    entered from outside by one or two tails (an unflattened  typedef struct <cycle name> {..} TAIL;  or a flattened
    typedef <cycle name> TAIL;  taken at a random moment, possibly before the cycle closes), noise declarations that re-declare
    names in between, and uses (global variable, typedef base) of cycle and tail names.  The rest: free sequences over a small pool."""
    if rng.random() < 0.5:
        L = rng.choice([1, 2, 2, 3, 3, 4])
        names = rng.sample(TD_POOL, min(len(TD_POOL), L + rng.randint(1, 3)))
        cyc, rest = names[:L], names[L:]
        edges = [("tstruct", cyc[(i + 1) % L], cyc[i]) for i in range(L)]
        rng.shuffle(edges)
        prog = list(edges)
        prev = None
        for t in rest[:rng.randint(1, 2)]:
            target = prev if (prev and rng.random() < 0.4) else rng.choice(cyc)
            tail = ("tstruct", target, t) if rng.random() < 0.55 else ("talias", target, t)
            prog.insert(rng.randint(0, len(prog)), tail)
            prev = t
        for i in range(rng.choice([0, 0, 1, 2, 3])):
            prog.insert(rng.randint(0, len(prog)), td_random_decl(rng, names, 10 + i))
        for i in range(rng.choice([0, 1, 1, 2])):
            nm = rng.choice(names)
            prog.append(("gvar", nm, 20 + i) if rng.random() < 0.5 else ("talias", nm, rng.choice(names + ["Z"])))
        return names + (["Z"] if any(d[0] == "talias" and d[2] == "Z" for d in prog) else []), prog
    pool = rng.sample(TD_POOL, rng.randint(2, 5))
    prog = [td_random_decl(rng, pool, i) for i in range(rng.randint(1, 9))]
    if rng.random() < 0.2:
        # directed at the interpreter's own table walk (TypeManager::resolve_typedef, fix 1bf82fd): a plain typedef whose FLATTENED base is
        # its own alias -  typedef S S;  for a struct / enum S, or  typedef A B; typedef B A;  for two structs - and a use of the name
        a, b = rng.sample(pool, 2)
        form = rng.random()
        extra = ([("struct" if rng.random() < 0.6 else "enum", a), ("talias", a, a), ("gvar", a, 30)] if form < 0.5 else
                 [("struct", a), ("struct", b), ("talias", a, b), ("talias", b, a), ("gvar", a, 30), ("gvar", b, 31)])
        k = rng.randint(0, len(prog))
        prog = prog[:k] + extra + prog[k:]
    return pool, prog


def td_exhaustive(maxlen):
    """all declaration sequences of length <= maxlen over 30 declarations on three names"""
    names = ["A", "B", "C"]
    alpha = ([("tstruct", a, b) for a in names for b in names] + [("talias", a, b) for a in names for b in names]
             + [("tanon", a) for a in names] + [("tprim", "int", a) for a in names] + [("struct", a) for a in names] + [("tenum", a) for a in names])
    out, level = [], [[]]
    for _ in range(maxlen):
        level = [p + [d] for p in level for d in alpha]
        out += level
    return [(names, p) for p in out]


def _td_blocks(text):
    res, cur = [], {}
    for l in text.split("\n"):
        if l == "END":
            res.append(cur)
            cur = {}
            continue
        p = l.split(" ")
        if p[0] == "ERR":
            cur["err"] = p[1] if len(p) > 1 else "-"
        elif p[0] == "MAP":
            cur["map"] = p[1] if len(p) > 1 else ""
        elif p[0] in ("SD", "ED", "UD", "ID"):
            cur[p[0]] = sorted(set(x for x in (p[1].split(",") if len(p) > 1 else []) if x) - TD_BUILTIN[p[0]])
        elif p[0] == "R":
            cur.setdefault("R", {})[p[1]] = p[2] if len(p) > 2 else "-"
        elif p[0] == "DEAD":
            cur["dead"] = p[1] if len(p) > 1 else "?"
        elif p[0] == "DC":
            # one struct cycle check  X>Y : (answer, visited set on return); the model adds its activation count
            cur.setdefault("DC", {})[p[1]] = (p[2], p[3] if len(p) > 3 else "-")
            if len(p) > 4:
                cur.setdefault("DCn", {})[p[1]] = int(p[4])
    return res


def _unhex(h):
    return "" if h in ("-", "") else bytes.fromhex(h).decode("latin-1")


def td_model(cases):
    lines = [td_line(prog, qs) for qs, prog in cases]
    rc, o, e = common.sh([common.model_bin(PROP), "typedefs"], input=("\n".join(lines) + "\n").encode(), timeout=900)
    if rc != 0:
        raise RuntimeError("c10_model typedefs failed rc=%d: %s" % (rc, e[-400:]))
    b = _td_blocks(o)
    if len(b) != len(cases):
        raise RuntimeError("c10_model typedefs: %d blocks for %d cases" % (len(b), len(cases)))
    return b


def td_leaf_run(leaf, items, cpu=1):
    """items: [(source text, query names)] -> blocks; the leaf forks one child per case (CPU limit `cpu` s)"""
    if os.path.basename(leaf).startswith("c10_typedefs-"):
        leaf = _leaf_alive(leaf, "c10_typedefs", td_leaf_sources())
    def chunk(part):
        data = "".join("%s %s\n" % (src.encode("latin-1").hex(), ",".join(qs)) for src, qs in part).encode()
        try:
            rc, o, e = common.sh([leaf, str(cpu)], input=data, timeout=300 + 5 * cpu * len(part))
        except Exception:
            rc, o = -1, ""
        b = _td_blocks(o)
        if rc != 0 or len(b) != len(part):
            # only the child's CPU limit decides "does not end" (DEAD lines); a failed DRIVER run (wall time-out on a loaded machine) is
            # retried one case at a time and, failing that, skipped
            b = []
            for src, qs in part:
                one = None
                for _ in range(2):
                    try:
                        rc1, o1, e1 = common.sh([leaf, str(cpu)], input=("%s %s\n" % (src.encode("latin-1").hex(), ",".join(qs))).encode(),
                                                timeout=300 + 10 * cpu)
                    except Exception:
                        continue
                    b1 = _td_blocks(o1)
                    if rc1 == 0 and len(b1) == 1:
                        one = b1[0]
                        break
                b.append(one if one is not None else {"skip": True})
        for x in b:
            e0 = _unhex(x.get("err", "-"))
            x["err"] = ("-" if not e0 else "UT:" + e0[len("Unknown typedef type: "):] if e0.startswith("Unknown typedef type: ")
                        else "UK:" + e0[len("Unknown type: "):] if e0.startswith("Unknown type: ")
                        else "SR" if e0.startswith("Self-recursive struct member") else "CR" if e0.startswith("Circular reference detected")
                        else "OTHER:" + e0)
        return b
    parts = [items[i:i + 120] for i in range(0, len(items), 120)]
    out, dead = [], 0
    for k in range(0, len(parts), 16):
        if dead > 200:
            # a tree on which the walk (or the parser) never ends costs `cpu` seconds per case: enough of them have been seen
            out += [{"skip": True}] * sum(len(pt) for pt in parts[k:])
            break
        for b in common.pmap(chunk, parts[k:k + 16]):
            dead += sum(1 for x in b if x.get("dead"))
            out += b
    return out


# ---- struct declarations with value / pointer / array members of struct type (coq/C10/StructGraph.v: sg_run, detect)
SG_POOL = ["A", "B", "C", "D", "E", "F"]
_SG_SUFFIX = {"v": "%s m%d;", "p": "%s* m%d;", "a": "%s[2] m%d;"}


def sg_queries(pool):
    """cycle checks asked of the FINAL table: detectCircularReference(X, Y, {}, ..) for every struct X of the pool (and Z, which is no
    struct: the walk then never meets its start and marks everything reachable) and every member type Y"""
    return ["%s>%s" % (x, y) for x in pool + ["Z"] for y in pool]


def sg_case(rng):
    """-> (names, declarations, cycle-check queries, executable).  Struct declarations: forward declarations, definitions whose members
    are structs by value, pointer or array (self-reference, mutual reference through forward declarations, re-definition that closes a
    cycle).  Since fix 08b0ce5 (every struct is walked once per check) SHARED sub-structures are in the stream: deep diamonds
    (struct M(i+1) { Mi a; Mi b; }, 22..60 levels: 2^n walks before the fix) and layered graphs (every struct holds 2-3 structs of the
    layer below); these are not executed - a variable of M40 has 2^40 members."""
    r = rng.random()
    if r < 0.06:
        n = rng.randint(22, 60)
        prog = [("sd", "M0", [("int", "v")])]
        for i in range(1, n + 1):
            ms = [("M%d" % (i - 1), "v"), ("M%d" % (i - 1), "v")]
            if rng.random() < 0.2:
                ms.insert(rng.randint(0, 2), ("M%d" % rng.randint(0, i - 1), rng.choice("vpa")))
            prog.append(("sd", "M%d" % i, ms))
        if rng.random() < 0.3:
            prog.append(("sd", "M0", [("M%d" % n, rng.choice("vvpa"))]))       # re-definition of the bottom closes (or not) a cycle
        qs = ["M%d>M%d" % (n, n - 1), "Z>M%d" % n, "M0>M%d" % n, "M%d>M%d" % (n // 2, n), "M%d>M%d" % (n, n // 2)]
        return ["M%d" % i for i in range(n + 1)], prog, qs, False
    if r < 0.16:
        depth, width = rng.randint(5, 14), rng.randint(2, 3)
        nm = lambda i, j: "L%d_%d" % (i, j)
        prog = [("sd", nm(0, j), [("int", "v")]) for j in range(width)]
        for i in range(1, depth + 1):
            for j in range(width):
                prog.append(("sd", nm(i, j), [(nm(i - 1, rng.randrange(width)), rng.choice("vvvvvpa")) for _ in range(rng.randint(2, 3))]))
        if rng.random() < 0.4:
            prog.append(("sd", nm(0, 0), [(nm(depth, rng.randrange(width)), rng.choice("vvvpa"))]))
        names = [nm(i, j) for i in range(depth + 1) for j in range(width)]
        top = [nm(depth, j) for j in range(width)]
        qs = ["%s>%s" % (x, y) for x in top + ["Z", nm(0, 0), nm(depth // 2, 0)] for y in top + [nm(depth // 2, 1)]]
        return names, prog, qs, False
    pool = SG_POOL[:rng.randint(2, 6)]
    prog = []
    if rng.random() < 0.35:
        # directed: a cycle of 2..3 structs closed through value / array / pointer members, in any order, with or without forward
        # declarations (a cycle of VALUE members is the parser's business - detectCircularReference; one through ARRAY members is left
        # to the interpreter's own check when a variable is created)
        cyc = rng.sample(pool, rng.randint(2, min(3, len(pool))))
        for n in cyc:
            if rng.random() < 0.3:
                prog.append(("sf", n))
        defs = [("sd", cyc[i], [(cyc[(i + 1) % len(cyc)], rng.choice("vaaap"))] + [(rng.choice(pool + ["int"]), rng.choice("vpa")) for _ in range(rng.choice([0, 0, 1]))])
                for i in range(len(cyc))]
        rng.shuffle(defs)
        prog += defs
    for _ in range(rng.randint(0 if prog else 1, 4 + len(pool) // 2)):
        if rng.random() < 0.15:
            prog.append(("sf", rng.choice(pool)))
        else:
            n = rng.choice(pool)
            others = [x for x in pool if x != n] + ["int"]
            ms = [(n if rng.random() < 0.12 else rng.choice(others), rng.choice("vvvvpaa")) for _ in range(rng.choice([0, 1, 1, 2, 2, 3]))]
            prog.append(("sd", n, ms or [("int", "v")]))
    return pool, prog, sg_queries(pool), True


def sg_text(prog):
    out = []
    for d in prog:
        if d[0] == "sf":
            out.append("struct %s;" % d[1])
        else:
            out.append("struct %s { %s };" % (d[1], " ".join(_SG_SUFFIX[k] % (t, i) for i, (t, k) in enumerate(d[2]))))
    return "\n".join(out) + "\n"


def sg_line(prog, queries=()):
    return (" ".join("sf:%s" % d[1] if d[0] == "sf" else "sd:%s:%s" % (d[1], ",".join("%s.%s" % (t, k) for t, k in d[2])) for d in prog)
            + " | " + ",".join(queries))


def sg_model(cases):
    rc, o, e = common.sh([common.model_bin(PROP), "structs"], input=("\n".join(sg_line(c[1], c[2]) for c in cases) + "\n").encode(), timeout=900)
    b = _td_blocks(o)
    if rc != 0 or len(b) != len(cases):
        raise RuntimeError("c10_model structs failed rc=%d (%d blocks for %d cases): %s" % (rc, len(b), len(cases), e[-400:]))
    return b


def sg_diff(mb, ib):
    """where the repository's struct parser / cycle check and the model differ: verdict, key set, and per cycle-check query the answer
    and the visited set the check leaves (= the structs it walked: carrier of struct_cycle_check_walks_each_struct_once / _linear)"""
    if ib.get("skip"):
        return []
    d = [k for k in ("err", "SD") if mb.get(k) != ib.get(k)]
    if ib.get("dead"):
        d.append("dead")
    elif {q: tuple(v) for q, v in mb.get("DC", {}).items()} != {q: tuple(v) for q, v in ib.get("DC", {}).items()}:
        d.append("DC")
    return d


TD_KEYS = ("err", "map", "SD", "ED", "UD", "ID", "R")


def td_diff(m, i):
    if i.get("skip"):
        return []
    d = [k for k in TD_KEYS if m.get(k) != i.get(k)]
    if i.get("dead"):
        d.append("dead")
    return d


def td_show(b):
    return {"err": b.get("err"), "typedef_map": {kv.split("=")[0]: _unhex(kv.split("=")[1]) for kv in b.get("map", "").split(";") if "=" in kv},
            "structs": b.get("SD"), "enums": b.get("ED"), "unions": b.get("UD"), "interfaces": b.get("ID"),
            "resolve": {k: _unhex(v) for k, v in b.get("R", {}).items()}, "dead": b.get("dead")}


def td_exec_program(prog, queries, mblock):
    """the declarations + a main that declares a local of every name that resolves (executed: the interpreter's own typedef table,
    TypeManager::resolve_typedef - self-mapped aliases  typedef S S;  included since fix 1bf82fd)."""
    body = " ".join("%s lv%d;" % (q, k) for k, q in enumerate(queries) if mblock.get("R", {}).get(q, "-") != "-")
    return (td_text([d for d in prog]) + "void main() { %s println(1); }\n" % body).encode()


# ------------------------------------------------------------------ declaration-level programs for the robustness oracle (real binary)
DECL_POOL = ["A", "B", "C", "D", "T", "U", "V"]


def _dtype(rng, n):
    return rng.choice(["%s", "%s", "%s", "%s*", "%s[2]", "struct %s", "Bx<%s>", "%s**", "const %s", "%s&"]) % n


def _members(rng, pool):
    out = []
    for i in range(rng.choice([0, 1, 1, 2, 3])):
        t = rng.choice(["int", "string", "long", "bool", "int[3]", "int*"]) if rng.random() < 0.35 else _dtype(rng, rng.choice(pool))
        out.append("%s m%d;" % (t, i))
    return " ".join(out) or "int x;"


def decl_form(rng, pool, i):
    n = lambda: rng.choice(pool)
    r = rng.random()
    if r < 0.17:
        return "typedef struct %s { %s } %s;" % (n(), _members(rng, pool), n())
    if r < 0.21:
        return "typedef struct { %s } %s;" % (_members(rng, pool), n())
    if r < 0.33:
        return "struct %s { %s };" % (n(), _members(rng, pool))
    if r < 0.37:
        return "struct %s;" % n()
    if r < 0.41:
        return "struct %s<T> { T v; %s };" % (n(), _members(rng, pool))
    if r < 0.55:
        base = n() if rng.random() < 0.75 else rng.choice(TD_PRIMS) + rng.choice(["", "[2]", "[2][3]", "*"])
        return "typedef %s %s;" % (base, n())
    if r < 0.62:
        vals = [rng.choice(pool + TD_PRIMS + ["1", "2", "\"s\"", "int[2]"]) for _ in range(rng.randint(1, 4))]
        return "typedef %s = %s;" % (n(), " | ".join(vals))
    if r < 0.70:
        return rng.choice(["enum %s { P%d, Q%d };" % (n(), i, i), "typedef enum { P%d, Q%d } %s;" % (i, i, n()),
                           "enum %s<T> { X%d(T), Y%d };" % (n(), i, i)])
    if r < 0.74:
        return "typedef %s (*%s)(%s);" % (rng.choice(["int", "void", n()]), n(), rng.choice(["int", n(), "%s, int" % n(), ""]))
    if r < 0.80:
        return "interface %s { %s m%d(%s p); };" % (n(), rng.choice(["int", "void", n()]), i, rng.choice(["int", n()]))
    if r < 0.87:
        return rng.choice(["impl %s for %s { int m%d(int p) { return 1; } };" % (n(), n(), i), "impl %s { self() { } };" % n(),
                           "impl %s { static int c%d = 1; };" % (n(), i)])
    if r < 0.92:
        return rng.choice(["%s g%d;", "%s* g%d;", "const %s g%d = 1;", "%s[2] g%d;"]) % (n(), i)
    if r < 0.97:
        return "%s f%d(%s p) { %s l; return l; }" % (n(), i, _dtype(rng, n()), n())
    return "export " + decl_form(rng, pool, i + 50)


DECL_USES = [
    "{N} gu;", "{N}* gp;", "{N}[2] ga;", "{N} fu({N} p) {{ {N} l; return l; }}", "void fv({N}* p, {N}[2] q) {{ }}", "typedef {N} Zu;",
    "typedef struct Wt {{ {N} m; }} Wa;", "struct Ws {{ {N} m; {N}* p; }};", "void main() {{ {N} v; }}", "void main() {{ {N}[2] w; {N}* p; }}",
    "void main() {{ int x = 1; x = ({N})x; println(sizeof({N})); }}", "struct Bx<T> {{ T v; }};\nvoid main() {{ Bx<{N}> b; }}",
    "impl {N} {{ self() {{ }} }};", "interface Iu {{ {N} m({N} p); }};", "typedef Uu = {N} | int;", "void main() {{ {N} v = {N}::P0; }}",
    "typedef int (*Fu)({N});", "{N} gz = {{1}};", "struct Wg<T> {{ {N} m; T v; }};\nWg<{N}> gw;", "void main() {{ {N} v; v.x = 1; println(v.x); }}",
]


def decl_programs(rng):
    """[(label, bytes, files)] : one random (mostly malformed) declaration sequence over a small name pool - tags, aliases, struct / enum /
    union / interface names re-used for each other, re-declared, self-referencing, cyclic - followed by uses of EVERY name of the pool,
    one program per (name, use form) because the first diagnostic ends the parse; plus import shapes (cycles of modules of length 1..4)."""
    pool = rng.sample(DECL_POOL, rng.choice([2, 3, 3, 4, 4, 5]))
    out = []
    if rng.random() < 0.12:
        # import cycles: the input is module `t`; modules m1..mL next to it; the cycle may or may not go through t
        L = rng.randint(1, 4)
        mods = ["m%d" % k for k in range(1, L + 1)]
        through_main = rng.random() < 0.5
        files = {}
        for k, m in enumerate(mods):
            nxt = mods[(k + 1) % L] if not (through_main and k == L - 1) else "t"
            body = "\n".join("export " + decl_form(rng, pool, 10 * k + j) for j in range(rng.randint(0, 2)))
            files[m + ".cb"] = "import %s;\n%s\nexport int f%s() { return %d; }\n" % (nxt, body, m, k)
        if L == 1 and through_main:
            src = "import t;\nvoid main() { println(1); }\n"
            files = {}
        else:
            src = "import %s;\n%s\nvoid main() { println(1); }\n" % (mods[0], decl_form(rng, pool, 90))
        out.append(("import-cycle:%d%s" % (L, ":via-main" if through_main else ""), src.encode(), files))
        return out
    decls = [decl_form(rng, pool, i) for i in range(rng.randint(1, 8))]
    if rng.random() < 0.5:
        # directed: close a typedef cycle among the pool and hang a tail on it (the case split of resolveTypedefChain)
        L = rng.randint(1, min(4, len(pool) - 1)) if len(pool) > 1 else 1
        cyc = pool[:L]
        edges = ["typedef struct %s { %s } %s;" % (cyc[(i + 1) % L], _members(rng, pool) if rng.random() < 0.3 else "int x;", cyc[i]) for i in range(L)]
        tail = pool[L] if len(pool) > L else cyc[0]
        edges.append(rng.choice(["typedef struct %s { int x; } %s;", "typedef %s %s;"]) % (rng.choice(cyc), tail))
        for e in edges:
            decls.insert(rng.randint(0, len(decls)), e)
    head = "\n".join(decls) + "\n"
    for nm in pool:
        for u in rng.sample(DECL_USES, 4 if len(pool) <= 4 else 3):
            out.append(("use:%s" % nm, (head + u.format(N=nm) + "\n" + ("" if "main()" in u else "void main() { }\n")).encode(), None))
    allu = "\n".join("%s ga%d;" % (nm, k) for k, nm in enumerate(pool))
    out.append(("all", (head + allu + "\nvoid main() { " + " ".join("%s lv%d;" % (nm, k) for k, nm in enumerate(pool)) + " println(1); }\n").encode(), None))
    out.append(("none", (head + "void main() { println(1); }\n").encode(), None))
    return out


def import_exec_case(rng):
    """-> (label, source of the input module `t`, {module file: text}, expected stdout).  Modules that import each other (fix 129a992: each is
    parsed once per import chain; the run-time loader loads each once): a cycle m1 -> m2 -> .. -> mL -> m1 (L = 1: a module that imports
    itself), chords, optionally through the input itself (some module imports `t`); every module exports a constant function f, a
    function g that calls the f of a module it imports, sometimes a constant and a struct; the input imports some or all of them and
    calls their functions - the output is known."""
    L = rng.choice([1, 2, 2, 2, 3, 3, 4, 5])
    mods = list(range(1, L + 1))
    via_main = rng.random() < 0.35
    imports = {}
    for k in mods:
        imp = [mods[k % L]]                                   # the cycle
        if L > 2 and rng.random() < 0.4:
            imp.append(rng.choice([m for m in mods if m != k]))   # a chord (possibly a second import of the same module)
        if rng.random() < 0.15:
            imp.append(k)                                     # and itself
        rng.shuffle(imp)
        imports[k] = imp
    back = rng.choice(mods) if via_main else None
    files, has_k, has_s = {}, set(), set()
    for k in mods:
        lines = ["import m%d;" % m for m in imports[k]] + (["import t;"] if back == k else [])
        lines.append("export int f%d() { return %d; }" % (k, 10 + k))
        callee = imports[k][0]
        lines.append("export int g%d(int x) { return f%d() * 100 + x; }" % (k, callee))
        if rng.random() < 0.4:
            has_k.add(k)
            lines.append("export const int K%d = %d;" % (k, 7 * k))
        if rng.random() < 0.3:
            has_s.add(k)
            lines.append("export struct S%d { int v; };" % k)
        if back == k:
            lines.append("export int h%d() { return ft() + %d; }" % (k, k))
        rng.shuffle(lines)
        lines.sort(key=lambda l: 0 if l.startswith("import") else 1)      # imports first (stable)
        files["m%d.cb" % k] = "\n".join(lines) + "\n"
    direct = mods if rng.random() < 0.6 else rng.sample(mods, rng.randint(1, L))
    src = ["import m%d;" % m for m in direct]
    if via_main:
        src.append("export int ft() { return 1000; }")
    body, out = [], []
    for k in direct:
        body.append("println(f%d());" % k); out.append(str(10 + k))
        body.append("println(g%d(%d));" % (k, k)); out.append(str((10 + imports[k][0]) * 100 + k))
        if k in has_k:
            body.append("println(K%d);" % k); out.append(str(7 * k))
        if k in has_s:
            body.append("S%d s%d; s%d.v = %d; println(s%d.v);" % (k, k, k, 3 * k, k)); out.append(str(3 * k))
        if back == k:
            body.append("println(h%d());" % k); out.append(str(1000 + k))
    src.append("void main() { %s }" % " ".join(body))
    return ("import-exec:%d%s" % (L, ":via-main" if via_main else ""), "\n".join(src) + "\n", files, "\n".join(out) + "\n")


def import_diamond(n):
    """finding C10-import-diamond-exponential: module m(i+1) imports m(i) twice -> (input, files)"""
    files = {"m0.cb": "export int f0() { return 0; }\n"}
    for i in range(1, n + 1):
        files["m%d.cb" % i] = "import m%d;\nimport m%d;\nexport int f%d() { return %d; }\n" % (i - 1, i - 1, i, i)
    return ("import m%d;\nvoid main() { println(f%d()); }\n" % (n, n)).encode(), files


_ARR_TD = re.compile(rb"typedef\s+[A-Za-z_]\w*\s*(?:\[\w*\]\s*)+([A-Za-z_]\w*)\s*;")
_PLAIN_TD = re.compile(rb"typedef\s+([A-Za-z_]\w*)\s+([A-Za-z_]\w*)\s*;")


def trips_nested_array_typeinfo(data):
    """avoid C10-nested-array-typeinfo-enum-ub: an ARRAY of a typedef name that itself stands for an array type (typedef bool[3] B; ... B[2] m;)
    - the name of an array typedef, or a plain alias of one, directly followed by '['"""
    names = set(_ARR_TD.findall(data))
    grew = True
    while grew:
        grew = False
        for b, a in _PLAIN_TD.findall(data):
            if b in names and a not in names:
                names.add(a)
                grew = True
    return any(re.search(rb"\b" + re.escape(n) + rb"\s*\[", data) for n in names)


# ------------------------------------------------------------------ shrinking
def shrink_bytes(data, still_bad, budget=60):
    """delta debugging on the token list (chunks, then single tokens)"""
    toks = tokenize(data)
    n = 2
    while len(toks) >= 2 and budget > 0:
        size = max(1, len(toks) // n)
        reduced = False
        for s in range(0, len(toks), size):
            cand = toks[:s] + toks[s + size:]
            if not cand:
                continue
            budget -= 1
            if still_bad(b"".join(cand)):
                toks = cand
                n = max(n - 1, 2)
                reduced = True
                break
            if budget <= 0:
                break
        if not reduced:
            if size == 1:
                break
            n = min(len(toks), n * 2)
    return b"".join(toks)


def show(data, limit=4000):
    return data[:limit].decode("latin-1")


# ------------------------------------------------------------------ main
def run(rep):
    seed, tier = rep.seed, rep.tier
    quick = tier == "quick"
    t_stage = time.time()
    cq = common.coq_check_props(PROP)
    common.proof_coverage(rep, cq)
    rep.coverage["coq_wall_s_incl_lock_wait"] = round(time.time() - t_stage, 1)
    if not cq["ok"]:
        rep.violation("proof", {"theorem": cq["failed_theorem"], "log": cq["log"][-3000:]},
                      "proof obligation %s no longer checks" % cq["failed_theorem"], True)
    if not quick and cq["ok"]:
        ok, axioms = common.coqchk(PROP)
        rep.coverage["coqchk"] = {"ok": ok, "context_summary": axioms[:1500]}
        if not ok:
            rep.violation("coqchk", {"output": axioms[-3000:]}, "coqchk rejects the compiled development", True)
    common.ensure_model(PROP)
    leaf = common.build_leaf("c10_lexdump", ["src/frontend/recursive_parser/recursive_lexer.cpp"])
    tdleaf = common.build_leaf("c10_typedefs", td_leaf_sources())
    asan = common.build_impl("asan")
    plain = common.build_impl("plain")
    rep.coverage["builds_wall_s_incl_lock_wait"] = round(time.time() - t_stage - rep.coverage["coq_wall_s_incl_lock_wait"], 1)
    findings = common.known_findings(PROP)
    names = token_enum()
    files = sorted(os.path.join(r, f) for r, _, fs in os.walk(common.REPO) for f in fs if f.endswith(".cb")
                   and "/.git/" not in r)
    hist, evaluations = {}, 0
    seen_nontrivial = set()
    failures = []          # (stream, label, data, mode, args, big_stack, result, sig)
    samples = []

    def note(data, r):
        # non-trivial = the front end did more than start up: a diagnostic was produced, or a non-empty program was accepted
        if ((r["rc"] == 1 and r["err"].strip()) or r["rc"] == 0) and len(data) >= 8 and len(set(data.split())) >= 3:
            seen_nontrivial.add(hashlib.sha256(data).digest()[:12])

    # ---------------- (1) lexer: extracted model vs recursive_lexer.cpp, token for token
    lins, lorig = lexer_inputs(seed, tier, files)
    for f in files:
        d = open(f, "rb").read()
        if len(d) <= 16384:
            lins.append(d); lorig.append("repo-file")
    t_lex = time.time()
    lres = lex_both(lins, leaf, names)
    rep.coverage["lexer_wall_s"] = round(time.time() - t_lex, 1)
    lbad = [(x, o, m, i) for x, o, (m, i) in zip(lins, lorig, lres) if m != i]
    for o in lorig:
        hist["lexer:" + o] = hist.get("lexer:" + o, 0) + 1
    evaluations += len(lins)
    lex_nontrivial = len({x for x, (m, i) in zip(lins, lres) if len(m) > 1 or (m and not m[0].startswith("TOK_EOF"))})
    rep.coverage["lexer_cases"] = len(lins)
    rep.coverage["lexer_disagreements"] = len(lbad)
    samples.append({"stream": "lexer", "input": show(lins[len(LEX_ALPHA) * 39 + 7]), "model_tokens": lres[len(LEX_ALPHA) * 39 + 7][0]})
    lbad.sort(key=lambda b: len(b[0]))
    for x, o, m, i in lbad[:3]:
        def still(y):
            (mm, ii), = lex_both([y], leaf, names)
            return mm != ii
        y = x
        if len(x) > 8:
            # shrink byte-wise from both ends
            changed = True
            while changed and len(y) > 1:
                changed = False
                for cand in (y[1:], y[:-1]):
                    if cand and still(cand):
                        y = cand; changed = True; break
        (mm, ii), = lex_both([y], leaf, names)
        spec_bad = not ii or ii[-1].split(" ")[0] not in ("TOK_EOF", "TOK_ERROR") or len(ii) > len(y) + 1
        rep.violation("corr-lexer", {"input": show(y), "input_hex": y.hex(), "model": mm, "impl": ii, "origin": o,
                                     "broken": "correspondence Lexer.lex_all = RecursiveLexer::nextToken sequence (carrier of lex_total_linear)"},
                      "recursive_lexer.cpp and the proved lexer model disagree on %r: model %s, code %s%s" % (
                          show(y, 60), mm[-2:], ii[-2:], "; the code's token list does not end in EOF/ERROR within |input|+1 tokens" if spec_bad else ""),
                      no_failing_input=not spec_bad)

    # ---------------- (2) baseline: every repository .cb file, parse-only, sanitised build; fit c
    def run_file(f):
        d = open(f, "rb").read()
        return f, d, run_case(asan, d, "parse")
    base = common.pmap(run_file, files)
    evaluations += len(base)
    hist["repo-file"] = len(base)
    # Timing is decided RELATIVE to a reference workload timed in this very run on this machine (no constant in seconds):
    #   ref_cpu / ref_bytes = median CPU time / size of the unmodified repository files on the sanitised build.
    # A parse-only run of an ordinary-sized input is SUSPICIOUS when it costs more than 20 x ref_cpu (scaled with its size); a
    # suspicious run is only called "slow" after it was re-measured alone (minimum of 3) and - where the input has a generator - after
    # the same shape at sizes n, 2n, 4n showed clearly super-linear growth (see confirm_timing).  Hangs: the 10 s CPU limit of run_case.
    cpus = sorted(r["cpu"] for _, _, r in base) or [0.05]
    ref_cpu = max(cpus[len(cpus) // 2], 0.005)
    sizes = sorted(len(d) for _, d, _ in base) or [2000]
    ref_bytes = max(sizes[len(sizes) // 2], 512)
    speed = min(max(ref_cpu / REF_CPU_DEV, 0.5), 6.0)       # > 1: this machine (or its load) is slower than the development machine
    cap_scale = 1.0 / (speed ** 0.5) if speed > 1.0 else 1.0   # the cost of an amplified input is quadratic in its size

    def suspect(n):
        return 20.0 * ref_cpu * max(1.0, n / float(ref_bytes))

    def case_bound(c, n):
        """CPU above which a campaign case is suspicious: only the FRONT END on inputs of ordinary size has one; executed programs
        (their own loops) and the deep amplifiers (some 100 KB, where the recorded quadratic lexer copy dominates) only have the
        CPU limit of run_case"""
        if c[3] != "parse" or c[0] in ("amplify-deep", "amplify-exec", "amplify-stacklimit") or n > 4 * MAX_BYTES:
            return None
        return suspect(n) * (3 if c[5] else 1)
    rep.coverage["timing"] = {"reference": "median CPU / size of the %d unmodified repository files, sanitised build, this run" % len(base),
                              "ref_cpu_s": round(ref_cpu, 4), "ref_bytes": ref_bytes, "suspicious_above": "20 x ref_cpu x max(1, n / ref_bytes)",
                              "machine_speed_factor": round(speed, 2), "amplifier_size_scale": round(cap_scale, 2),
                              "max_repo_file_cpu_s": round(max(r["cpu"] for _, _, r in base), 3) if base else None}
    for f, d, r in base:
        note(d, r)
        s = signature(r, suspect(len(d)) * 2)
        if s:
            failures.append(("repo-file", f, d, "parse", [], False, r, s, {}))
    usable = [(f, d) for f, d, r in base if len(d) <= MAX_BYTES and len(d) > 20 and not trips_selfref_macro(d)]

    # ---------------- (3) generated streams, all through one pool
    cases = []        # (stream, label, data, mode, args, big_stack)
    n_mut = 1000 if quick else 20000
    for k in range(n_mut):
        rng = rng_for(seed, "c10-mut", k)
        f, d = rng.choice(usable)
        m, kinds = d, []
        toks = tokenize(d)
        for _ in range(1 if rng.random() < 0.6 else rng.randint(2, 6)):
            kind, m2 = mutate(rng, toks)
            if m2 is None:
                break
            m, toks = m2, tokenize(m2)
            kinds.append(kind)
        if trips_selfref_macro(m):
            continue
        cases.append(("mutation", "%s:%s" % (os.path.relpath(f, common.REPO), "+".join(kinds)), m, "parse", [], False))
    # truncation at EVERY token boundary of a few files
    n_trunc_files = 2 if quick else 30
    rngt = rng_for(seed, "c10-trunc")
    smallf = [(f, d) for f, d in usable if len(d) <= (1500 if quick else 4000)]
    for f, d in rngt.sample(smallf, min(n_trunc_files, len(smallf))):
        toks = tokenize(d)
        pos = 0
        for t in toks:
            pos += len(t)
            if not t.isspace():
                cases.append(("truncation", "%s@%d" % (os.path.relpath(f, common.REPO), pos), d[:pos], "parse", [], False))
    # nesting amplification, small: the whole construct on ONE line, default stack, sanitised build
    for kind in PARSE_KINDS:
        for dpt in ([SAFE_DEPTH] if quick else [10, 40, 150, SAFE_DEPTH]):
            dd = min(dpt, AVOID_DEPTH.get(kind, {}).get("asan", dpt))
            cases.append(("amplify", "%s:%d" % (kind, dd), amp(kind, dd, True), "parse", [], False,
                          {"gen": {"kind": kind, "depth": dd, "one_line": True}}))
    # nesting amplification, deep: every kind at 10^3 / 10^4 / 10^5 on both builds, default stack; the input is built in the worker
    deep = []
    for kind, mode, build, dpt in amp_matrix(tier, seed):
        dd = min(dpt, AVOID_DEPTH.get(kind, {}).get(build, dpt))
        deep.append((kind, mode, build, dd))
    for kind, mode, build, dd in sorted(set(deep)):
        cases.append(("amplify-exec" if kind in EXEC else "amplify-deep", "%s:%d:%s" % (kind, dd, build), None, mode, [], False,
                      {"build": build, "gen": {"kind": kind, "depth": dd}}))
    # the same under other stack-size limits (the guard derives its budget from RLIMIT_STACK)
    for kind in STACK_KINDS:
        for lim in (STACK_LIMITS[:1] if kind in EXEC else STACK_LIMITS):     # executed kinds: the small limit only (a larger stack lets the
                                                                             # quadratic evaluation of a flat chain run for minutes before the guard)
            for build in (("plain",) if quick else ("plain", "asan")):
                cases.append(("amplify-stacklimit", "%s:%d:%s:stack=%dMiB" % (kind, 100000, build, lim >> 20), None,
                              "full" if kind in EXEC else "parse", [], False,
                              {"build": build, "stack": lim, "gen": {"kind": kind, "depth": 100000}}))
    # every repository program EXECUTED on the sanitised build (the repository's own suite only compares output): a memory error or an
    # undefined operation on an ordinary program shows here.  Programs that already fail on the unchanged tree (raw pointers / heap
    # built-ins, which the property excludes, and one recorded defect of async code) are listed per file in known finding
    # C10-repo-exec-baseline; a file failing with another signature, or a file not listed, is a violation.
    for f, d, _ in base:
        cases.append(("repo-exec", os.path.relpath(f, common.REPO), d, "full", [], False))
    # executed edge cases of integer arithmetic, shifts, array extents and indices (sanitised build)
    for k in range(250 if quick else 6000):
        cases.append(("edge-arith", "", edge_case(rng_for(seed, "c10-edge", k)).encode(), "full", [], False))
    for src in ALLOC_EDGE:
        cases.append(("edge-alloc", "", src.encode(), "full", [], False))
    # amplification of repository files: wrap one expression token of a file in parentheses / blocks
    for k in range(40 if quick else 600):
        rng = rng_for(seed, "c10-ampfile", k)
        f, d = rng.choice(usable)
        toks = tokenize(d)
        idx = [i for i, t in enumerate(toks) if re.fullmatch(rb"[0-9]+", t)]
        if not idx:
            continue
        i = rng.choice(idx)
        dpt = rng.choice([20, 100, SAFE_DEPTH])
        toks[i] = b"(" * dpt + toks[i] + b")" * dpt
        cases.append(("amplify-file", "%s:%d" % (os.path.relpath(f, common.REPO), dpt), b"".join(toks), "parse", [], False))
    # raw bytes, ascii noise, token soup
    for k in range(800 if quick else 12000):
        kind, d = soup(rng_for(seed, "c10-soup", k))
        cases.append((kind, "", d, "parse", [], False))
    # declaration-level programs: typedef / struct / enum / union / interface / impl declarations that reuse names between tags and
    # aliases, re-declare, self-reference and form cycles, each followed by uses of every name; import cycles (modules next to the input)
    for k in range(N_DECL_QUICK if quick else N_DECL_THOROUGH):
        for j, (label, data, files) in enumerate(decl_programs(rng_for(seed, "c10-decl", k))):
            if trips_nested_array_typeinfo(data + b"".join(v.encode() for v in (files or {}).values())):
                continue
            x = {"build": "plain" if (k + j) % 4 else "asan"}
            if files:
                x["files"] = files
            cases.append(("decl", label, data, "parse", [], False, x))
            if label in ("all", "none"):
                cases.append(("decl-exec", label, data, "full", [], False, {"build": "asan"}))
            elif label.startswith("import-cycle"):
                # executed as well (from the directory of the modules): the run-time loader loads every module once
                cases.append(("decl-exec", label, data, "full", [], False, {"build": "asan" if k % 2 else "plain", "files": files}))
    # modules that import each other, EXECUTED, with the output they must print (plain and sanitised build alternately)
    for k in range(60 if quick else 1500):
        label, src, files, want = import_exec_case(rng_for(seed, "c10-impexec", k))
        cases.append(("import-exec", label, src.encode(), "full", [], False, {"build": "asan" if k % 2 else "plain", "files": files, "expect_out": want}))
    # declaration sequences of the MODELLED fragment (coq/C10/Typedefs.v): the extracted model now, the repository's parser below;
    # a sample of them is also executed (the interpreter's own typedef table)
    td_cases = td_exhaustive(2 if quick else 3) + [td_case(rng_for(seed, "c10-td", k)) for k in range(N_TD_QUICK if quick else N_TD_THOROUGH)]
    td_m = td_model(td_cases)
    n_td_exec = 0
    for (qs, prog), mb in list(zip(td_cases, td_m))[-(300 if quick else 4000):]:
        src = td_exec_program(prog, qs, mb)
        if src is not None:
            n_td_exec += 1
            cases.append(("td-exec", mb.get("err", "-"), src, "full", [], False, {"build": "plain"}))
    # struct declarations of the modelled fragment (coq/C10/StructGraph.v); those the model accepts are also executed with a variable of
    # every struct (the interpreter's own cycle check over value / array members, StructManager::validate..., and struct creation)
    sg_cases = [sg_case(rng_for(seed, "c10-sg", k)) for k in range(800 if quick else 20000)]
    sg_m = sg_model(sg_cases)
    for (pool, prog, _qs, execable), mb in list(zip(sg_cases, sg_m))[:(400 if quick else 5000)]:
        if mb.get("err") == "-" and execable:
            names = [n for n in mb.get("SD", [])]
            cases.append(("sg-exec", "", (sg_text(prog) + "void main() { %s println(1); }\n" % " ".join("%s v%d;" % (n, k) for k, n in enumerate(names))).encode(),
                          "full", [], False, {"build": "plain"}))
    # corpus of minimised past failures
    corpus = os.path.join(common.VERIF, "corpus", "c10.json")
    if os.path.exists(corpus):
        for c in json.load(open(corpus)):
            cases.append(("corpus", c.get("label", ""), finding_input(c) if "gen" in c else bytes.fromhex(c["source_hex"]),
                          c.get("mode", "parse"), c.get("args", []), bool(c.get("big_stack")),
                          dict({"build": c.get("build", "asan")}, **{k: c[k] for k in ("files", "expect_out") if k in c})))

    # directive-only files: model verdict
    pp_cases = []
    for k in range(200 if quick else 3000):
        rng = rng_for(seed, "c10-pp", k)
        text, args = directive_file(rng)
        pp_cases.append((text, args))
    pp_model = model_lines("preproc", [" ".join([(t.encode().hex() or "-")] + [a.encode().hex() for a in args if True])
                                       for t, args in pp_cases])
    # println(<expr>); programs: model verdict
    ex_cases = []
    for k in range(450 if quick else 6000):
        rng = rng_for(seed, "c10-expr", k)
        ex_cases.append(expr_case(rng))
    ex_model = model_lines("verdict", [t.encode().hex() for _, _, t in ex_cases])

    # generated CbCore programs, executed fully
    core_srcs = []
    try:
        import gen_core
        import langrun
        sx = []
        for k in range(300 if quick else 5000):
            rng = rng_for(seed, "c10-core", k)
            # since 7af444c / 4ed6b21 long arithmetic wraps and shift counts are checked: wide literals and shifts are generated
            # again, and programs whose meaning the CbCore model leaves undefined are run too (C10 only asks for exit 0/1, no UB)
            g = gen_core.Gen(rng, gen_core.Opts())
            sx.append(g.program())
        ms = langrun.model_run(sx)
        core_srcs = [m for m in ms if m["expect"] != "nofuel"]
    except Exception as e:      # the shared CbCore tool chain is not mine; its absence must not fail C10
        rep.notes.append("CbCore generator unavailable (%s): execution half skipped" % str(e)[:200])
    for m in core_srcs:
        cases.append(("cbcore-exec", m["expect"], m["src"].encode(), "full", [], False))

    # a hanging implementation must not stall the check: after 25 time-outs the remaining runs get 1 s of CPU
    hung = {"n": 0}

    def guarded(data, mode, args, big, build="asan", stack=None, files=None):
        slow = hung["n"] > 25
        r = run_case(asan if build == "asan" else plain, data, mode, args, big, cpu=1 if slow else 10, wall=20 if slow else 300, stack=stack,
                     files=files)
        if r["killed"] or r["rc"] in (-24, -25, -9):
            hung["n"] += 1
        return r

    def extra(c):
        return c[6] if len(c) > 6 else {}

    def case_data(c):
        """(bytes, depth actually used)"""
        if c[2] is not None:
            return c[2], extra(c).get("gen", {}).get("depth")
        g = extra(c)["gen"]
        d, data = amp_capped(g["kind"], g["depth"], extra(c).get("build", "asan"), cap_scale)
        return data, d

    def run_one(c):
        x = extra(c)
        data, d = case_data(c)
        r = guarded(data, c[3], c[4], c[5], x.get("build", "asan"), x.get("stack"), x.get("files"))
        r["nbytes"] = len(data)
        r["depth"] = d
        if c[2] is None:
            r["head"] = data[:300]
        return c, r
    t_run = time.time()
    # the expensive deep cases first, so that the pool's tail is made of cheap ones
    order = sorted(range(len(cases)), key=lambda i: (0 if cases[i][2] is None else 1, i))
    res_by = dict(zip(order, common.pmap(run_one, [cases[i] for i in order])))
    results = [res_by[i] for i in range(len(cases))]

    def run_pp(c):
        text, args = c
        return guarded(text.encode(), "parse", ["-D" + a for a in args], False)
    pp_res = common.pmap(run_pp, pp_cases)

    def run_ex(c):
        return guarded(("void main() { println(%s); }\n" % c[2]).encode(), "parse", [], False)
    ex_res = common.pmap(run_ex, ex_cases)
    rep.coverage["campaign_wall_s"] = round(time.time() - t_run, 1)

    guard_hits = {"parser": 0, "evaluator": 0}
    imp_bad = []
    exec_baseline, baseline_hits = {}, []
    for f in findings:
        exec_baseline.update(f.get("baseline", {}))
    cpu_by = {}
    for c, r in results:
        cpu_by[c[0]] = cpu_by.get(c[0], 0.0) + r["cpu"]
    rep.coverage["cpu_s_by_stream"] = {k: round(v, 1) for k, v in cpu_by.items()}
    rep.coverage["slowest_cases"] = [(c[1], round(r["cpu"], 2), r["nbytes"]) for c, r in sorted(results, key=lambda cr: -cr[1]["cpu"])[:25]]
    for c, r in results:
        evaluations += 1
        hist[c[0]] = hist.get(c[0], 0) + 1
        note(c[2] if c[2] is not None else (b"%d " % r["nbytes"]) + r["head"], r)
        if "Nesting too deep" in r["err"]:
            guard_hits["parser"] += 1
        if "Stack limit reached" in r["err"]:
            guard_hits["evaluator"] += 1
        s = signature(r, case_bound(c, r["nbytes"]))
        if s and s.startswith("memory|") and c[3] == "full":
            s = None          # an executed program may ask for more memory than the 3 GiB this campaign grants a run
        if s and c[0] == "repo-exec" and c[1] in exec_baseline:
            if s.startswith(exec_baseline[c[1]]) or (s in ("timeout", "slow") and exec_baseline[c[1]] == "timeout"):
                baseline_hits.append(c[1])
                s = None
        if s:
            failures.append((c[0], c[1], c[2], c[3], c[4], c[5], r, s, extra(c)))
        elif "expect_out" in extra(c) and (r["rc"] != 0 or r["out"] != extra(c)["expect_out"]):
            imp_bad.append((c, r))
    rep.coverage["import_exec"] = {"programs": hist.get("import-exec", 0), "wrong_output_or_status": len(imp_bad)}
    imp_bad.sort(key=lambda cr: sum(len(v) for v in extra(cr[0])["files"].values()))
    for c, r in imp_bad[:3]:
        x = extra(c)
        rep.violation("import-exec", {"source": show(c[2], 1500), "source_hex": c[2].hex(), "files": x["files"], "mode": "full", "build": x["build"],
                                      "label": c[1], "expected_stdout": x["expect_out"], "stdout": r["out"][:1500], "rc": r["rc"],
                                      "stderr": r["err"][:1000],
                                      "demanded": "modules that import each other are each loaded once and the program prints what its functions return"},
                      "modules that import each other (%s, %s build): main exits %d and prints %r, demanded %r" % (
                          c[1], x["build"], r["rc"], r["out"][:80], x["expect_out"][:80]))
    rep.coverage["stack_guard_diagnostics_seen"] = guard_hits
    rep.coverage["repo_exec"] = {"programs": hist.get("repo-exec", 0), "listed_in_baseline": len(exec_baseline),
                                 "baseline_entries_still_failing": len(baseline_hits)}
    if baseline_hits:
        for f in findings:
            if f.get("baseline"):
                rep.known(f["id"], f["what_fails"])
    fixed_now = sorted(set(exec_baseline) - set(baseline_hits))
    if fixed_now and hist.get("repo-exec"):
        rep.notes.append("C10-repo-exec-baseline: %d listed program(s) no longer fail: %s" % (len(fixed_now), ", ".join(fixed_now[:8])))
    samples.append({"stream": results[0][0][0], "label": results[0][0][1], "source": show(results[0][0][2], 300), "rc": results[0][1]["rc"]})
    for want in ("amplify-deep", "amplify-exec"):
        for c, r in results:
            if c[0] == want and r["rc"] == 1:
                samples.append({"stream": c[0], "label": c[1], "bytes": r["nbytes"], "rc": r["rc"], "cpu_s": round(r["cpu"], 3),
                                "stderr_head": r["err"][:120]})
                break

    # ---- verdict correspondence: directive-only files
    pp_bad, pp_cmp = [], 0
    for (text, args), mv, r in zip(pp_cases, pp_model, pp_res):
        evaluations += 1
        note(text.encode(), r)
        s = signature(r, suspect(len(text)))
        if s:
            failures.append(("directive-file", " ".join(args), text.encode(), "parse", ["-D" + a for a in args], False, r, s, {}))
            continue
        if mv == "EMPTYNAME":
            continue
        pp_cmp += 1
        want = 0 if mv == "E 0" else 1
        if r["rc"] != want:
            pp_bad.append((text, args, mv, r))
    hist["directive-file"] = len(pp_cases)
    samples.append({"stream": "directive-file", "file": pp_cases[0][0], "args": pp_cases[0][1], "model": pp_model[0], "rc": pp_res[0]["rc"]})
    for text, args, mv, r in pp_bad[:3]:
        lines = text.split("\n")
        changed = True
        while changed and len(lines) > 1:
            changed = False
            for k in range(len(lines)):
                cand = lines[:k] + lines[k + 1:]
                t2 = "\n".join(cand)
                m2 = model_lines("preproc", [" ".join([(t2.encode().hex() or "-")] + [a.encode().hex() for a in args])])[0]
                r2 = run_case(asan, t2.encode(), "parse", ["-D" + a for a in args])
                if m2 != "EMPTYNAME" and r2["rc"] in (0, 1) and r2["rc"] != (0 if m2 == "E 0" else 1):
                    lines, changed, mv, r = cand, True, m2, r2
                    break
        rep.violation("corr-preproc", {"file": "\n".join(lines), "args": ["-D" + a for a in args], "model": mv, "rc": r["rc"],
                                       "stderr": r["err"][-400:],
                                       "broken": "correspondence C17.Model.process (errors = 0) <-> main exits 0 on a directive-only file"},
                      "main exits %d on a directive-only file for which the preprocessor model reports %s" % (r["rc"], mv),
                      no_failing_input=True)
    rep.coverage["preproc_verdicts_compared"] = pp_cmp

    # ---- verdict correspondence: println(<expr>);
    ex_bad, ex_cmp, ex_skip = [], 0, 0
    for (kind, toks, text), mv, r in zip(ex_cases, ex_model, ex_res):
        evaluations += 1
        src = ("void main() { println(%s); }\n" % text).encode()
        note(src, r)
        s = signature(r, suspect(len(src)))
        if s:
            failures.append(("expr-program", kind, src, "parse", [], False, r, s, {}))
            continue
        if mv == "FUEL":
            rep.violation("model-fuel", {"expr": text}, "the extracted expression model ran out of fuel on %r (contradicts front_end_verdict_total)" % text, True)
            continue
        if mv not in ("ACCEPT", "REJECT") or unmodelled_expr(toks):
            ex_skip += 1
            continue
        ex_cmp += 1
        if r["rc"] != (0 if mv == "ACCEPT" else 1):
            ex_bad.append((toks, text, mv, r))
    hist["expr-program"] = len(ex_cases)
    samples.append({"stream": "expr-program", "expr": ex_cases[1][2], "model": ex_model[1], "rc": ex_res[1]["rc"]})
    ex_bad.sort(key=lambda b: len(b[0]))
    for toks, text, mv, r in ex_bad[:3]:
        changed = True
        while changed and len(toks) > 1:
            changed = False
            for k in range(len(toks)):
                cand = toks[:k] + toks[k + 1:]
                if unmodelled_expr(cand):
                    continue
                t2 = " ".join(cand)
                m2 = model_lines("verdict", [t2.encode().hex()])[0]
                r2 = run_case(asan, ("void main() { println(%s); }\n" % t2).encode(), "parse")
                if m2 in ("ACCEPT", "REJECT") and r2["rc"] in (0, 1) and r2["rc"] != (0 if m2 == "ACCEPT" else 1):
                    toks, text, mv, r, changed = cand, t2, m2, r2, True
                    break
        rep.violation("corr-expr", {"expr": text, "program": "void main() { println(%s); }" % text, "model": mv, "rc": r["rc"],
                                    "stderr": r["err"][-400:],
                                    "broken": "correspondence ExprParse.expr_verdict <-> exit status of main on println(<expr>); (carrier of parse_expr_total_linear)"},
                      "main exits %d on println(%s); but the expression-ladder model says %s" % (r["rc"], text, mv), no_failing_input=True)
    rep.coverage["expr_verdicts_compared"] = ex_cmp
    rep.coverage["expr_verdicts_skipped_unmodelled"] = ex_skip

    # ---- declaration-level tables: the repository's parser (leaf driver) vs the extracted model, table for table
    t_td = time.time()
    td_i = td_leaf_run(tdleaf, [(td_text(pg), qs) for qs, pg in td_cases])
    evaluations += len(td_cases)
    hist["typedef-tables"] = len(td_cases)

    def td_shape(mb):
        """(has a cycle of length >= 2, some query name runs INTO a cycle that does not contain it)"""
        m = {kv.split("=")[0]: _unhex(kv.split("=")[1]) for kv in mb.get("map", "").split(";") if "=" in kv}
        cyc = rho = False
        for s0 in mb.get("R", {}):
            seen, cur = [], s0
            while cur in m and cur not in seen:
                seen.append(cur)
                cur = m[cur]
            if cur in seen and len(seen) - seen.index(cur) >= 2:
                cyc = True
                if seen.index(cur) > 0:
                    rho = True
        return cyc, rho
    shapes = [td_shape(mb) for mb in td_m]
    td_bad = [(c, mb, ib) for c, mb, ib in zip(td_cases, td_m, td_i) if td_diff(mb, ib)]
    rep.coverage["typedef_tables"] = {
        "cases": len(td_cases), "exhaustive_sequences_up_to_length": 2 if quick else 3, "disagreements": len(td_bad),
        "with_cycle_in_typedef_map": sum(1 for c, _ in shapes if c), "with_chain_entering_a_cycle_from_outside": sum(1 for _, r in shapes if r),
        "rejected_unknown_typedef": sum(1 for mb in td_m if mb.get("err", "-").startswith("UT:")),
        "rejected_unknown_type": sum(1 for mb in td_m if mb.get("err", "-").startswith("UK:")),
        "accepted": sum(1 for mb in td_m if mb.get("err") == "-"), "executed": n_td_exec, "wall_s": round(time.time() - t_td, 1)}
    k0 = next((k for k, (_, r) in enumerate(shapes) if r), 0)
    samples.append({"stream": "typedef-tables", "program": td_text(td_cases[k0][1]), "model": td_show(td_m[k0])})
    td_bad.sort(key=lambda b: (0 if b[2].get("dead") else 1, len(b[0][1])))
    for (qs, prog), mb, ib in td_bad[:3]:
        want_dead = bool(ib.get("dead"))

        def both(pg):
            m1 = td_model([(qs, pg)])[0]
            i1 = td_leaf_run(tdleaf, [(td_text(pg), qs)])[0]
            return m1, i1
        changed = True
        while changed and len(prog) > 1:
            changed = False
            for k in range(len(prog)):
                cand = prog[:k] + prog[k + 1:]
                m1, i1 = both(cand)
                if td_diff(m1, i1) and bool(i1.get("dead")) == want_dead:
                    prog, mb, ib, changed = cand, m1, i1, True
                    break
        concrete = None
        if want_dead:
            # the table walk of the CODE did not end: make it an input of the real binary (the declarations, then a use of each name)
            for src in [td_text(prog)] + [td_text(prog) + "%s gq;\n" % q for q in qs]:
                data = (src + "void main() { }\n").encode()
                r = run_case(plain, data, "parse", cpu=5)
                sg = signature(r)
                if sg:
                    concrete = (data, r, sg)
                    break
        payload = {"td_line": td_line(prog, qs), "td_source": td_text(prog), "queries": qs, "model": td_show(mb), "impl": td_show(ib),
                   "differs_in": td_diff(mb, ib),
                   "broken": "correspondence Typedefs.td_run / Typedefs.resolve = tables built by the declaration parsers / "
                             "TypeUtilityParser::resolveTypedefChain (carrier of typedef_resolve_total, typedef_cycle_is_unknown_type)"}
        if concrete:
            payload.update({"source": show(concrete[0], 600), "source_hex": concrete[0].hex(), "mode": "parse", "build": "plain",
                            "signature": concrete[2], "rc": concrete[1]["rc"], "cpu_s": round(concrete[1]["cpu"], 2),
                            "demanded": "exit status 0 or 1 with a diagnostic; no signal, no hang"})
        rep.violation("corr-typedefs", payload,
                      "the repository's declaration parser and the proved table model disagree on %r (%s)%s" % (
                          td_text(prog).replace("\n", " ")[:160], ", ".join(td_diff(mb, ib)),
                          ("; the table walk of the code does not end (%s) - main on this input: %s" % (ib.get("dead"), concrete[2])) if concrete
                          else ("; the table walk of the code died (%s)" % ib.get("dead")) if want_dead else ""),
                      no_failing_input=not concrete)

    # ---- struct value-member cycle check: the repository's parser vs StructGraph.sg_run (verdict and key set)
    sg_i = td_leaf_run(tdleaf, [(sg_text(c[1]), c[2]) for c in sg_cases])
    evaluations += len(sg_cases)
    hist["struct-graph"] = len(sg_cases)
    sg_bad = [(c, mb, ib) for c, mb, ib in zip(sg_cases, sg_m, sg_i) if sg_diff(mb, ib)]
    # the proved cost bound, evaluated on every check of the stream (extracted detect_calls against the table's value members)
    n_dc = sum(len(mb.get("DC", {})) for mb in sg_m)
    dc_max = max([n for mb in sg_m for n in mb.get("DCn", {}).values()] or [0])
    n_skip = sum(1 for ib in list(td_i) + list(sg_i) if ib.get("skip"))
    if n_skip:
        rep.notes.append("%d leaf-driver case(s) could not be decided (driver run failed twice) and were skipped" % n_skip)
    rep.coverage["struct_graph"] = {"cases": len(sg_cases), "disagreements": len(sg_bad), "cycle_checks_compared": n_dc,
                                    "max_activations_of_one_check_model": dc_max,
                                    "deep_diamonds_and_layered_graphs": sum(1 for c in sg_cases if not c[3]),
                                    "self_recursive": sum(1 for mb in sg_m if mb.get("err") == "SR"),
                                    "circular": sum(1 for mb in sg_m if mb.get("err") == "CR"), "accepted": sum(1 for mb in sg_m if mb.get("err") == "-")}
    sg_bad.sort(key=lambda b: (0 if b[2].get("dead") else 1, len(b[0][1])))
    # at most three reports: walks of the code that do not end first (two of them), then a difference in a finished walk
    sg_dead, sg_live = [b for b in sg_bad if b[2].get("dead")], [b for b in sg_bad if not b[2].get("dead")]
    sg_rep = (sg_dead[:2] + sg_live[:1] + sg_dead[2:] + sg_live[1:])[:3]
    for (pool, prog, qs, _x), mb, ib in sg_rep:
        changed, budget = True, 120
        if ib.get("dead"):
            # the walk of the CODE did not end within the leaf's CPU limit: if `main` itself fails on these declarations, they are the input
            r0 = run_case(plain, (sg_text(prog) + "void main() { }\n").encode(), "parse", cpu=5)
            if signature(r0):
                changed = False
        while changed and len(prog) > 1 and budget > 0:
            changed = False
            for k in range(len(prog)):
                budget -= 1
                if budget <= 0:
                    break
                cand = prog[:k] + prog[k + 1:]
                m1 = sg_model([(pool, cand, qs, False)])[0]
                i1 = td_leaf_run(tdleaf, [(sg_text(cand), qs)])[0]
                if sg_diff(m1, i1) and bool(i1.get("dead")) == bool(ib.get("dead")):
                    prog, mb, ib, changed = cand, m1, i1, True
                    break
        dq = sorted(q for q in mb.get("DC", {}) if tuple(mb["DC"][q]) != tuple(ib.get("DC", {}).get(q, ())))
        if dq and not ib.get("dead"):
            qs = dq[:1]
            mb = sg_model([(pool, prog, qs, False)])[0]
            ib = td_leaf_run(tdleaf, [(sg_text(prog), qs)])[0]
        data = (sg_text(prog) + "void main() { }\n").encode()
        r = run_case(plain, data, "parse", cpu=5)
        sg = signature(r)
        payload = {"sg_line": sg_line(prog, qs), "sg_source": sg_text(prog), "sg_queries": qs,
                   "model": {"err": mb.get("err"), "structs": mb.get("SD"), "cycle_checks": mb.get("DC")},
                   "impl": {"err": ib.get("err"), "structs": ib.get("SD"), "dead": ib.get("dead"), "cycle_checks": ib.get("DC")},
                   "differs_in": sg_diff(mb, ib),
                   "broken": "correspondence StructGraph.sg_run / detectc = parseStructDeclaration / detectCircularReference: verdict, key set, "
                             "and per cycle check the answer and the visited set it leaves (carrier of struct_cycle_check_total, "
                             "struct_cycle_check_walks_each_struct_once, struct_cycle_check_linear, struct_cycle_check_correct)"}
        if sg:
            payload.update({"source": show(data, 600), "source_hex": data.hex(), "mode": "parse", "build": "plain", "signature": sg,
                            "rc": r["rc"], "demanded": "exit status 0 or 1 with a diagnostic; no signal, no hang"})
        dctxt = ""
        if "DC" in sg_diff(mb, ib) and qs:
            q = qs[0]
            dctxt = "; cycle check %s: model answers %s and leaves visited = {%s}, the code answers %s and leaves {%s}" % (
                (q,) + tuple(mb.get("DC", {}).get(q, ("?", "?"))) + tuple(ib.get("DC", {}).get(q, ("?", "?"))))
        rep.violation("corr-structs", payload,
                      "the repository's struct parser and the proved cycle-check model disagree on %r (%s): model %s, code %s%s%s" % (
                          sg_text(prog).replace("\n", " ")[:160], ", ".join(sg_diff(mb, ib)), mb.get("err"), ib.get("err") or ib.get("dead"), dctxt,
                          ("; main on this input: " + sg) if sg else ""), no_failing_input=not sg)

    # ---------------- (4) failures of the oracle: known signature (tolerated stream leak) or VIOLATION
    def impl_of(x):
        return asan if x.get("build", "asan") == "asan" else plain

    def fl_data(fl, depth=None):
        x = fl[8]
        if fl[2] is not None and depth is None:
            return fl[2]
        g = x["gen"]
        return amp(g["kind"], depth if depth is not None else fl[6]["depth"], bool(g.get("one_line")))

    def fl_sig(fl, data):
        x = fl[8]
        r2 = run_case(impl_of(x), data, fl[3], fl[4], fl[5], stack=x.get("stack"), files=x.get("files"))
        return signature(r2, case_bound(fl, len(data))), r2

    def same(a, b):
        """same kind of failure (for crashes the place may move with the depth)"""
        return a is not None and b is not None and a.split("|")[:2] == b.split("|")[:2]

    # ---- timing verdicts.  The campaign measured with 16 runs in flight on a possibly busy machine, so a "slow" / "timeout" of the pool
    # is only a suspicion.  confirm_timing decides it one run at a time:
    #   1. the input is re-run ALONE up to 3 times (CPU limit 30 s); the minimum counts;
    #   2. a run that does not end within 30 s of CPU alone is a hang ("timeout");
    #   3. an input WITH a generator is judged by GROWTH: the same shape at sizes n/4, n/2, n (deep streams) or n, 2n, 4n (small ones);
    #      it is "slow" only if cpu(4x) / max(cpu(x), ref_cpu) > 8 (clearly super-linear for a size ratio of 4) AND the largest run costs
    #      more than 100 x ref_cpu (several seconds; calibrated on this run's repository files);
    #   4. an input WITHOUT a generator (mutations, soups, repository files) is "slow" only if its minimum of 3 alone is still above its
    #      suspicion threshold (>= 20 x ref_cpu, scaled with the size).
    floor_cpu = 100.0 * ref_cpu

    def alone(fl, data, times=3, cpu=30):
        x, best = fl[8], None
        for _ in range(times):
            r2 = run_case(impl_of(x), data, fl[3], fl[4], fl[5], cpu=cpu, wall=40 * cpu, stack=x.get("stack"), files=x.get("files"))
            if best is None or r2["cpu"] < best["cpu"]:
                best = r2
            if signature(r2) is not None:        # hang, crash ...: nothing to average
                return r2
        return best

    def confirm_timing(fl):
        """-> (signature or None, detail)"""
        data = fl_data(fl)
        r1 = alone(fl, data)
        s1 = signature(r1)
        if s1 == "timeout":
            return "timeout", {"alone_cpu_s": round(r1["cpu"], 2), "cpu_limit_s": 30}
        if s1 is not None:
            return s1, {}
        gen = fl[8].get("gen")
        thr = case_bound(fl, len(data))
        if not gen:
            if thr is not None and r1["cpu"] > thr:
                return "slow", {"alone_min_of_3_cpu_s": round(r1["cpu"], 3), "threshold_cpu_s": round(thr, 3), "ref_cpu_s": round(ref_cpu, 4)}
            return None, {"alone_min_of_3_cpu_s": round(r1["cpu"], 3)}
        if thr is not None and r1["cpu"] <= thr and fl[7] == "slow":
            return None, {"alone_min_of_3_cpu_s": round(r1["cpu"], 3)}
        d = fl[6].get("depth") or gen["depth"]
        ds = [max(1, d // 4), max(2, d // 2), d] if d >= 4000 else [d, 2 * d, 4 * d]
        cp = []
        for dd in ds:
            r2 = r1 if dd == d else alone(fl, fl_data(fl, dd), times=2)
            if signature(r2) == "timeout":
                return "timeout", {"depths": ds, "cpu_s": cp + [">30"]}
            cp.append(round(r2["cpu"], 3))
        ratio = cp[2] / max(cp[0], ref_cpu)
        det = {"depths": ds, "cpu_s": cp, "growth_for_4x": round(ratio, 1), "floor_cpu_s": round(floor_cpu, 2), "ref_cpu_s": round(ref_cpu, 4)}
        if ratio > 8.0 and cp[2] > floor_cpu:
            return "slow", det
        return None, det

    def excused(c, sg0):
        """signatures that are no failure of the property for this case - the SAME exclusions as in the pool loop above, applied to every
        signature a re-run brings back (a big-allocation program that looked like a time-out under load re-measures as memory|rss-limit;
        a listed repo-exec program that looked like a time-out re-measures as its listed sanitizer report)"""
        if not sg0:
            return False
        if sg0.startswith("memory|") and c[3] == "full":
            return True
        if c[0] == "repo-exec" and c[1] in exec_baseline and (
                sg0.startswith(exec_baseline[c[1]]) or (sg0 in ("timeout", "slow") and exec_baseline[c[1]] == "timeout")):
            return True
        return False

    rep.coverage["oracle_failures_before_remeasure"] = len(failures)
    kept, streak, dropped = [], 0, []
    for fl in failures:
        if fl[7] in ("slow", "timeout"):
            if streak >= 3:                   # three confirmed in a row: the rest is taken as measured (a hanging tree must not cost hours)
                kept.append(fl)
                continue
            s2, det = confirm_timing(fl)
            if s2 is None or excused(fl, s2):
                dropped.append((fl[1] or fl[0], det if s2 is None else {"re-measured_as": s2}))
                streak = 0
                continue
            streak += 1
            fl = fl[:7] + (s2,) + fl[8:]
            fl[6]["timing"] = det
        kept.append(fl)
    if dropped:
        rep.notes.append("%d slow/time-out suspicion(s) of the parallel campaign were not confirmed when re-measured alone / by growth: %s" % (
            len(dropped), json.dumps(dropped[:4])[:600]))
    failures = kept
    rep.coverage["oracle_failures"] = len(failures)
    by_sig = {}
    for fl in failures:
        g = fl[8].get("gen")
        by_sig.setdefault((fl[7], g["kind"] if g else ""), []).append(fl)
    reported = 0
    for (s, gk), fls in sorted(by_sig.items(), key=lambda kv: (0 if kv[0][1] else 1, -len(kv[1]))):
        fls = [fl for fl in fls if not excused(fl, s)]
        if not fls:
            continue
        k = match_known(s, findings)
        if k is not None:
            rep.known(k["id"], k["what_fails"])
            rep.notes.append("%d main-stream case(s) leaked into known finding %s (%s)" % (len(fls), k["id"], s))
            continue
        if reported >= 6:
            continue
        fls.sort(key=lambda x: x[6].get("nbytes", 0) if x[2] is None else len(x[2]))
        if s not in ("slow", "timeout"):
            # like the timing verdicts, a crash seen ONCE in the parallel campaign is a suspicion: it is reported when it shows again on a
            # run of its own (a deep amplifier at the edge of the 3 GiB address-space limit dies with bad_alloc - exit 1 - or, depending
            # on where the allocation fails, with SIGSEGV; 16 runs in flight decide which).  Up to 3 cases of the group, 2 re-runs each.
            confirmed = None
            for cand in fls[:3]:
                for _ in range(2):
                    s2, _r = fl_sig(cand, fl_data(cand))
                    if same(s2, s) and not excused(cand, s2):
                        confirmed = cand
                        break
                if confirmed:
                    break
            if confirmed is None:
                rep.notes.append("%d case(s) with signature %s (%s) did not fail again when re-run alone (2 re-runs of up to 3 of them): not reported" % (
                    len(fls), s, fls[0][1] or fls[0][0]))
                continue
            fls = [confirmed] + [f for f in fls if f is not confirmed]
        reported += 1
        fl = fls[0]
        stream, label, data, mode, args, big, r, _, x = fl
        gen = x.get("gen")
        if gen:
            # an amplified input is shrunk along its depth (smallest depth with the same kind of failure)
            hi = r.get("depth") or gen["depth"]
            lo = 0
            budget = 14 if s not in ("slow", "timeout") else 0          # a timing verdict keeps the size it was confirmed at
            while hi - lo > max(1, hi // 20) and budget > 0:
                budget -= 1
                mid = (lo + hi) // 2
                s2, _ = fl_sig(fl, fl_data(fl, mid))
                if same(s2, s):
                    hi = mid
                else:
                    lo = mid
            small = fl_data(fl, hi)
            gen = dict(gen, depth=hi)
            if s in ("slow", "timeout"):
                s2, r2 = s, r
            else:
                s2, r2 = fl_sig(fl, small)
            if not same(s2, s):
                small, r2, gen = fl_data(fl), r, dict(gen, depth=r.get("depth") or gen["depth"])
        else:
            def still(y, s=s, fl=fl):
                return fl_sig(fl, y)[0] == s
            small = shrink_bytes(data, still, 40 if quick else 150) if len(data) <= 20000 and s not in ("slow", "timeout") else data
            s2, r2 = (s, r) if s in ("slow", "timeout") else fl_sig(fl, small)
            if s2 != s or excused(fl, s2):
                small, r2 = data, r
        other = plain if impl_of(x) is asan else asan
        ro = run_case(other, small, mode, args, big, stack=x.get("stack"), files=x.get("files"))
        payload = {"source": show(small, 600), "mode": mode, "args": args, "big_stack": big, "build": x.get("build", "asan"),
                   "stream": stream, "label": label, "signature": s, "rc": r2["rc"], "cpu_s": round(r2["cpu"], 3), "bytes": len(small),
                   "stderr": r2["err"][:1500], "rc_other_build": ro["rc"], "signature_other_build": signature(ro),
                   "cases_with_this_signature": len(fls),
                   "demanded": "exit status 0 or 1, no signal, no sanitizer report, diagnostic when 1, no hang (10 s CPU), parse time growing "
                               "linearly with the input (reference: %.3f s for the median repository file in this run)" % ref_cpu}
        if x.get("stack"):
            payload["stack"] = x["stack"]
        if x.get("files"):
            payload["files"] = x["files"]
        if r.get("timing"):
            payload["timing"] = r["timing"]
        if gen:
            payload["gen"] = gen
        if len(small) <= 20000 or not gen:
            payload["source_hex"] = small[:20000].hex()
        rep.violation("oracle", payload,
                      "interpreter violates C10 on a %d-byte input (%s%s, %s, %s build): %s; %s build: exit %d%s" % (
                          len(small), stream, (" " + gen["kind"] + " x %d" % gen["depth"]) if gen else "", mode, x.get("build", "asan"), s,
                          "plain" if other is plain else "sanitised", ro["rc"], (" " + signature(ro)) if signature(ro) else ""))

    # ---------------- (5) known findings: replay each; still failing -> KNOWN-FINDING
    for f, (ok, text) in zip(findings, common.pmap(lambda f: replay_finding(f, asan, plain), findings, workers=4)):
        if ok is None:
            rep.notes.append("known finding %s: %s" % (f["id"], text))
        elif ok:
            rep.known(f["id"], f["what_fails"])
        else:
            rep.notes.append("known finding %s no longer reproduces (fixed?): %s" % (f["id"], text))

    rep.coverage.update({
        "evaluations": evaluations,
        "distinct_nontrivial": len(seen_nontrivial) + lex_nontrivial,
        "rule": "inputs: exhaustive short byte strings + random lexeme strings (lexer, leaf driver vs extracted model); every repository .cb "
                "file; token mutations (delete/duplicate/swap/insert/truncate, 1-6 edits); truncation at every token boundary of sampled files; "
                "42 nesting amplifiers at depth 40/300 (default stack) and 600-2000 (1 GiB stack limit); raw bytes / ascii noise / keyword soup "
                "<= 8 KiB; directive-only files with -D; println(<expr>); programs; generated CbCore programs executed fully. All on the "
                "ASan+UBSan build of the current tree. Declaration level: sequences of typedef / struct / enum / union / interface / impl "
                "declarations over 2-5 names that reuse names between tags and aliases, re-declare, self-reference and close typedef cycles of "
                "length 1-4 with a tail, each followed by uses of every name (one program per name and use form), import cycles of 1-4 modules, parsed "
                "and executed (plain build, every fourth on the sanitised one; the all-uses program also executed); modules that import each other "
                "with exported functions / constants / structs, executed with the output they must print; the modelled fragments - typedef tables "
                "(all sequences of <= 2 of 30 declarations on three names + random / cycle-directed / self-alias-directed ones) and struct "
                "value-member graphs (random over <= 6 names, diamonds of 22-60 levels, layered graphs; per graph up to 42 single cycle checks: "
                "answer and visited set) - "
                "through the leaf driver c10_typedefs.cpp (repository parser) against the extracted model, table for table, and executed. "
                "distinct_nontrivial = distinct inputs (sha256) of at least 8 bytes and 3 different "
                "blank-separated words for which the front end produced a diagnostic with exit 1 or accepted the program, plus distinct lexer "
                "inputs whose token list has more than the EOF token.",
        "samples": samples[:8],
        "input_distribution": hist,
        "exhaustive": False,
        "tested_not_proved": "memory safety / UB / termination of the compiled C++ (sanitizer campaign); statement parsers; of the declaration "
                             "parsers everything but the two table walks that are modelled (typedef chains, struct value-member cycles)",
    })
    rep.assumptions += [
        "the sanitizer half is a test: absence of reports on the explored inputs, not a proof about the C++",
        "lexer, expression-ladder, preprocessor, typedef-table and struct-graph models are hand-written; they are tied to the code by the differential runs above",
        "the typedef-table / struct-graph models cover declarations with fixed trivial bodies (int members, struct-typed members); the wider declaration "
        "programs (members of alias type, generics, impl, imports) are only run under the robustness oracle",
        "CPU-time bound c*n is fitted on this run's unmodified repository files (machine-dependent constant)",
        "deep-nesting inputs (600-2000 levels) are run with the stack-size limit raised to 1 GiB; the default-stack overflow is a recorded finding",
    ]


# ------------------------------------------------------------------ known findings
def finding_input(rp):
    if "gen" in rp:
        g = rp["gen"]
        if g["kind"] == "repeat":
            return (g["head"] + g["unit"] * g["n"] + g["tail"]).encode()
        return amp(g["kind"], g["depth"], bool(g.get("one_line")))
    return rp["source"].encode("latin-1")


def replay_finding(f, asan, plain):
    """-> (True still fails / False fixed / None not decidable, text)"""
    if "baseline" in f:
        return None, "per-file baseline of the repo-exec stream (decided there)"
    rp = f["replay"]
    impl = asan if rp.get("build", "asan") == "asan" else plain
    if rp.get("kind") == "scaling":
        # CPU time of the two sizes: super-linear if time grows clearly faster than size
        if rp["gen"]["kind"] == "import-diamond":
            (a, fa), (b, fb) = import_diamond(rp["n_small"]), import_diamond(rp["n_large"])
            size_a, size_b = (len(x) + sum(len(v) for v in f.values()) for x, f in ((a, fa), (b, fb)))
        else:
            key = "n" if rp["gen"]["kind"] == "repeat" else "depth"
            a = finding_input({"gen": dict(rp["gen"], **{key: rp["n_small"]})})
            b = finding_input({"gen": dict(rp["gen"], **{key: rp["n_large"]})})
            fa = fb = None
            size_a, size_b = len(a), len(b)
        ra = run_case(impl, a, rp.get("mode", "parse"), cpu=30, files=fa)
        rb = run_case(impl, b, rp.get("mode", "parse"), cpu=30, files=fb)
        if ra["rc"] not in (0, 1) or rb["rc"] not in (0, 1, -24):
            return None, "unexpected exit %d/%d" % (ra["rc"], rb["rc"])
        ratio_t = (rb["cpu"] - 0.003) / max(ra["cpu"] - 0.003, 1e-3)
        ratio_n = size_b / size_a
        return ratio_t > 1.8 * ratio_n, "cpu %.3fs for %d bytes, %.3fs for %d bytes" % (ra["cpu"], size_a, rb["cpu"], size_b)
    data = finding_input(rp)
    r = run_case(impl, data, rp.get("mode", "parse"), rp.get("args", []), cpu=rp.get("cpu", 10))
    if rp.get("kind") == "stderr-count":
        n = r["err"].count(rp["pattern"])
        return n >= rp["min"], "%d x '%s' on stderr within %d s of CPU (exit %d)" % (n, rp["pattern"], rp.get("cpu", 10), r["rc"])
    s = signature(r)
    if s is None:
        if rp.get("expect_stderr_empty") and r["err"].strip():
            return True, "exit %d with a diagnostic on an accepted program" % r["rc"]
        return False, "exit %d" % r["rc"]
    if re.search(f["signature"]["kind"], s):
        return True, s
    return None, "fails differently now: %s" % s


def replay(path):
    data = json.load(open(path))
    c = data["case"]
    if "gen" in c or "source_hex" in c:
        impl = common.build_impl(c.get("build", "asan"))
        if "gen" in c:
            g = c["gen"]
            src = amp(g["kind"], g["depth"], bool(g.get("one_line")))
        else:
            src = bytes.fromhex(c["source_hex"])
        timing = c.get("signature") in ("slow", "timeout")

        def go(data):
            return run_case(impl, data, c.get("mode", "parse"), c.get("args", []), bool(c.get("big_stack")), cpu=30 if timing else 10,
                            stack=c.get("stack"), files=c.get("files"))
        r = go(src)
        s = signature(r)
        print("input: %d bytes%s, %s build, mode %s" % (len(src), (" (%s x %d)" % (g["kind"], g["depth"])) if "gen" in c else "",
                                                     c.get("build", "asan"), c.get("mode", "parse")))
        if s is None and timing:
            # the same relative rule as in run(): reference = a trivial program on this build, now
            ref = sorted(go(b"void main() { }\n")["cpu"] for _ in range(5))[2] * 1.25
            t = c.get("timing", {})
            if "gen" in c and t.get("depths"):
                cp = [min(go(amp(g["kind"], dd, bool(g.get("one_line"))))["cpu"] for _ in range(2)) for dd in t["depths"]]
                ratio = cp[2] / max(cp[0], ref)
                print("depths", t["depths"], "cpu", [round(x, 3) for x in cp], "growth for 4x the size: %.1f" % ratio, "reference cpu %.3f" % ref)
                if ratio > 8.0 and cp[2] > 100 * ref:
                    s = "slow"
            elif r["cpu"] > 20 * ref * max(1.0, len(src) / 2000.0):
                s = "slow"
        if s is None and "expected_stdout" in c and (r["rc"] != 0 or r["out"] != c["expected_stdout"]):
            s = "wrong-output"
            print("stdout %r, demanded %r" % (r["out"][:300], c["expected_stdout"][:300]))
        print("exit", r["rc"], "cpu %.3f" % r["cpu"], "signature", s)
        print(r["err"][:1500])
        return 1 if s else 0
    if "sg_line" in c:
        common.ensure_model(PROP)
        tdleaf = common.build_leaf("c10_typedefs", td_leaf_sources())
        rc, o, e = common.sh([common.model_bin(PROP), "structs"], input=(c["sg_line"] + "\n").encode(), timeout=60)
        mb = _td_blocks(o)[0]
        ib = td_leaf_run(tdleaf, [(c["sg_source"], c.get("sg_queries", []))], cpu=5)[0]
        print(c["sg_source"])
        print("model:", mb.get("err"), mb.get("SD"), mb.get("DC"))
        print("impl: ", ib.get("err"), ib.get("SD"), ib.get("dead"), ib.get("DC"))
        print("differs in:", sg_diff(mb, ib))
        return 1 if sg_diff(mb, ib) else 0
    if "td_line" in c:
        common.ensure_model(PROP)
        tdleaf = common.build_leaf("c10_typedefs", td_leaf_sources())
        rc, o, e = common.sh([common.model_bin(PROP), "typedefs"], input=(c["td_line"] + "\n").encode(), timeout=60)
        mb = _td_blocks(o)[0]
        ib = td_leaf_run(tdleaf, [(c["td_source"], c["queries"])], cpu=5)[0]
        print(c["td_source"])
        print("model:", json.dumps(td_show(mb)))
        print("impl: ", json.dumps(td_show(ib)))
        print("differs in:", td_diff(mb, ib))
        return 1 if td_diff(mb, ib) else 0
    if "input_hex" in c:
        common.ensure_model(PROP)
        leaf = common.build_leaf("c10_lexdump", ["src/frontend/recursive_parser/recursive_lexer.cpp"])
        (m, i), = lex_both([bytes.fromhex(c["input_hex"])], leaf, token_enum())
        print("model:", m)
        print("impl: ", i)
        return 0 if m == i else 1
    if "expr" in c and "program" in c:
        common.ensure_model(PROP)
        asan = common.build_impl("asan")
        mv = model_lines("verdict", [c["expr"].encode().hex()])[0]
        r = run_case(asan, (c["program"] + "\n").encode(), "parse")
        print("model:", mv, "impl exit:", r["rc"], r["err"][:300])
        return 0 if r["rc"] == (0 if mv == "ACCEPT" else 1) else 1
    if "file" in c:
        common.ensure_model(PROP)
        asan = common.build_impl("asan")
        args = [a[2:] for a in c.get("args", [])]
        mv = model_lines("preproc", [" ".join([(c["file"].encode().hex() or "-")] + [a.encode().hex() for a in args])])[0]
        r = run_case(asan, c["file"].encode(), "parse", c.get("args", []))
        print("model:", mv, "impl exit:", r["rc"], r["err"][:300])
        return 0 if r["rc"] == (0 if mv == "E 0" else 1) else 1
    print(json.dumps(c, indent=1)[:3000])
    return 1
