"""C01 - sequential core programs mean what the documented C-like semantics say.

Theorems: coq/C01/Properties_C01.v about the shared reference interpreter coq/Lang (Ref);
coq/C01/Properties_C01_helpers.v about the interpreter's int64 helpers and coq/C01/Properties_C01_typedchain.v about the
dispatch chain of the typed evaluator, stated about Gallina terms that translators/cxx_pure.py regenerates from clang's AST
of helpers.cpp / binary_unary.cpp on EVERY run (coq/C01/Gen_Helpers.v, coq/C01/Gen_TypedChain.v, semantics coq/Cxx/Cxx.v):
a change of the C++ text is re-translated and the theorems are re-checked against what the code says now.
Tie: the extracted Ref (bin/lang_model) and /repo's `main` run the same generated programs
(harness/gen_core.py): random statement programs, one expression in every evaluation context,
and operand-level boundary sweeps through both arithmetic paths.
"""
import collections
import json
import os

import common
import gen_core
import langrun
import helpers_tie
from common import rng_for

PROP = "C01"
LEVEL = "proof"
META = {
    "category": "proof",
    "technique": "Coq reference semantics (fuelled interpreter proved sound and complete for a relational big-step semantics; generic state-relation induction) + the int64 arithmetic helpers and the typed evaluator's operator chain regenerated from clang's AST on every run with UB-freedom / wrap-around / reference-agreement theorems about the generated terms + extracted-interpreter differential run against main",
    "text": "The documented C-like semantics of the sequential core is a Gallina interpreter (coq/Lang: exact 64-bit intermediates, truncating "
            "division, sign-of-dividend remainder, arithmetic shift, checked stores, row-major bounds-checked arrays, lexical scopes, private "
            "frames, plain structs as groups of member cells). Machine-checked for every program, input and fuel: output only grows and an error cuts the run exactly at the failing step "
            "(nothing after it), division/remainder/shift laws, `continue` runs the for-update, compound assignment equals its desugaring, a whole-struct copy equals the member-by-member "
            "assignments and leaves both sides independent (a member store touches no other member and no plain variable), and the "
            "two arithmetic paths of the implementation (int64 wrap-around and x87 long-double) equal exact arithmetic whenever the exact result "
            "fits int64. The int64 helpers of the interpreter (ExpressionHelpers::evaluate_{arithmetic,comparison,logical,bitwise}_binary, "
            "evaluate_simple_unary in helpers.cpp) are not modelled by hand: translators/cxx_pure.py re-translates clang's AST of their current "
            "C++ text into terms of a deep embedding of C++17 integer expressions (coq/Cxx/Cxx.v: promotions, usual arithmetic conversions, "
            "undefined behaviour as a result) on every run, and the theorems of Properties_C01_helpers.v are re-checked about those generated "
            "terms: no undefined behaviour for any operator string and any int64 operands, equality with the reference arithmetic whenever "
            "it is exact, the complete wrap-around closed form (eval_i64) for all int64 operands, rejection of unknown operators. "
            "The same is done for the typed evaluator: the dispatch chain that ends evaluate_binary_op_typed (binary_unary.cpp) is cut out of "
            "the function and re-translated on every run (coq/C01/Gen_TypedChain.v; long double as integers rounded to a 64-bit significand, "
            "inputs of the chain as parameters, pure boolean observations of the operands as named flags, result builders uninterpreted), and "
            "Properties_C01_typedchain.v proves about the generated chain which builder it calls with which values for all sixteen operators "
            "and all int64 operands, that followed by the builders it is exactly eval_ld, and that it equals the reference arithmetic whenever "
            "that is exact. "
            "The interpreter is extracted to OCaml and run against /repo's main on generated programs printed from the same AST by "
            "the extracted printer; any difference in stdout or exit class is a violation with the program as replay.",
    "note": "Generated from the source on every run: coq/C01/Gen_Helpers.v (five functions of helpers.cpp) and coq/C01/Gen_TypedChain.v (the final "
            "dispatch chain of evaluate_binary_op_typed; what the code before the chain establishes for integer operands - left_int = a, "
            "left_quad = (long double) a, prefer_integral_result, no string / floating operand - and what the three result builders do with their "
            "arguments are hand-read assumptions of those theorems); an unrecognised construct or a "
            "theorem that no longer checks is a violation, after a search for a concrete failing operand pair that is replayed on the real binary "
            "as a Cb program, under ASan+UBSan when the model reports undefined behaviour). Trusted for that part: clang 14's parser / semantic "
            "analysis and its JSON AST dump, translators/cxx_pure.py (fails loudly on anything outside the fragment; drops only statement-level "
            "error_msg/debug_msg calls), coq/Cxx/Cxx.v (hand-written reading of C++17 [expr], [conv]; implementation-defined points fixed as gcc/clang "
            "do: two's complement conversions, arithmetic >> of negatives). evaluate_comparison_binary and evaluate_simple_unary are not called by "
            "the interpreter any more (dead code): their theorems hold but no program reaches them. "
            "Trusted: Coq kernel, no axioms (Print Assumptions closed); extraction (ExtrOcamlBasic, ExtrOcamlString) + OCaml driver; the Ref "
            "interpreter is the formal reading of docs/spec.md written by hand (no separate relational big-step yet); the tie is differential "
            "testing over generated programs, restricted to the fragment outside the recorded findings (known_findings/C01.json); structs have integer scalar / array members only (no nested structs, no by-value struct parameters); "
            "strings and interpolation contexts are not in Ref.",
}

CONTEXTS = ["init", "assign", "cond", "index", "arg", "ret", "print", "compound"]


def context_program(rng, k):
    """One call-free expression observed in one evaluation context (the two evaluators are selected by context)."""
    g = gen_core.Gen(rng, gen_core.Opts(funcs=0, arrays=False))
    # a few typed variables with boundary values
    decls, scal = [], []
    for t in rng.sample(["tiny", "short", "int", "long", "uint", "utiny"], 3):
        lo, hi = gen_core.RANGES[t]
        v = rng.choice([lo, hi, 0, 1, -1 if lo < 0 else 2, rng.randint(lo, hi)])
        x = g.var()
        decls.append("(decl 0 0 %s %d %d)" % (t, x, v))
        scal.append((x, t))
    env = {"scalars": scal, "arrays": [], "ro": set(), "callable": [], "calls_ok": False}
    e = g.expr(env, rng.randint(1, 3), calls=False)
    ctx = CONTEXTS[k % len(CONTEXTS)]
    r = g.var()
    fid = 1
    funcs = ""
    if ctx == "init":
        body = "(decl 0 0 long %d %s) (print 1 (v %d))" % (r, e, r)
    elif ctx == "assign":
        body = "(decl 0 0 long %d 0) (asg (v %d) %s) (print 1 (v %d))" % (r, r, e, r)
    elif ctx == "compound":
        body = "(decl 0 0 long %d 1) (casg %s (v %d) %s) (print 1 (v %d))" % (r, rng.choice(["+", "-", "*", "&", "|", "^"]), r, e, r)
    elif ctx == "cond":
        body = "(if %s ((print 1 1)) ((print 1 0))) (decl 0 0 int %d 0) (while (bin && (bin < (v %d) 2) %s) ((asg (v %d) (bin + (v %d) 1)))) (print 1 (v %d))" % (
            e, r, r, "(bin != %s 0)" % e, r, r, r)
        body = body.replace("(bin && ", "(and ")
    elif ctx == "index":
        a = g.var()
        body = "(arr 0 long %d (5) (10 11 12 13 14)) (print 1 (idx %d (bin %% (bin + (bin %% %s 5) 5) 5)))" % (a, a, e)
    elif ctx == "arg":
        p = g.var()
        funcs = "(F 1 long ((%d long)) ((ret (v %d))))" % (p, p)
        body = "(print 1 (call 1 %s))" % e
    elif ctx == "ret":
        # the function reads the same variables as globals would; pass them as parameters
        ps = [(g.var(), t) for _, t in scal]
        ren = {x: p for (x, _), (p, _) in zip(scal, ps)}
        e2 = e
        for x, p in ren.items():
            e2 = e2.replace("(v %d)" % x, "(v_%d)" % p)
        e2 = e2.replace("(v_", "(v ")
        funcs = "(F 1 long (%s) ((ret %s)))" % (" ".join("(%d %s)" % p for p in ps), e2 if not e2.startswith("(idx") else e2)
        body = "(print 1 (call 1 %s))" % " ".join("(v %d)" % x for x, _ in scal)
    else:
        body = "(print 1 %s %s)" % (e, e)
    return "(P () (%s) (%s %s))" % (funcs, " ".join(decls), body), ctx


def operand_programs(rng, n_pairs):
    """println(a op b) (typed path) and `if ((a op b) == r)`/assignment (int64 path) for boundary operand pairs."""
    vals = []
    for k in [7, 8, 15, 16, 31, 32, 33, 53, 62, 63]:
        vals += [2**k - 1, 2**k, -(2**k), -(2**k) - 1, 2**k + 1]
    vals += [0, 1, -1, 2, -2, 3, -3, 10, -10, 2**63 - 1, -(2**63), -(2**63) + 1]
    vals = [v for v in vals if -(2**63) <= v <= 2**63 - 1]
    progs = []
    for _ in range(n_pairs):
        stm = []
        for _ in range(6):
            a = rng.choice(vals) if rng.random() < 0.8 else rng.randint(-2**63, 2**63 - 1)
            b = rng.choice(vals) if rng.random() < 0.8 else rng.randint(-2**63, 2**63 - 1)
            op = rng.choice(gen_core.ARITH + gen_core.CMP)
            if op in ("<<", ">>"):
                b = rng.choice([0, 1, 2, 31, 32, 62, 63, 64, -1])
            stm.append("(print 1 (bin %s %d %d))" % (op, a, b))
            stm.append("(if (bin == (bin %s %d %d) %d) ((print 1 1)) ((print 1 0)))" % (op, a, b, rng.choice(vals)))
        progs.append("(P () () (%s))" % " ".join(stm))
    return progs


def load_findings():
    return common.known_findings(PROP)


def run(rep):
    seed, tier = rep.seed, rep.tier
    # the int64 helpers and the typed evaluator's dispatch chain: re-translate their current C++ text (coq/C01/Gen_Helpers.v,
    # coq/C01/Gen_TypedChain.v), then re-check every obligation
    gen = helpers_tie.regenerate(rep)
    cq = common.coq_check_props(PROP)
    common.proof_coverage(rep, cq)
    rep.coverage["trusted_base"] = rep.coverage.get("trusted_base", []) + [
        "generated helpers: clang 14 AST dump (-ast-dump=json), translators/cxx_pure.py, coq/Cxx/Cxx.v (C++17 integer-expression semantics)"]
    if rep.tier == "thorough" and cq["ok"]:
        ok, axioms = common.coqchk(PROP)
        rep.coverage["coqchk"] = {"ok": ok, "context_summary": axioms[:1500]}
        if not ok:
            rep.violation("coqchk", {"output": axioms[-3000:]}, "coqchk rejects the compiled development", True)
    impl = common.build_impl("plain")
    # translator failed / an obligation about the generated helpers broke: search for a concrete failing operand pair
    handled = helpers_tie.after_check(rep, gen, cq, impl)
    if not cq["ok"] and not handled:
        rep.violation("proof", {"theorem": cq["failed_theorem"], "log": cq["log"][-3000:]},
                      "proof obligation %s no longer checks" % cq["failed_theorem"], True)

    n_prog = 5000 if tier == "quick" else 60000
    n_ctx = 4000 if tier == "quick" else 40000
    n_ops = 400 if tier == "quick" else 4000
    progs, origin = [], []
    corpus = os.path.join(common.VERIF, "corpus", "c01.json")
    if os.path.exists(corpus):
        for sx in json.load(open(corpus)):
            progs.append(sx); origin.append("corpus")
    feats = collections.Counter()
    for k in range(n_prog):
        o = gen_core.Opts(extras=(k % 2 == 1))
        o.structs = (k % 3 == 0)       # plain structs: declarations, member reads / stores (scalar and array members), whole-struct copy
        g = gen_core.Gen(rng_for(seed, "c01-prog", k), o)
        progs.append(g.program()); origin.append("program")
        feats.update(g.feats)
    for k in range(n_ctx):
        sx, ctx = context_program(rng_for(seed, "c01-ctx", k), k)
        progs.append(sx); origin.append("context-" + ctx)
    for sx in operand_programs(rng_for(seed, "c01-ops"), n_ops):
        progs.append(sx); origin.append("operands")

    res, bad = [], []
    CH = 4000
    for i in range(0, len(progs), CH):
        r, b = langrun.differential(impl, progs[i:i + CH])
        res += r
        bad += [(k + i, w) for k, w in b]
    outcomes = collections.Counter(r["model"]["expect"] for r in res)
    hist = collections.Counter(origin)
    distinct = set()
    nontriv = 0
    for p, r in zip(progs, res):
        if p in distinct or r["model"]["expect"] in ("undef", "nofuel"):
            continue
        distinct.add(p)
        if r["model"]["out"].strip() or r["model"]["expect"] != "finished":
            nontriv += 1
    rep.coverage.update({
        "evaluations": len(progs), "distinct_nontrivial": nontriv,
        "rule": "generated CbCore programs printed by the extracted printer, run on main and on the extracted Ref; "
                "distinct = distinct ASTs that are well-formed (Ref neither Undef nor out of fuel); non-trivial = prints something or ends in a runtime error",
        "input_distribution": dict(hist), "reference_outcomes": dict(outcomes),
        "features": dict(feats.most_common(40)),
        "discarded_not_well_formed": outcomes.get("undef", 0) + outcomes.get("nofuel", 0),
        "samples": [{"program": res[j]["model"]["src"], "expect": res[j]["model"]["expect"], "stdout": res[j]["model"]["out"]}
                    for j in (0, n_prog + 3, len(progs) - 1) if j < len(res)],
        "disagreements": len(bad),
    })
    for k, why in bad[:4]:
        def still_bad(sx, why=why):
            r, b = langrun.differential(impl, [sx], fuel=1500, model_timeout=20)
            return bool(b) and b[0][1] == why and "Undefined" not in r[0]["impl"]["err"] and r[0]["model"]["expect"] != "unbound"
        try:
            small = langrun.shrink(progs[k], still_bad, budget=80 if tier == "quick" else 300)
        except Exception:
            small = progs[k]
        r, b = langrun.differential(impl, [small])
        m, i = r[0]["model"], r[0]["impl"]
        rep.violation("prog", {"sexpr": small, "program": m["src"], "expected_stdout": m["out"], "expected_outcome": m["expect"],
                               "impl_stdout": i["out"] if i else None, "impl_rc": i["rc"] if i else None,
                               "impl_stderr": (i["err"][-600:] if i else None), "origin": origin[k], "why": why},
                      "main disagrees with the reference semantics (%s; %s)" % (why, origin[k]))

    # known findings: replay each recorded program
    for f in load_findings():
        rc, o, e = common.run_cb(impl, f["replay"]["program"])
        ok = (o == f["replay"]["expected_stdout"]) and ((rc != 0) == bool(f["replay"].get("expected_error")))
        if not ok:
            rep.known(f["id"], f["what_fails"])
        else:
            rep.notes.append("known finding %s no longer reproduces (fixed?)" % f["id"])
    rep.assumptions += [
        "generated helpers: the C++ fragment semantics coq/Cxx/Cxx.v fixes the implementation-defined points as gcc/clang on x86-64 do "
        "(LP64, two's-complement conversions, arithmetic right shift of negative values)",
        "programs on which Ref reports Undef (signed 64-bit overflow of an intermediate, shift count outside 0..63, INT64_MIN / -1) are not well-formed and are discarded (counted)",
        "the generator stays outside the shapes of the recorded findings (gen_core.Opts.avoid_*); each is replayed separately",
    ]


def replay(path):
    data = json.load(open(path))
    c = data["case"]
    if "failing_input" in c:
        f = c["failing_input"]
        impl = common.build_impl(f.get("build", "plain"))
        rc, o, e = common.run_cb(impl, f["program"], timeout=60)
        print(f["program"])
        print("%s path: %s %s %s  expected %s (reference %s)" % (f.get("path", "int64"), f["a"], f["op"], f["b"], f["expected"], f["reference"]))
        print("main (%s build): rc=%s stdout=%r stderr=%s" % (f.get("build", "plain"), rc, o, e[-400:]))
        exp = f["expected"]
        ok = (rc == 0 and o.strip() == (str(exp[1]) if f.get("path") == "typed" else "1")) if exp[0] == "val" else (rc not in (0, 124, 134, 136, 139) and exp[1] in e)
        if f.get("build") == "asan" and ("runtime error" in e or "AddressSanitizer" in e):
            ok = False
        return 0 if ok else 1
    impl = common.build_impl("plain")
    if "sexpr" in c:
        r, b = langrun.differential(impl, [c["sexpr"]])
        print(r[0]["model"]["src"])
        print("reference:", r[0]["model"]["expect"], repr(r[0]["model"]["out"]))
        print("main:     ", r[0]["impl"]["rc"], repr(r[0]["impl"]["out"]), r[0]["impl"]["err"][-300:])
        return 1 if b else 0
    print(json.dumps(c, indent=1)[:3000])
    return 1
