"""C18 - imports expose exactly the exports, once, independent of repetition and order.

Theorems: coq/C18/Properties_C18.v about the Mech model of the run-time loader as repaired by the fix:
commits e75028a / 7f2ae2b / 871ed77 / a650333 (Interpreter::handle_import_statement incl. the execution of a
module's own imports and the import-time evaluation of initialisers + sync_impl_definitions_from_parser +
register_impl_definition): only_exports_visible, loaded_modules_are_complete (transitive imports loaded, exports
bound), initialiser_sees_imports / initialiser_value_local, import_idempotent / import_again_is_noop,
same_modules_loaded + import_order_independent(+_diamond, +_layered), imported_like_inlined (table level),
dotted_path_resolution, former_witnesses_repaired; one `_refuted` statement (hidden impl blocks) = known finding.

Initialisers of exported variables are evaluated AT IMPORT TIME: the model evaluates them (variables, qualified
names, enum members, late-bound calls of side-effect-free functions) against the tables of that moment
(initialiser_sees_imports, initialiser_value_local, import_order_independent_layered for modules that read what
they import).

Front end (coq/C18/Front.v, Properties_C18_front.v): the dispatch of StatementParser::parseStatement over the KIND of a
top-level item x the SPELLING of its type (built-in keyword, `unsigned`, typedef alias, struct / interface / union / enum name,
generic instance, pointer, reference, array) and the three places where `export` is put on the node: export_flag_follows_keyword,
exported_statement_was_written_exported, only_written_exports_visible, written_exports_become_visible.  Every generated module
reaches the extracted loader model THROUGH the extracted front-end model (Front.parse_fs).

Tie (every run): generated module trees are written into a scratch directory (nested directories, the
program is run with cwd there; modules with imports initialise exports from the exports of the modules they import -
directly, through a chain, through a diamond -, the program imports only the outer module, everything in every order,
or what is loaded anyway in addition) and
  A. table agreement: the extracted model (bin/c18_model) predicts, for the importing program, which
     names are bound to which definition (functions, qualified names, constants, globals, enums,
     typedefs, structs incl. array members, constructors, methods, destructors) - including everything
     loaded transitively; a generated main uses every bound name and each not-bound declared name is
     probed in a tiny program of its own that must end with the undefined-name error.  Also: search-path
     order (8 candidate locations), module-path forms, name clashes, open errors.
  B. the property's own oracle: importing program == single-file inlined program == every
     permutation / duplication of the import list == re-import at run time (stdout, exit status);
     the import list is in general NOT closed under the modules' own imports.
  C. corpus/c18.json: the former refutation witnesses must print what the property demands.
  D. kind x type-spelling matrix (KIND_CELLS, oracle only): every cell (an exported constant / global / function / type of
     one kind and spelling) is imported directly and read through an exported function, == the single-file program, and
     its hidden variant cannot be named; E. assignment probes: the model's verdict on `name = v;` for imported variables.
"""
import hashlib
import itertools
import json
import os
import re
import shutil
import tempfile

import common
from common import rng_for

PROP = "C18"
LEVEL = "proof"
META = {
    "category": "proof",
    "technique": "Coq proofs about a function-by-function Gallina model of the run-time module loader (visibility frame lemmas, "
                 "loaded_modules invariant, history invariant for import-time initialisers, commutation of registration steps with "
                 "read/write footprints lifted to permutations, completion-order normal form for modules that read what they import, "
                 "simulation import = inlined; case analysis of the parser's statement dispatch: the export keyword reaches the loader for "
                 "every item kind and type spelling) + extracted-model differential run against the real interpreter on generated module trees",
    "text": "Machine-checked theorems about a Gallina model of Interpreter::handle_import_statement / "
            "sync_impl_definitions_from_parser / register_impl_definition as repaired (path resolution incl. the 8 search locations, "
            "export filter, recursive execution of a module's own imports where the import statement stands with the module marked "
            "loaded first, evaluation of the initialisers of exported variables at import time against the tables of that moment - "
            "variables, qualified names, enum members, late-bound calls -, registration into the function/struct/interface/typedef/"
            "variable/enum/impl/constructor/destructor/impl-static tables, qualified names, loaded_modules): a changed binding always "
            "stems from an exported declaration (or an impl block) of a module this import loaded; every loaded module is complete (its "
            "own imports loaded, its exports bound); every initialiser is evaluated in a state in which the modules its file imports "
            "before it are loaded and complete and the file's preceding exports are bound, and its value depends only on the names it "
            "mentions; a repeated import anywhere in a sequence is a no-op; two successful permuted import sequences load the same "
            "modules and yield tables equal as maps for modules with disjoint (or identical, for diamonds) registration steps that do "
            "not read each other's names, and also for modules that DO read what they import (acyclic imports, imports first, every "
            "non-commuting pair connected by an import statement: chains, diamonds with initialisers); an import equals pasting every "
            "loaded file once as local declarations on all unqualified names (initialisers included); the recursion bound of the model "
            "is immaterial; on the TEXT of the module files (front-end model of StatementParser::parseStatement: declaration branch, "
            "identifier-type branch, unsigned/built-in branch, one flag placement each): a function, single variable or constant, "
            "typedef, struct, enum, interface or impl written with `export` reaches the loader as that definition with the flag set "
            "whatever the spelling of its type (built-in, unsigned, typedef alias, struct/interface/union/enum name, generic instance, "
            "pointer, reference, user-typed array), nothing reaches it as exported without the keyword, hence every changed binding "
            "stems from an item written with `export` and every such item of every loaded module is bound. One law is refuted on the faithful model (hidden impl blocks are visible; all of stdlib relies on it). The "
            "model is tied to the code on every run: all import DAGs over <=3 (quick) / <=5 (thorough) generated modules plus 4-module "
            "chains/diamonds in nested directories, exports initialised from the exports of imported modules (directly, through a "
            "chain, through calls), import CYCLES (two modules importing each other, 3-cycle, self-import, cycle entered from a "
            "diamond), import lists not closed under the modules' own imports, every permutation, duplications and "
            "supersets by modules loaded anyway, run on the real binary; the model's predicted bindings AND VALUES are checked name by "
            "name (positive uses + one undefined-name probe per unbound name) and the importing program is compared with its inlined "
            "single-file form and all permuted/duplicated variants; modules importing each other with clashing names; selective imports; "
            "exported constants / globals / pure functions whose types are spelled long, short, unsigned, double, float, typedef "
            "alias (exported or hidden, chains, of string/long, of an imported module), enum, `export default`, exported and hidden, "
            "read by initialisers and functions of the module; a matrix of ~80 kind x spelling cells (pointers, references, arrays, "
            "structs, generics, interfaces, async, unions) compared import == single file with the hidden variant unusable; "
            "assignment probes for imported constants/globals; former defect witnesses are kept as corpus. Two front-end laws are "
            "refuted (array declarations with a built-in element type and multi-variable declarations never receive the flag).",
    "note": "Trusted: Coq kernel (vm_compute for the refutation witness/examples), no axioms (Print Assumptions: closed); extraction via "
            "ExtrOcamlBasic+ExtrOcamlString; the model is hand-written and tied by differential testing only. The front-end "
            "model (Front.v) is hand-written from the dispatch and flag placement of parseStatement / parseTypedefTypeStatement / "
            "parseBasicTypeStatement (node kind and flag only: initialiser and body parsing are not modelled), tied by the same runs. NOT modelled: the "
            "parse-time path RecursiveParser::processImport/resolveModulePath (only its hand-over of transitive impl blocks and - as an "
            "abstract environment - of type names), the SHAPE of an imported variable beyond its value (struct / array / unsigned: "
            "known findings), ownership "
            "transfer of impl nodes, module aliases, generic-name mangling, side effects of functions called from initialisers (the "
            "model's functions are expressions; a call's candidate bodies are the declarations of that name in the file system). "
            "Selective imports reach the model by translation of the file system. imported_like_inlined is a table-level statement; "
            "behavioural equality (statics included) is tested (oracle B), not proved; where the single-file program itself is "
            "defective (calls / non-const reads in file-scope initialisers: two known findings) the inlined comparison is skipped. "
            "import_order_independent* are stated for two successful loads (error symmetry is not proved). Import cycles (fix 129a992) "
            "are inside the correspondence (cycle family: the model marks a module loaded before it runs its imports); modules on a "
            "cycle hold no impl block (known finding C18-import-cycle-with-impl-block).",
}

# ------------------------------------------------------------------ abstract cases
# statement tuples:
#  ("I", modpath)
#  ("F", e, name, body, refs)           refs: list of Cb expressions over the parameter `a`
#  ("S", e, name, generic, [(member, extent|None)])
#  ("N", e, name, [method])
#  ("M", e, iface|None, struct, [(method, body, refs)], [(arity, body)], dtor|None, [static])
#  ("T", e, name, target)
#  ("V", e, name, const, init|None)     init: int literal or an expression in the model syntax (str):
#                                       term{+term}, term = INT | a | $name | #Enum:Member | @f(expr)
#  ("H", e, name, body, expr)           side-effect-free function `int name(int a) { return <expr>; }`
#  ("E", e, name, [(member, value)])
#  ("PV", e, name, const, init, spell, cls, default)   a variable / constant whose TYPE IS SPELLED: spell in the model syntax
#                                       ([u.]keyword | Name[<a;b>] {*}[&]{[n]}), cls = num | str | dbl (how the value is written
#                                       and printed: n, "s<n>", n.5); init as for "V"; default: `export default`
#  ("PF", e, name, body, expr, retspell, paramspell, default)   side-effect-free function `<ret> name(<param> a) { return <expr>; }`


def expr_terms(text):
    out, lvl, start = [], 0, 0
    for i, ch in enumerate(text):
        if ch == "(":
            lvl += 1
        elif ch == ")":
            lvl -= 1
        elif ch == "+" and lvl == 0:
            out.append(text[start:i])
            start = i + 1
    out.append(text[start:])
    return out


def expr_to_cb(text, inline=False):
    """model-syntax expression -> Cb source; inline=True: qualified variable names lose the module prefix"""
    res = []
    for t in expr_terms(text):
        if t == "a" or t.isdigit():
            res.append(t)
        elif t[0] == "$":
            res.append(t[1:].rsplit(".", 1)[-1] if inline else t[1:])
        elif t[0] == "#":
            en, m = t[1:].split(":")
            res.append("%s::%s" % (en, m))
        elif t[0] == "@":
            i = t.index("(")
            f = t[1:i].rsplit(".", 1)[-1] if inline else t[1:i]
            res.append("%s(%s)" % (f, expr_to_cb(t[i + 1:-1], inline)))
        else:
            raise ValueError(text)
    return " + ".join(res)


def expr_names(text, sigil):
    return re.findall(re.escape(sigil) + r"([A-Za-z0-9_.]+)", text)


def spell_cb(sp):
    """type spelling, model syntax -> Cb source"""
    if sp.startswith("u."):
        sp = "unsigned " + sp[2:]
    return sp.replace(";", ", ")


def is_var(s):
    return s[0] in ("V", "PV")


def var_cls(s):
    """how the value of a variable statement is written / printed: num, str ("s<n>") or dbl (n.5)"""
    if s[0] == "PV":
        return s[6]
    return "str" if (len(s) > 5 and s[5] == "string") else "num"


def is_pure(s):
    return s[0] in ("H", "PF")


def fmt_value(cls, v):
    return {"num": "%d", "str": "s%d", "dbl": "%d.5"}[cls] % v


def model_stmt(s):
    k = s[0]
    if k == "I":
        return "I %s" % s[1]
    e = "1" if s[1] else "0"
    if k == "PV":
        init = "" if s[4] is None else "=%s" % s[4]
        return "PV %s %d 0 %d %s %s%s" % (e, 1 if s[7] else 0, 1 if s[3] else 0, s[5], s[2], init)
    if k == "PF":
        return "PF %s %d 0 %s %s %d - %s %s" % (e, 1 if s[7] else 0, s[5], s[2], s[3], s[6], s[4])
    if k == "F":
        return "F %s %s %d" % (e, s[2], s[3])
    if k == "H":
        return "F %s %s %d %s" % (e, s[2], s[3], s[4])
    if k == "S":
        return "S %s %s %d %s" % (e, s[2], 1 if s[3] else 0, " ".join("%s:%s" % (m, "-" if x is None else x) for m, x in s[4]))
    if k == "N":
        return "N %s %s %s" % (e, s[2], " ".join(s[3]))
    if k == "M":
        return "M %s %s %s %s %s %s %s" % (
            e, s[2] or "-", s[3], ",".join("%s:%d" % (m[0], m[1]) for m in s[4]) or "-",
            ",".join("%d:%d" % c for c in s[5]) or "-", "-" if s[6] is None else s[6], ",".join(s[7]) or "-")
    if k == "T":
        return "T %s %s %s" % (e, s[2], s[3])
    if k == "V":
        return "V %s %s %d %s" % (e, s[2], 1 if s[3] else 0, "-" if s[4] is None else str(s[4]))
    if k == "E":
        return "E %s %s %s" % (e, s[2], " ".join("%s:%d" % m for m in s[3]))
    raise ValueError(s)


def render_stmt(s, keep_export=True):
    k = s[0]
    if k == "I":
        return "import %s;" % s[1]
    ex = "export " if (s[1] and keep_export) else ""
    if k in ("PV", "PF") and s[7] and ex:
        ex = "export default "
    if k == "PV":
        if s[4] is None:
            init = ""
        elif s[6] == "num":
            init = " = %s" % (s[4] if isinstance(s[4], int) else expr_to_cb(s[4], inline=not keep_export))
        else:
            init = " = %s" % ('"s%d"' % s[4] if s[6] == "str" else "%d.5" % s[4])
        return "%s%s%s %s%s;" % (ex, "const " if s[3] else "", spell_cb(s[5]), s[2], init)
    if k == "PF":
        return "%s%s %s(%s a) { return %s; }" % (ex, spell_cb(s[5]), s[2], spell_cb(s[6]), expr_to_cb(s[4], inline=not keep_export))
    if k == "H":
        return "%sint %s(int a) { return %s; }" % (ex, s[2], expr_to_cb(s[4], inline=not keep_export))
    if k == "F":
        refs = "".join(" + " + r for r in s[4])
        if len(s) > 5 and s[5]:      # takes a struct (declared in this or an imported module) by value
            return ('%sint %s(%s q) { static int n = 0; n = n + 1; println("@f", %d, n); int a = q.x; return a%s; }'
                    % (ex, s[2], s[5], s[3], refs))
        return ('%sint %s(int a) { static int n = 0; n = n + 1; println("@f", %d, n); return a%s; }' % (ex, s[2], s[3], refs))
    if k == "S":
        mems = " ".join(("int[%d] %s;" % (x, m)) if x is not None else (("T %s;" if s[3] else "int %s;") % m) for m, x in s[4])
        return "%sstruct %s%s { %s };" % (ex, s[2], "<T>" if s[3] else "", mems)
    if k == "N":
        return "%sinterface %s { %s };" % (ex, s[2], " ".join("int %s(int d);" % m for m in s[3]))
    if k == "M":
        if s[2]:
            body = " ".join("static int %s = 0;" % v for v in s[7])
            for m, b, refs in s[4]:
                st = "".join("%s = %s + 1; " % (v, v) for v in s[7])
                extra = "".join(" + " + r for r in refs) + "".join(" + " + v for v in s[7])
                body += ' int %s(int d) { %sprintln("@m", %d); return self.x * d%s; }' % (m, st, b, extra)
            return "%simpl %s for %s {%s }" % (ex, s[2], s[3], body)
        body = ""
        for ar, b in s[5]:
            params = ", ".join("int p%d" % i for i in range(ar))
            body += ' self(%s) { println("@c", %d); %s }' % (params, b, "self.x = p0;" if ar else "self.x = 0;")
        if s[6] is not None:
            body += ' ~self() { println("@d", %d); }' % s[6]
        return "%simpl %s {%s }" % (ex, s[3], body)
    if k == "T":
        return "%stypedef %s %s;" % (ex, s[3], s[2])
    if k == "V":
        if len(s) > 5 and s[5] == "string":
            return '%s%sstring %s = "s%d";' % (ex, "const " if s[3] else "", s[2], s[4])
        init = "" if s[4] is None else " = %s" % (s[4] if isinstance(s[4], int) else expr_to_cb(s[4], inline=not keep_export))
        return "%s%sint %s%s;" % (ex, "const " if s[3] else "", s[2], init)
    if k == "E":
        return "%senum %s { %s };" % (ex, s[2], ", ".join("%s = %d" % m for m in s[3]))
    raise ValueError(s)


def file_path(modpath):
    return modpath.replace(".", "/") + ".cb"


BUILTIN_NUM = ["long", "short", "u.int", "u.long", "u.short", "long", "u.int"]     # numeric spellings other than `int`


DIRS = ["", "pk", "pk.sub", "lib", "lib.x.y", "d1", "d1.d2", "zz.cx", "cbx", "lib.cbits"]


BLIND = "tests/cases/import_export/"       # a location only the RUN-TIME loader searches (not the parse-time path)


def gen_modules(rng, n, edges, defects=(), prefix=""):
    """n modules; edges = set of (i, j), j < i: module i imports module j.  Every declared name is
    unique to its module.  Exported bodies refer only to exported names of the own module (declared
    earlier) or of directly imported modules.  `defects`: deliberately produce known-defect shapes."""
    mods = []
    dirs = [rng.choice(DIRS) for _ in range(n)]
    exported = {}      # module index -> {"val": [exprs], "fun": [names]}
    for i in range(n):
        modpath = (dirs[i] + "." if dirs[i] else "") + "m%d" % i
        stmts = [("I", mods[j]["modpath"]) for j in range(i) if (i, j) in edges]
        rng.shuffle(stmts)                                            # the module's own imports in any order
        if stmts and rng.random() < 0.3:
            stmts.append(stmts[0])                                    # a module importing twice
        pool_val, pool_fun, pool_str = [], [], []
        # initialiser pools (model syntax): constants / enum members, non-const globals, pure functions that the
        # module's own imports make available when the initialiser is evaluated (at import time)
        pool_c, pool_g, pool_h = [], [], []
        direct = [j for j in range(i) if (i, j) in edges]
        reach = []                       # modules loaded through the imports (a chain: not imported by this file itself)
        for j in direct:
            for x in exported[j]["reach"]:
                if x not in direct and x not in reach:
                    reach.append(x)
        for j in direct:
            pool_val += exported[j]["val"]
            pool_fun += exported[j]["fun"]
            if not prefix:          # (run-time-only placement: the module's own parser cannot see imported types)
                pool_str += exported[j]["str"]
            pool_c += exported[j]["c"]
            pool_g += exported[j]["g"]
            pool_h += exported[j]["h"]
            if "." not in mods[j]["modpath"] and rng.random() < 0.5:      # qualified names m.K of a single-segment module
                pool_c += ["$%s.%s" % (mods[j]["modpath"], x[1:]) for x in exported[j]["c"] if x[0] == "$"]
        if reach and rng.random() < 0.5:
            for j in reach:
                pool_c += exported[j]["c"]
                pool_h += exported[j]["h"]
        own_val, own_fun, own_str = [], [], []
        own_c, own_g, own_h = [], [], []
        # type spellings a declaration of this module may use: built-in numeric spellings, typedef aliases / enums declared
        # EARLIER in this file (exported or hidden: the module's parser resolves them), and - when the parse-time import sees
        # the imported files - exported numeric typedef aliases / enums of the directly imported modules
        own_td = []                      # (name, cls) of own typedefs, in declaration order
        spell_num = list(BUILTIN_NUM)
        spell_str, spell_enum = [], []   # str-class aliases; (enum name, member, value)
        if not prefix:
            for j in direct:
                spell_num += exported[j]["td_num"]
                spell_enum += exported[j]["enums"]
        exp_td_num, exp_enums = [], []
        nitems = rng.randint(2, 5)
        kinds = [rng.choice("FFFPSSEEKVTGCCWHZTYYYXX") for _ in range(nitems)]
        if rng.random() < 0.5:
            # a typedef alias / an enum and a constant / global (or a function) spelled with a user-defined type
            kinds += [rng.choice("TTE"), rng.choice("YYYX")]
        if i == 0 and "V" not in kinds:
            kinds.append("V")
        if i == 0 and not ({"K", "C", "E"} & set(kinds)):
            kinds.insert(0, "K")
        if direct:
            # a module with imports initialises at least one export from what it imports
            kinds += [rng.choice("CW")] + ([rng.choice("CWH")] if rng.random() < 0.6 else [])
        if rng.random() < 0.5:
            kinds.append("H")
        for j, kd in enumerate(kinds):
            e = rng.random() < 0.65
            ident = 100 * (i + 1) + 10 * j

            def refs(k=2):
                out = []
                for _ in range(rng.randint(0, k)):
                    cand = [("v", x) for x in pool_val + own_val] + [("f", x) for x in pool_fun + own_fun]
                    if not cand:
                        break
                    t, x = rng.choice(cand)
                    out.append(x if t == "v" else "%s(a)" % x)
                return out
            def terms(pc, pg, ph, kmax=3, arg="2"):
                """1..kmax terms over the pools; returns the list (model syntax)"""
                out = []
                for _ in range(rng.randint(1, kmax)):
                    r = rng.random()
                    if ph and r < 0.3:
                        inner = arg if (rng.random() < 0.6 or not pc) else rng.choice(pc)
                        out.append("@%s(%s)" % (rng.choice(ph), inner))
                    elif pg and r < 0.5:
                        out.append(rng.choice(pg))
                    elif pc:
                        out.append(rng.choice(pc))
                return out
            if kd == "P" and not (pool_str + own_str):
                kd = "F"
            if kd == "Y":
                # a constant / global whose type is spelled otherwise than `int`: another parser branch per spelling
                # (parseTypedefTypeStatement for identifiers, the `unsigned` path, parseBasicTypeStatement) and another
                # value field on import (value / str_value / double_value)
                nm = "y%d_%d" % (i, j)
                is_c = rng.random() < 0.6
                dflt = e and rng.random() < 0.08
                r = rng.random()
                if r < 0.12:
                    stmts.append(("PV", e, nm, is_c, ident + 1, rng.choice(["double", "float"]), "dbl", dflt))
                elif r < 0.24 and spell_str:
                    stmts.append(("PV", e, nm, is_c, ident + 1, rng.choice(spell_str), "str", dflt))
                elif r < 0.45 and spell_enum:
                    en, mem_, val_ = rng.choice(spell_enum)
                    stmts.append(("PV", e, nm, is_c, "#%s:%s" % (en, mem_), en, "num", dflt))
                    if e:
                        (own_c if is_c else own_g).append("$" + nm)
                        own_val.append(nm)
                else:
                    user_num = [x for x in spell_num if x not in BUILTIN_NUM]
                    sp_ = rng.choice(user_num) if (user_num and rng.random() < 0.6) else rng.choice(spell_num)
                    if e:
                        ts = terms(pool_c + own_c, (pool_g + own_g) if (not is_c or rng.random() < 0.15) else [],
                                   (pool_h + own_h) if rng.random() < 0.3 else [], 2)
                        init = "+".join([str(ident + 1)] + ts) if (ts or rng.random() < 0.5) else ident + 1
                    else:
                        init = (ident + 1) if (is_c or rng.random() < 0.85) else None
                    stmts.append(("PV", e, nm, is_c, init, sp_, "num", dflt))
                    if e:
                        (own_c if is_c else own_g).append("$" + nm)
                        own_val.append(nm)
                continue
            if kd == "X":
                # a side-effect-free function whose return and parameter types are spelled with user-defined / unsigned /
                # long / short types (the function branch of parseTypedefTypeStatement / the `unsigned` path)
                nm = "x%d_%d" % (i, j)
                ts = terms(pool_c + own_c, pool_g + own_g, pool_h + own_h, 2, "a") if e else []
                user_num = [x for x in spell_num if x not in BUILTIN_NUM] + [x[0] for x in spell_enum]
                pick = lambda: rng.choice(user_num) if (user_num and rng.random() < 0.6) else rng.choice(spell_num)
                stmts.append(("PF", e, nm, ident, "+".join(["a", str(ident)] + ts), pick(), pick(), e and rng.random() < 0.08))
                if e:
                    own_h.append(nm)
                continue
            if kd == "Z":
                # a string constant / global (its own copy path in handle_import_statement: str_value); the model carries
                # the number, the text is "s<number>"
                stmts.append(("V", e, "z%d_%d" % (i, j), rng.random() < 0.6, ident + 9, "string"))
                continue
            if kd == "C":
                nm = "C%d_%d" % (i, j)
                if e:
                    # a constant: constants / enum members (what a single file may use at that point), sometimes a call
                    # or a non-const global (-> known findings about the single-file order, no inlined comparison)
                    ts = terms(pool_c + own_c, (pool_g + own_g) if rng.random() < 0.15 else [],
                               (pool_h + own_h) if rng.random() < 0.35 else [])
                    stmts.append(("V", e, nm, True, "+".join([str(ident + 1)] + ts)))
                    own_c.append("$" + nm)
                    own_val.append(nm)
                else:
                    stmts.append(("V", e, nm, True, ident + 1))
                continue
            if kd == "W":
                nm = "w%d_%d" % (i, j)
                if e:
                    ts = terms(pool_c + own_c, pool_g + own_g, (pool_h + own_h) if rng.random() < 0.35 else [])
                    stmts.append(("V", e, nm, False, "+".join([str(ident + 2)] + ts)))
                    own_g.append("$" + nm)
                    own_val.append(nm)
                else:
                    stmts.append(("V", e, nm, False, ident + 2))
                continue
            if kd == "H":
                nm = "h%d_%d" % (i, j)
                ts = terms(pool_c + own_c, pool_g + own_g, pool_h + own_h, 2, "a") if e else []
                stmts.append(("H", e, nm, ident, "+".join(["a", str(ident)] + ts)))
                if e:
                    own_h.append(nm)
                continue
            if kd == "P":
                nm = "p%d_%d" % (i, j)
                stmts.append(("F", e, nm, ident, [r for r in refs() if "(a)" not in r] if e else [], rng.choice(pool_str + own_str)))
            elif kd == "F":
                nm = "f%d_%d" % (i, j)
                stmts.append(("F", e, nm, ident, refs() if e else []))
                if e:
                    own_fun.append(nm)
            elif kd == "K":
                nm = "K%d_%d" % (i, j)
                stmts.append(("V", e, nm, True, ident + 1))
                if e:
                    own_val.append(nm)
                    own_c.append("$" + nm)
            elif kd == "V":
                nm = "g%d_%d" % (i, j)
                stmts.append(("V", e, nm, False, (ident + 2) if rng.random() < 0.85 else None))
                if e:
                    own_val.append(nm)
                    own_g.append("$" + nm)
            elif kd == "E":
                nm = "E%d_%d" % (i, j)
                stmts.append(("E", e, nm, [("EA", ident + 3), ("EB", ident + 4)]))
                if e:
                    own_val.append("%s::EB" % nm)
                    own_c.append("#%s:EB" % nm)
                    spell_enum.append((nm, "EB", ident + 4))      # (a hidden enum's members are not there when the importer
                    exp_enums.append((nm, "EB", ident + 4))       #  evaluates the initialiser: exported enums only)
            elif kd == "T":
                # typedef alias of a built-in type or of an earlier alias of this file (chains; hidden links)
                nm = "T%d_%d" % (i, j)
                r = rng.random()
                if own_td and r < 0.35:
                    tgt, cls_ = rng.choice(own_td)
                elif r < 0.5:
                    tgt, cls_ = "string", "str"
                elif r < 0.62:
                    tgt, cls_ = "long", "num"
                else:
                    tgt, cls_ = "int", "num"
                stmts.append(("T", e, nm, tgt))
                own_td.append((nm, cls_))
                (spell_num if cls_ == "num" else spell_str).append(nm)
                if e and cls_ == "num":
                    exp_td_num.append(nm)
            elif kd == "G":
                stmts.append(("S", e, "B%d_%d" % (i, j), True, [("x", None)]))
            elif kd == "S":
                sn, inn, mn = "S%d_%d" % (i, j), "I%d_%d" % (i, j), "m%d_%d" % (i, j)
                mems = [("x", None), ("y", None)]
                if rng.random() < 0.35:
                    mems.append(("v", rng.randint(2, 4)))          # array member (871ed77)
                stmts.append(("S", e, sn, False, mems))
                if e:
                    own_str.append(sn)
                ie = e and rng.random() < 0.8
                impl_e = e
                if "hidden_impl" in defects and e and rng.random() < 0.7:
                    impl_e = False
                if rng.random() < 0.8:
                    stmts.append(("N", ie, inn, [mn]))
                    statics = ["sv%d_%d" % (i, j)] if rng.random() < 0.35 else []     # impl static (a650333)
                    # method refs: self.x * d + refs (refs use `a`: not available) -> only value refs
                    mrefs = [r for r in refs(1) if "(a)" not in r] if e else []
                    stmts.append(("M", impl_e, inn, sn, [(mn, ident + 5, mrefs)], [], None, statics))
                if rng.random() < 0.7:
                    ctors = [(1, ident + 6)]
                    if rng.random() < 0.3:
                        ctors.append((2, ident + 7))
                    dtor = ident + 8 if rng.random() < 0.5 else None
                    stmts.append(("M", impl_e, None, sn, [], ctors, dtor, []))
        exported[i] = {"val": own_val, "fun": own_fun, "str": own_str, "c": own_c, "g": own_g, "h": own_h,
                       "reach": direct + reach, "td_num": exp_td_num, "enums": exp_enums}
        mods.append({"modpath": modpath, "path": prefix + file_path(modpath), "stmts": stmts,
                     "imports": sorted(set(j for j in range(i) if (i, j) in edges))})
    return mods


def closure(mods, roots):
    seen, order = set(), []

    def visit(i):
        if i in seen:
            return
        seen.add(i)
        for j in mods[i]["imports"]:
            visit(j)
        order.append(i)
    for r in roots:
        visit(r)
    return order            # dependencies first


def model_input(files, main_stmts):
    out = ["CASE"]
    for path, stmts in files:
        out.append("FILE " + path)
        out += [model_stmt(s) for s in stmts]
    out.append("MAIN")
    out += [model_stmt(s) for s in main_stmts]
    out.append("END")
    return out


def parse_model(lines):
    """-> list of dicts, one per case"""
    res, cur = [], None
    for l in lines:
        w = l.split(" ")
        if w[0] == "R":
            cur = {"ok": w[1] == "ok", "err": w[2:] if w[1] != "ok" else None, "F": {}, "S": {}, "N": {}, "T": {}, "V": {},
                   "E": {}, "D": {}, "C": {}, "IM": [], "ST": [], "L": [], "H": {}, "A": {}}
        elif w[0] == "END":
            res.append(cur)
            cur = None
        elif w[0] == "F":
            cur["F"][w[1]] = int(w[2])
        elif w[0] == "S":
            cur["S"][w[1]] = (w[2] == "1", [tuple(m.split(":")) for m in w[3].split(",")] if len(w) > 3 and w[3] else [])
        elif w[0] == "N":
            cur["N"][w[1]] = w[2].split(",") if len(w) > 2 and w[2] else []
        elif w[0] == "T":
            cur["T"][w[1]] = w[2]
        elif w[0] == "V":
            cur["V"][w[1]] = (w[2] == "1", None if w[3] == "-" else int(w[3]))
        elif w[0] == "E":
            cur["E"][w[1]] = [(m.split(":")[0], int(m.split(":")[1])) for m in w[2].split(",")] if len(w) > 2 else []
        elif w[0] == "H":
            cur["H"][w[1]] = None if w[2] == "!" else int(w[2])
        elif w[0] == "A":
            cur["A"][w[1]] = (w[2] == "accepted")
        elif w[0] == "D":
            cur["D"][w[1]] = int(w[2])
        elif w[0] == "C":
            cur["C"][(w[1], int(w[2]))] = int(w[3])
        elif w[0] == "IM":
            cur["IM"].append((None if w[1] == "-" else w[1], w[2],
                              [(m.split(":")[0], int(m.split(":")[1])) for m in w[3].split(",")] if len(w) > 3 and w[3] else []))
        elif w[0] == "ST":
            cur["ST"].append(tuple(w[1:4]))
        elif w[0] == "L":
            cur["L"].append(w[1])
    return res


def run_model(cases_lines):
    data = "\n".join(l for c in cases_lines for l in c) + "\n"
    rc, o, e = common.sh([common.model_bin(PROP)], input=data.encode(), timeout=900)
    if rc != 0:
        raise RuntimeError("c18_model failed: " + e[-500:])
    res = parse_model(o.split("\n"))
    if len(res) != len(cases_lines):
        raise RuntimeError("model result count %d != %d" % (len(res), len(cases_lines)))
    return res


# ------------------------------------------------------------------ programs built from the model's tables
def is_mangled(k, tab):
    if "::" in k:
        return True
    for i, s, ms in tab["IM"]:
        if i:
            for m, _ in ms:
                if k == "%s_%s_%s" % (i, s, m):
                    return True
    return False


def build_main(tab, single_seg_mods, reimport=None, blind=False, fparams=None, parse_visible=None, strvars=(), classes=None):
    # parse_visible: type names the parser of the running file knows (exports of the modules it imports itself);
    # generic structs and interface-typed variables can only be written with those (None = all)
    """main() that uses every name the model says is bound; returns (text, expectations) where
    expectations[idx] = (first '@' line demanded in block idx, last line demanded or None, what)."""
    body, exp = [], []

    def block(lines, first, last=None, what=""):
        idx = len(exp)
        body.append('  println("Q", %d);' % idx)
        body.extend("  " + l for l in lines)
        body.append('  println("Z", %d);' % idx)
        exp.append((first, last, what))
    for k in sorted(tab["V"]):
        c, v = tab["V"][k]
        if "." in k and k.rsplit(".", 1)[0] not in single_seg_mods:
            continue
        # the value the model computed for the initialiser (an uninitialised global reads 0)
        cls = (classes or {}).get(k.rsplit(".", 1)[-1], "str" if k.rsplit(".", 1)[-1] in strvars else "num")
        block(['println("@v", %s);' % k], "@v " + fmt_value(cls, v if v is not None else 0), None, "variable " + k)
    for k in sorted(tab["E"]):
        if tab["E"][k]:
            m, v = tab["E"][k][-1]
            block(['println("@e", %s::%s);' % (k, m)], "@e %d" % v, None, "enum " + k)
    for n, k in enumerate(sorted(tab["T"])):
        tcls = (classes or {}).get("typedef:" + k, "num" if tab["T"][k] == "int" else None)
        if tcls == "num":
            block(["%s tv%d = 5; println(\"@t\", tv%d + 1);" % (k, n, n)], "@t 6", None, "typedef " + k)
        elif tcls == "str":
            block(["%s tv%d = \"q%d\"; println(\"@t\", tv%d);" % (k, n, n, n)], "@t q%d" % n, None, "typedef " + k)
    for k in sorted(tab["H"]):
        if "." in k and k.rsplit(".", 1)[0] not in single_seg_mods:
            continue
        if tab["H"][k] is not None:
            # side-effect-free function: the model evaluates k(3) on the final tables (late-bound names included)
            block(['println("@h", %s(3));' % k], "@h %d" % tab["H"][k], None, "pure function " + k)
    for k in sorted(tab["F"]):
        if k == "main" or is_mangled(k, tab) or k in tab["H"]:
            continue
        if "." in k and k.rsplit(".", 1)[0] not in single_seg_mods:
            continue
        b = tab["F"][k]
        r = "r%d" % len(exp)
        ps = (fparams or {}).get(k.rsplit(".", 1)[-1])
        if ps:
            if ps not in tab["S"]:
                continue
            block(['%s %sq; %sq.x = 5; int %sa = %s(%sq); println("=", %sa);' % (ps, r, r, r, k, r, r)],
                  "@f %d" % b, None, "function %s(%s)" % (k, ps))
            continue
        block(['int %sa = %s(3); println("=", %sa);' % (r, k, r), 'int %sb = %s(4); println("=", %sb);' % (r, k, r)],
              "@f %d" % b, None, "function " + k)
    for n, k in enumerate(sorted(tab["S"])):
        generic, mems = tab["S"][k]
        if generic and (blind or (parse_visible is not None and k not in parse_visible)):
            continue            # without the parse-time import the parser cannot read `B<int> v;`
        if generic:
            block(["%s<int> gv%d; gv%d.x = 4; println(\"@g\", gv%d.x);" % (k, n, n, n)], "@g 4", None, "generic struct " + k)
            continue
        lines, first, last = [], None, None
        ars = sorted(a for (s, a) in tab["C"] if s == k)
        v = "sv%d" % n
        if ars:
            a = ars[-1]
            lines.append("%s %s(%s);" % (k, v, ", ".join(str(7 + i) for i in range(a))))
            first = "@c %d" % tab["C"][(k, a)]
        else:
            lines.append("%s %s; %s.x = 7;" % (k, v, v))
        lines.append('println("@x", %s.x);' % v)
        if first is None:
            first = "@x 7"
        for mn_, ext in mems:
            if ext != "-":
                lines.append('%s.%s[%d] = 9; %s.%s[0] = 4; println("@a", %s.%s[%d] + %s.%s[0]);'
                             % (v, mn_, int(ext) - 1, v, mn_, v, mn_, int(ext) - 1, v, mn_))
        for (i, s, ms) in tab["IM"]:
            if s != k:
                continue
            for m, b in ms:
                if tab["F"].get("%s::%s" % (k, m)) == b:
                    lines.append('int rm%d_%s = %s.%s(2); println("=", rm%d_%s);' % (n, m, v, m, n, m))
            if i and i in tab["N"] and not blind and (parse_visible is None or i in parse_visible):
                # an interface-typed variable needs the parse-time import
                lines.append("%s iv%d = %s;" % (i, n, v))
                for m, b in ms:
                    lines.append('int ri%d_%s = iv%d.%s(3); println("=", ri%d_%s);' % (n, m, n, m, n, m))
        if k in tab["D"]:
            last = "@d %d" % tab["D"][k]
        block(["{"] + ["  " + l for l in lines] + ["}"], first, last, "struct " + k)
    tail = []
    if reimport:
        var, mod, keep_import = reimport
        tail.append("  %s = %s + 1000;" % (var, var))
        if keep_import:
            tail.append("  import %s;" % mod)
        tail.append('  println("Q", %d);' % len(exp))
        tail.append('  println("@r", %s);' % var)
        exp.append((None, None, "re-import of %s at run time keeps %s" % (mod, var)))
    for k in sorted(tab["V"]):
        if "." not in k:
            tail.append('  println("=v", %s);' % k)
    return "void main() {\n" + "\n".join(body + tail) + "\n}\n", exp


def split_blocks(stdout):
    blocks, cur = {}, None
    for l in stdout.split("\n"):
        m = re.match(r"^Q (\d+)$", l)
        if m:
            cur = int(m.group(1))
            blocks[cur] = []
        elif re.match(r"^Z (\d+)$", l):
            cur = None
        elif cur is not None and l != "":
            blocks[cur].append(l)
    return blocks


def check_expectations(stdout, exp):
    """list of mismatches (idx, what, demanded, got)"""
    blocks = split_blocks(stdout)
    bad = []
    for idx, (first, last, what) in enumerate(exp):
        got = blocks.get(idx)
        if got is None:
            bad.append((idx, what, "block reached", "missing"))
            continue
        if first is not None:
            at = [l for l in got if l.startswith("@")]
            g = at[0] if at else None
            # "@f id n": compare kind and id only
            if g is not None and first.startswith("@f "):
                g = " ".join(g.split(" ")[:2])
            if g != first:
                bad.append((idx, what, first, g))
        if last is not None and (not got or got[-1] != last):
            bad.append((idx, what, "last line " + last, got[-1] if got else None))
    return bad


UNDEF = ("Undefined function", "Undefined variable", "Undefined type", "Undefined enum", "No constructor defined",
         "undefined", "not defined", "Unknown type", "not found")


def negative_probes(all_files, tab, single_seg_mods):
    """(what, statement) for every declared name the model says is NOT bound"""
    out = []
    for path, stmts in all_files:
        for s in stmts:
            k = s[0]
            if k in ("F", "H", "PF") and s[2] not in tab["F"]:
                out.append(("function " + s[2], 'println(%s(1));' % s[2]))
            elif k in ("V", "PV") and s[2] not in tab["V"]:
                out.append(("variable " + s[2], 'println(%s);' % s[2]))
            elif k == "E" and s[2] not in tab["E"]:
                out.append(("enum " + s[2], 'println(%s::%s);' % (s[2], s[3][0][0])))
            elif k == "T" and s[2] not in tab["T"]:
                out.append(("typedef " + s[2], '%s t; println(t);' % s[2]))
            elif k == "S" and s[2] not in tab["S"]:
                if s[3]:
                    out.append(("generic struct " + s[2], '%s<int> h; h.x = 1; println(h.x);' % s[2]))
                else:
                    out.append(("struct " + s[2], '%s h; h.x = 1; println(h.x);' % s[2]))
            elif k == "M" and s[3] in tab["S"]:
                for m in s[4]:
                    if ("%s::%s" % (s[3], m[0])) not in tab["F"]:
                        out.append(("method %s.%s" % (s[3], m[0]), '%s h; h.x = 1; println(h.%s(2));' % (s[3], m[0])))
                for ar, b in s[5]:
                    if (s[3], ar) not in tab["C"]:
                        out.append(("constructor %s/%d" % (s[3], ar), '%s h(%s); println(h.x);' % (s[3], ", ".join("1" * 1 for _ in range(ar)))))
    # qualified names of hidden functions through a single-segment module
    for path, stmts in all_files:
        mod = path[:-3]
        if mod.startswith(BLIND):
            mod = mod[len(BLIND):]
        if "/" in mod or mod not in single_seg_mods:
            continue
        for s in stmts:
            if s[0] in ("F", "H", "PF") and ("%s.%s" % (mod, s[2])) not in tab["F"]:
                out.append(("qualified function %s.%s" % (mod, s[2]), 'println(%s.%s(1));' % (mod, s[2])))
    return out


def assignment_probes(tab, classes, rng, k=3):
    """the model's verdict on `name = <value>;` by the importer (Model.assign: an imported constant - whatever the spelling
    of its type and the parser branch that made the node - rejects it, a global accepts it): up to k unqualified bound
    variables, spelled ones first"""
    names = sorted(n for n in tab["A"] if "." not in n and n in tab["V"] and not n.endswith("_main"))   # (not the importer's own)
    rng.shuffle(names)
    names.sort(key=lambda n: 0 if n.startswith("y") or n.startswith("K") else 1)
    out = []
    for n in names[:k]:
        cls = (classes or {}).get(n, "num")
        val = {"num": "1", "str": '"w"', "dbl": "1.5"}[cls]
        out.append((n, tab["A"][n], '%s = %s; println("after");' % (n, val)))
    return out


def run_assignment_probes(tree, impl, head, probes):
    """-> (runs, failures as (name, payload, text, concrete))"""
    fails = []
    for n, accepted, stmt in probes:
        rc, o, e = tree.run(impl, head + 'void main() { println("start"); %s }\n' % stmt)
        if accepted:
            ok = (rc == 0 and o == "start\nafter\n")
        else:
            ok = (rc == 1 and o.strip() == "start" and "const" in e.lower())
        if not ok:
            fails.append(("corr-assign", {"variable": n, "model_accepts": accepted, "stmt": stmt, "rc": rc, "stdout": o[-200:], "stderr": e[-300:]},
                          "assignment to imported %s: the model says %s, implementation: rc=%d %r %s" % (
                              n, "accepted" if accepted else "rejected (constant)", rc, o[-40:], first_err(e)),
                          o.startswith("start") and not accepted))      # a constant that can be assigned: concrete
    return len(probes), fails


# ------------------------------------------------------------------ running the implementation
class Tree:
    """module files written under a scratch root; programs run with cwd = root/cwd_rel"""

    def __init__(self, files, cwd_rel=""):
        self.root = tempfile.mkdtemp(prefix="cbv-c18-", dir=common.SCRATCH_ROOT)
        self.cwd = os.path.join(self.root, cwd_rel) if cwd_rel else self.root
        os.makedirs(self.cwd, exist_ok=True)
        for path, text in files:
            p = os.path.normpath(os.path.join(self.cwd, path))
            assert p.startswith(self.root), p
            os.makedirs(os.path.dirname(p), exist_ok=True)
            with open(p, "w") as fh:
                fh.write(text)
        self.n = 0

    def run(self, impl, text):
        self.n += 1
        name = "prog%d.cb" % self.n
        with open(os.path.join(self.cwd, name), "w") as fh:
            fh.write(text)
        rc, o, e = common.sh([os.path.join(impl, "main"), name], cwd=self.cwd, timeout=20)
        return rc, o, e

    def close(self):
        shutil.rmtree(self.root, ignore_errors=True)


def first_err(e):
    for l in e.split("\n"):
        if l.strip():
            return l.strip()
    return ""


def model_error_text(err):
    """what the implementation prints for the error the model predicts"""
    if err[0] == "open":
        return "Failed to open module file: %s (searched: %s)" % tuple(err[1:3])
    if err[0] == "undefvar":
        return "Undefined variable: %s" % err[1]
    if err[0] == "undeffunc":
        return "Undefined function: %s" % err[1]
    if err[0] == "undefenum":
        return "ndefined"
    return "Method name conflict"


# ------------------------------------------------------------------ one graph case (A + B)
def typedef_classes(mods):
    """typedef alias -> num | str, resolved through the chains of each file (harness knowledge: how to USE the alias)"""
    out = {}
    for m in mods:
        for st in m["stmts"]:
            if st[0] == "T":
                t = st[3]
                out[st[2]] = "str" if t == "string" else ("num" if t in ("int", "long", "short") else out.get(t))
    return out


def make_graph_case(seed, tag, k, n, edges, defects=(), prefix=""):
    rng = rng_for(seed, "c18-graph", tag, k)
    mods = gen_modules(rng, n, edges, defects, prefix)
    roots = [i for i in range(n) if rng.random() < 0.7] or [n - 1]
    if n > 1 and rng.random() < 0.25:
        roots = [n - 1]                                       # only the outermost module
    if rng.random() < 0.6:
        imports_idx = roots                                   # the modules' own imports are loaded with them (7f2ae2b)
    else:
        imports_idx = closure(mods, roots)                    # ... or also imported by the program (double paths)
    base = list(imports_idx)
    rng.shuffle(base)
    local = []
    # a local function of the importer that calls an imported exported function / reads a constant
    vis_f = [s[2] for i in closure(mods, imports_idx) for s in mods[i]["stmts"] if s[0] == "F" and s[1] and len(s) <= 5]
    vis_v = [s[2] for i in closure(mods, imports_idx) for s in mods[i]["stmts"] if is_var(s) and s[1] and s[4] is not None and var_cls(s) == "num"]
    if vis_f or vis_v:
        refs = ([rng.choice(vis_f) + "(a)"] if vis_f else []) + ([rng.choice(vis_v)] if vis_v else [])
        local.append(("F", False, "lf_main", 990, refs))
    if rng.random() < 0.5:
        # a constant of the importer itself, initialised from imported constants (evaluated after all imports)
        vis_c = [s[2] for i in closure(mods, imports_idx) for s in mods[i]["stmts"] if is_var(s) and s[1] and s[3] and s[4] is not None and var_cls(s) == "num"]
        init = 991 if (not vis_c or rng.random() < 0.4) else "991+" + "+".join("$" + rng.choice(vis_c) for _ in range(rng.randint(1, 2)))
        # ... sometimes spelled with a typedef alias that only the import makes known (the importer's parser has never
        # seen it: typedefs are not handed over at parse time; resolved when the declaration is executed)
        vis_t = [] if prefix else [s[2] for i in closure(mods, imports_idx) for s in mods[i]["stmts"]
                                   if s[0] == "T" and s[1] and typedef_classes(mods).get(s[2]) == "num"]
        if vis_t and rng.random() < 0.5:
            local.append(("PV", False, "lk_main", True, init, rng.choice(vis_t), "num", False))
        else:
            local.append(("V", False, "lk_main", True, init))
    case = {"kind": "graph", "mods": mods, "base": base, "local": local, "defects": list(defects), "prefix": prefix,
            "n": n, "edges": sorted(edges), "seed_tag": [tag, k]}
    case["no_inline"] = no_inline_reasons(case)
    return case


CYCLE_SHAPES = {
    # name: (number of modules, {module: [modules it imports]}, the outermost module, the modules ON a cycle)
    "two": (2, {0: [1], 1: [0]}, 0, {0, 1}),
    "three": (3, {0: [1], 1: [2], 2: [0]}, 0, {0, 1, 2}),
    "self": (2, {0: [0], 1: [0]}, 1, {0}),
    "self-alone": (1, {0: [0]}, 0, {0}),
    "diamond-into-cycle": (5, {0: [1], 1: [0], 2: [0], 3: [1], 4: [2, 3]}, 4, {0, 1}),
    "two-plus-tail": (3, {0: [1, 2], 1: [0], 2: []}, 0, {0, 1}),
}


def make_cycle_case(seed, shape, k):
    """import CYCLES (fix 129a992: the parse-time import skips a module that is being parsed further up the chain; the run-time
    loader marks a module loaded before it runs its imports): two modules importing each other, a 3-cycle, a module importing
    itself, a cycle entered from a diamond.  Every module exports a leaf function, a function that calls the leaf functions of
    the modules it imports (late-bound: no call cycle), side-effect-free functions reading its constants and calling the other
    modules' pure leaf functions, constants / globals with literal initialisers (spelled with an own alias now and then), types.
    No initialiser reads across the cycle (which module of a cycle is completed first depends on where the cycle is entered)."""
    rng = rng_for(seed, "c18-cycle", shape, k)
    n, imps, outer, on_cycle = CYCLE_SHAPES[shape]
    prefix = BLIND if k % 4 == 3 else ""
    dirs = [rng.choice(DIRS) for _ in range(n)]
    modpaths = [(dirs[i] + "." if dirs[i] else "") + "c%d" % i for i in range(n)]
    mods = []
    for i in range(n):
        ident = 100 * (i + 1)
        groups = [[("F", True, "f%d_0" % i, ident, [])],
                  [("F", True, "f%d_1" % i, ident + 10, ["f%d_0(a)" % j for j in imps[i] if j != i])],
                  [("V", True, "K%d_2" % i, True, ident + 21)],
                  [("H", True, "h%d_3" % i, ident + 30, "a+%d+$K%d_2" % (ident + 30, i))],
                  [("H", True, "h%d_4" % i, ident + 40, "+".join(["a", str(ident + 40)] + ["@h%d_3(a)" % j for j in imps[i] if j != i]))],
                  [("V", True, "g%d_5" % i, False, ident + 52)],
                  [("F", False, "f%d_6" % i, ident + 60, [])],
                  [("V", False, "K%d_7" % i, True, ident + 71)]]
        if rng.random() < 0.6:
            groups.append([("T", rng.random() < 0.7, "T%d_8" % i, "int"),
                           ("PV", True, "y%d_9" % i, rng.random() < 0.6, ident + 91, "T%d_8" % i, "num", False)])
        if rng.random() < 0.5:
            groups.append([("E", True, "E%d_10" % i, [("EA", ident + 103), ("EB", ident + 104)])])
        if rng.random() < 0.5:
            sn = "S%d_11" % i
            g = [("S", True, sn, False, [("x", None), ("y", None)])]
            # (known finding C18-import-cycle-with-impl-block: a module ON a cycle must not hold an impl block)
            if i not in on_cycle and rng.random() < 0.7:
                g.append(("N", True, "I%d_11" % i, ["m%d_11" % i]))
                g.append(("M", True, "I%d_11" % i, sn, [("m%d_11" % i, ident + 115, [])], [], None, []))
            if i not in on_cycle and rng.random() < 0.5:
                g.append(("M", True, None, sn, [], [(1, ident + 116)], ident + 118 if rng.random() < 0.5 else None, []))
            groups.append(g)
        rng.shuffle(groups)                           # (a type before what is spelled with it / implements it)
        # the import statements stand at the top or anywhere among the declarations
        stmts = [st for g in groups for st in g]
        for j in imps[i]:
            pos = 0 if rng.random() < 0.6 else rng.randint(0, len(stmts))
            stmts.insert(pos, ("I", modpaths[j]))
        mods.append({"modpath": modpaths[i], "path": prefix + file_path(modpaths[i]), "stmts": stmts, "imports": sorted(set(imps[i]))})
    r = rng.random()
    if r < 0.35:
        base = [outer]
    elif r < 0.6:
        base = [rng.randrange(n)]                     # the cycle is entered at any of its modules
    else:
        base = [i for i in range(n) if rng.random() < 0.6] or [outer]
    rng.shuffle(base)
    local = []
    loaded = closure(mods, sorted(set(base)))
    if rng.random() < 0.6:
        i = rng.choice(loaded)
        local.append(("F", False, "lf_main", 990, ["f%d_1(a)" % i, "K%d_2" % i]))
    case = {"kind": "graph", "mods": mods, "base": base, "local": local, "defects": [], "prefix": prefix,
            "n": n, "edges": sorted((i, j) for i in imps for j in imps[i]), "seed_tag": ["cycle-" + shape, k], "cycle": shape}
    case["no_inline"] = no_inline_reasons(case)
    return case


def no_inline_reasons(case):
    """shapes of the known findings C18-init-call-single-file / C18-const-init-reads-global-single-file among the modules the
    program loads: there the single-file (inlined) program is not a reference - it fails where the import works"""
    mods = case["mods"]
    loaded = closure(mods, sorted(set(case["base"])))
    nonconst = set(s[2] for m in mods for s in m["stmts"] if is_var(s) and not s[3])
    why = set()
    for i in loaded:
        for s in mods[i]["stmts"]:
            if is_var(s) and isinstance(s[4], str):
                if "@" in s[4]:
                    why.add("call-in-initialiser")
                if s[3] and any(x.rsplit(".", 1)[-1] in nonconst for x in expr_names(s[4], "$")):
                    why.add("const-reads-global")
    return sorted(why)


def case_files(case):
    return [(m["path"], m["stmts"]) for m in case["mods"]]


def program_text(imports, modpaths, local, main_text):
    return "\n".join(["import %s;" % modpaths[i] for i in imports] + [render_stmt(s) for s in local] + [main_text])


def inlined_text(case, order, main_text):
    out = []
    for i in order:
        for s in case["mods"][i]["stmts"]:
            if s[0] != "I":
                out.append(render_stmt(s, keep_export=False))
    out += [render_stmt(s) for s in case["local"]]
    out.append(main_text)
    return "\n".join(out)


def variants_of(case, rng, tier):
    base = case["base"]
    vs = [("base", list(base))]
    perms = list(itertools.permutations(base))
    if len(perms) > (24 if tier == "quick" else 120):
        rng.shuffle(perms)
        perms = perms[:(24 if tier == "quick" else 120)]
    for p in perms:
        if list(p) != base:
            vs.append(("perm", list(p)))
    deps = [i for i in closure(case["mods"], sorted(set(base))) if i not in base]
    if deps:
        # importing what is loaded anyway (through the imported modules) changes nothing, wherever it stands
        vs.append(("plus-deps-front", deps + base))
        vs.append(("plus-deps-back", base + list(reversed(deps))))
        mixed = deps + base
        rng.shuffle(mixed)
        vs.append(("plus-deps-mixed", mixed))
    if base:
        vs.append(("dup-adjacent", [base[0]] + base))
        vs.append(("dup-all", base + base))
        x = rng.choice(base)
        pos = rng.randint(0, len(base))
        vs.append(("dup-later", base[:pos] + [x] + base[pos:] + [x]))
        vs.append(("dup-reversed", base + list(reversed(base))))
    return vs


def run_graph_case(impl, case, tab, tier, seed, oracle=True):
    """returns dict(runs=, failures=[(name, payload, text, concrete)])"""
    fails = []
    mods = case["mods"]
    modpaths = [m["modpath"] for m in mods]
    files = [(m["path"], "\n".join(render_stmt(s) for s in m["stmts"]) + "\n") for m in mods]
    single = set(mp for mp in modpaths if "." not in mp)
    tree = Tree(files)
    runs = 0
    try:
        if not tab["ok"] and tab["err"][0] == "depth":
            raise RuntimeError("model recursion bound exhausted: " + " ".join(tab["err"]))
        if not tab["ok"]:
            rc, o, e = tree.run(impl, program_text(case["base"], modpaths, case["local"], "void main() { println(1); }\n"))
            runs += 1
            want = model_error_text(tab["err"])
            if rc != 1 or want not in e:
                fails.append(("corr-error", {"model": tab["err"], "rc": rc, "stderr": e[-400:]},
                              "model predicts the import error '%s', implementation: rc=%d %s" % (want, rc, first_err(e)), False))
            return {"runs": runs, "failures": fails, "bindings": 0, "negatives": 0, "variants": 0}
        # re-import probe: an exported non-const global of a directly imported module
        reimp = None
        for i in case["base"]:
            for s in mods[i]["stmts"]:
                if is_var(s) and s[1] and not s[3] and s[2] in tab["V"] and var_cls(s) == "num":
                    reimp = (s[2], modpaths[i])
                    break
            if reimp:
                break
        blind = bool(case.get("prefix"))
        fparams = {st[2]: st[5] for m in mods for st in m["stmts"] if st[0] == "F" and len(st) > 5 and st[5]}
        pv = set(st[2] for i in set(case["base"]) for st in mods[i]["stmts"] if st[0] in ("S", "N") and st[1])
        strvars = set(st[2] for m in mods for st in m["stmts"] if st[0] == "V" and len(st) > 5 and st[5] == "string")
        classes = {st[2]: var_cls(st) for m in mods for st in m["stmts"] if is_var(st)}
        classes.update({st[2]: var_cls(st) for st in case["local"] if is_var(st)})
        classes.update({"typedef:" + k_: v_ for k_, v_ in typedef_classes(mods).items()})
        main_text, exp = build_main(tab, single, reimport=(reimp + (True,)) if reimp else None, blind=blind, fparams=fparams, parse_visible=pv, strvars=strvars, classes=classes)
        main_inl, _ = build_main(tab, set(), reimport=(reimp + (False,)) if reimp else None, blind=blind, fparams=fparams, parse_visible=pv, strvars=strvars, classes=classes)
        rng = rng_for(seed, "c18-variants", *case["seed_tag"])
        vs = variants_of(case, rng, tier)
        outs = []
        for name, imps in vs:
            rc, o, e = tree.run(impl, program_text(imps, modpaths, case["local"], main_text))
            runs += 1
            outs.append((name, imps, rc, o, e))
        name0, imps0, rc0, o0, e0 = outs[0]
        # the same imports executed as statements at the beginning of main (Interpreter::execute_statement ->
        # handle_import_statement): possible when no declaration of the importer is initialised from an import
        late = None
        if not any(is_var(st) and (isinstance(st[4], str) or st[0] == "PV") for st in case["local"]):
            late_main = main_text.replace("void main() {\n", "void main() {\n" + "".join("  import %s;\n" % modpaths[i] for i in imps0), 1)
            rcl, ol, el = tree.run(impl, program_text([], modpaths, case["local"], late_main))
            runs += 1
            late = (rcl, ol, el)
        # A. table agreement on the base variant
        no_inline = case.get("no_inline") or []
        if rc0 != 0:
            # evaluate the property's own oracle on this input: does another order of the same imports run, does the
            # inlined single file run?
            good = [(name, imps) for name, imps, rc, o, e in outs[1:] if rc == 0]
            order0 = closure(mods, sorted(set(imps0)))
            rci = None
            if not no_inline:
                rci, oi, ei = tree.run(impl, inlined_text(case, order0, main_inl))
                runs += 1
            if oracle and good:
                fails.append(("oracle-variant", {"variant": good[0][0], "imports": [modpaths[i] for i in good[0][1]],
                                                 "base": [modpaths[i] for i in imps0], "rc_base": rc0, "stderr_base": e0[-600:]},
                              "import list %s fails (rc=%d %s) while %s (%s) runs" % (
                                  [modpaths[i] for i in imps0], rc0, first_err(e0), [modpaths[i] for i in good[0][1]], good[0][0]), True))
            elif rci == 0 and oracle:
                fails.append(("oracle-inlined", {"imports": [modpaths[i] for i in imps0], "rc_import": rc0, "rc_inlined": rci,
                                                 "stderr_import": e0[-600:], "stdout_import": o0[-300:]},
                              "importing program fails (rc=%d %s) while the single-file inlined program runs" % (rc0, first_err(e0)), True))
            else:
                fails.append(("corr-run", {"imports": [modpaths[i] for i in imps0], "rc": rc0, "stderr": e0[-600:], "stdout": o0[-600:],
                                           "rc_inlined": rci},
                              "program using exactly the names the model says are bound fails: rc=%d %s" % (rc0, first_err(e0)), False))
        else:
            bad = check_expectations(o0, exp)
            for idx, what, want, got in bad[:3]:
                fails.append(("corr-binding", {"block": idx, "what": what, "model": want, "impl": got},
                              "%s: model says %s, implementation shows %s" % (what, want, got), False))
        # negative probes
        neg = negative_probes(case_files(case), tab, single)
        for what, stmt in neg:
            txt = program_text(imps0, modpaths, [], 'void main() { println("start"); %s }\n' % stmt)
            rc, o, e = tree.run(impl, txt)
            runs += 1
            if not (rc == 1 and o.strip() == "start" and any(u in e for u in UNDEF)):
                usable = (rc == 0 or o.strip() != "start")
                fails.append(("corr-hidden" if o.startswith("start") else "corr-probe",
                              {"what": what, "stmt": stmt, "rc": rc, "stdout": o[-300:], "stderr": e[-300:]},
                              ("%s is not bound in the model but usable on the implementation (rc=%d, %r)" % (what, rc, o[-80:]))
                              if o.startswith("start") else
                              ("probe program for %s did not reach main: rc=%d %s" % (what, rc, first_err(e))),
                              o.startswith("start")))   # concrete: something not exported/imported can be named
        if rc0 == 0:
            n_, fl_ = run_assignment_probes(tree, impl, "".join("import %s;\n" % modpaths[i] for i in imps0),
                                            assignment_probes(tab, classes, rng_for(0, "c18-assign", *case["seed_tag"])))   # (per case, not per run: replayable)
            runs += n_
            fails += fl_
        nvar = 0
        if oracle and rc0 == 0:
            # B. oracle: every variant and the inlined program behave like the base program.
            #    qualified-name blocks exist only in the importing form: the inlined text is built with
            #    no single-segment modules, so compare on the common lines (blocks are self-delimiting).
            for name, imps, rc, o, e in outs[1:]:
                nvar += 1
                if rc != rc0 or o != o0:
                    fails.append(("oracle-variant", {"variant": name, "imports": [modpaths[i] for i in imps],
                                                     "base": [modpaths[i] for i in imps0], "rc": rc, "stdout_diff": first_diff(o0, o),
                                                     "stderr": e[-300:]},
                                  "import list %s (%s) behaves differently from %s: %s" % (
                                      [modpaths[i] for i in imps], name, [modpaths[i] for i in imps0], first_diff(o0, o)), True))
                    break
            if late is not None:
                nvar += 1
                if late[0] != rc0 or late[1] != o0:
                    fails.append(("oracle-late-import", {"imports": [modpaths[i] for i in imps0], "rc": late[0],
                                                         "stdout_diff": first_diff(o0, late[1]), "stderr": late[2][-300:]},
                                  "the imports %s executed at the beginning of main behave differently from the same imports at "
                                  "file level: %s" % ([modpaths[i] for i in imps0], first_diff(o0, late[1])), True))
            order = closure(mods, sorted(set(imps0)))
            # inlined form needs the same bindings minus qualified names: rebuild the base run without them
            if not no_inline:
                if single:
                    main_nq, _ = build_main(tab, set(), reimport=(reimp + (True,)) if reimp else None, blind=blind, fparams=fparams, parse_visible=pv, strvars=strvars, classes=classes)
                    rcq, oq, eq = tree.run(impl, program_text(imps0, modpaths, case["local"], main_nq))
                    runs += 1
                else:
                    rcq, oq, eq = rc0, o0, e0
                rci, oi, ei = tree.run(impl, inlined_text(case, order, main_inl))
                runs += 1
                nvar += 1
                if rci != rcq or oi != oq:
                    fails.append(("oracle-inlined", {"imports": [modpaths[i] for i in imps0], "rc_import": rcq, "rc_inlined": rci,
                                                     "stdout_diff": first_diff(oq, oi), "stderr_inlined": ei[-300:], "stderr_import": eq[-300:]},
                                  "importing program and single-file inlined program differ: %s" % first_diff(oq, oi), True))
        return {"runs": runs, "failures": fails, "bindings": len(exp), "negatives": len(neg), "variants": nvar}
    finally:
        for f in fails:
            f[1].setdefault("case", case_replay(case))
        tree.close()


def spell_kind(sp, mods):
    """coverage bucket of a type spelling"""
    if sp.startswith("u."):
        return "unsigned"
    if sp in ("long", "short", "double", "float", "int", "string"):
        return "builtin_" + sp
    for i, m in enumerate(mods):
        for st in m["stmts"]:
            if st[2:3] == (sp,) and st[0] in ("T", "E"):
                return ("typedef" if st[0] == "T" else "enum") + ("_exported" if st[1] else "_hidden")
    return "other"


def first_diff(a, b):
    la, lb = a.split("\n"), b.split("\n")
    for i in range(max(len(la), len(lb))):
        x = la[i] if i < len(la) else "<end>"
        y = lb[i] if i < len(lb) else "<end>"
        if x != y:
            return "line %d: %r vs %r" % (i + 1, x, y)
    return "equal"


def case_replay(case):
    return {"kind": case["kind"], "mods": case.get("mods"), "base": case.get("base"), "local": case.get("local"),
            "defects": case.get("defects"), "seed_tag": case.get("seed_tag"), "extra": case.get("extra"),
            "prefix": case.get("prefix", ""), "no_inline": case.get("no_inline")}


def graph_model_lines(case):
    main = [("I", case["mods"][i]["modpath"]) for i in case["base"]] + list(case["local"]) + [("F", False, "main", 999, [])]
    return model_input(case_files(case), main)


# ------------------------------------------------------------------ search-path / path-form / clash families
CANDS = ["", "modules/", "../modules/", "../../modules/", "../", "../../", "tests/cases/import_export/",
         "../../tests/cases/import_export/"]


def simple_fn(name, ident, exported=True):
    return ("F", exported, name, ident, [])


def make_search_case(subset, modpath):
    fp = file_path(modpath)
    files = [(CANDS[i] + fp, [simple_fn("which", 10 + i)]) for i in subset]
    return {"kind": "search", "files": files, "imports": [modpath], "cwd": "w1/w2", "extra": {"subset": list(subset), "modpath": modpath},
            "seed_tag": ["search", modpath] + list(subset)}


def make_pathform_case(modpath, place):
    """place: 'dotted' -> file at the slash path; 'literal' -> file named like the module path itself; 'none'"""
    files = []
    if place in ("dotted", "both"):
        files.append((modpath.replace(".", "/") + ".cb", [simple_fn("which", 21)]))
    if place in ("literal", "both"):
        files.append((modpath, [simple_fn("which", 22)]))
        files.append((modpath + ".cb", [simple_fn("which", 23)]))
    # dedupe identical paths (undotted module path: dotted == literal + ".cb")
    seen, out = set(), []
    for p, s in files:
        if p not in seen:
            seen.add(p)
            out.append((p, s))
    return {"kind": "pathform", "files": out, "imports": [modpath], "cwd": "", "extra": {"modpath": modpath, "place": place},
            "seed_tag": ["pathform", modpath, place]}


def make_clash_case(rng, k):
    """modules exporting the same names, flat or importing each other (a module and the module it imports export the same
    name: the position of the import statement among the declarations decides).  With both import paths active the enum
    binding is decided by the (unmodelled) parse-time path, so enums clash only in the run-time-only placement.  Each module
    also exports a constant initialised from the clashing constant KS as it is bound AT THAT MOMENT (own, another
    module's, or not at all -> the import fails with 'Undefined variable')."""
    n = rng.randint(2, 3)
    names = ["a", "b", "c"][:n]
    files = []
    blind = rng.random() < 0.5
    nested = rng.random() < 0.6
    for i, nm in enumerate(names):
        st = [simple_fn("same", 30 + i), ("V", True, "KS", True, 40 + i)]
        if blind:
            st.append(("E", True, "ES", [("EA", 50 + i)]))
            st.append(("T", True, "TS", "int"))
            st.append(("S", True, "SS", False, [("x", None)]))
        if rng.random() < 0.5:
            st.append(simple_fn("only_" + nm, 60 + i))
        if rng.random() < 0.4:
            st[0] = simple_fn("same", 30 + i, exported=False)
        if rng.random() < 0.6:
            st.append(("V", True, "KD_" + nm, True, "%d+$KS" % (80 + i)))
        if rng.random() < 0.4:
            st.append(("H", True, "hs", 90 + i, "a+%d+$KS" % (90 + i)))
            if rng.random() < 0.5:
                st.append(("V", True, "KH_" + nm, False, "@hs(1)"))
        rng.shuffle(st)
        if rng.random() < 0.5:
            # the clashing constants are spelled with a (hidden) typedef alias of the module: the identifier branch of the parser
            tq = "Tq_" + nm
            st = [("PV",) + x[1:5] + (tq, "num", False) if (x[0] == "V" and x[2].startswith("K") and x[3]) else x for x in st]
            st.insert(0, ("T", False, tq, "int"))
        if nested and i > 0:
            tgt = names[i - 1] if rng.random() < 0.6 else names[0]
            st.insert(rng.randint(0, len(st)), ("I", tgt))          # the import stands anywhere among the declarations
            if rng.random() < 0.25:
                st.insert(rng.randint(0, len(st)), ("I", rng.choice(names[:i])))
        files.append(((BLIND if blind else "") + nm + ".cb", st))
    order = names[:]
    rng.shuffle(order)
    if nested and rng.random() < 0.5:
        order = order[:rng.randint(1, len(order))]            # only some of them are imported by the program itself
    if rng.random() < 0.4:
        order.append(rng.choice(names))
    local = [simple_fn("same", 70, exported=False)] if rng.random() < 0.35 else []
    return {"kind": "clash", "files": files, "imports": order, "local": local, "cwd": "", "extra": {}, "seed_tag": ["clash", k]}


def make_conflict_case(rng, k):
    """impl blocks of SEVERAL modules (and of the importer itself) for one struct: register_impl_definition rejects a method
    name that another impl block (another interface) of the struct already defines - 'Method name conflict' - and replaces a
    block with the same (interface, struct) key; the model's find_conflict / replace_impl (EConflict)"""
    files = [("cs.cb", [("S", True, "SS", False, [("x", None), ("y", None)])])]
    pool = ["ma", "mb", "mc", "md", "me", "mf", "mg"] if rng.random() < 0.6 else ["ma", "mb", "mc"]
    mods = ["ca", "cb", "cc"][:rng.randint(2, 3)]
    for i, nm in enumerate(mods):
        ms = rng.sample(pool, rng.randint(1, 2))
        st = [("I", "cs"),
              ("N", True, "I_" + nm, ms),
              ("M", True, "I_" + nm, "SS", [(m, 100 * (i + 1) + j, []) for j, m in enumerate(ms)], [], None, [])]
        if rng.random() < 0.3:
            st.append(("M", True, None, "SS", [], [(1, 100 * (i + 1) + 9)], None, []))
        files.append((nm + ".cb", st))
    imports = [m for m in mods if rng.random() < 0.75] or [rng.choice(mods)]
    rng.shuffle(imports)
    if rng.random() < 0.3:
        imports.append(rng.choice(imports))
    local = []
    if rng.random() < 0.4:
        ms = rng.sample(pool, 1)
        local = [("N", False, "I_loc", ms), ("M", False, "I_loc", "SS", [(ms[0], 990, [])], [], None, [])]
    return {"kind": "conflict", "files": files, "imports": imports, "local": local, "cwd": "", "extra": {}, "seed_tag": ["conflict", k]}


def selected_files(case):
    """the file system the model sees.  `import m { a, b };` (case["select"] = {module path: [items]}, the module is
    imported by this one statement only) registers of m's exported declarations exactly the listed ones
    (handle_import_statement: has_specific_items): to the model that is the module with `export` removed from the others."""
    sel = case.get("select") or {}
    out = []
    for path, st in case["files"]:
        mod = path[:-3]
        if mod.startswith(BLIND):
            mod = mod[len(BLIND):]
        mod = mod.replace("/", ".")
        if mod in sel:
            st = [x if (x[0] in ("I", "M") or x[2] in sel[mod]) else (x[0], False) + tuple(x[2:]) for x in st]
        out.append((path, st))
    return out


def make_effects_case(rng, k):
    """initialisers with a visible side effect: every initialiser of every loaded module runs exactly once, whatever the
    import list (diamond base <- l, r; duplicates; supersets), and a module's initialisers run after those of the modules
    it imports.  Tested only (the model's functions have no side effects)."""
    ids = {"eb": 1, "el": 2, "er": 3, "et": 4}
    tick = 'export int tick%d(int a) { println("@i", a); return a; }'
    files = {
        "eb.cb": tick % 1 + "\nexport const int KB = tick1(10);\nexport int GB = tick1(11) + KB;\n",
        "el.cb": "import eb;\n" + tick % 2 + "\nexport const int KL = tick2(20) + KB;\n",
        "er.cb": "import eb;\n" + tick % 3 + "\nexport int GR = tick3(30) + GB;\nexport const int KR = tick1(31);\n",
        "et.cb": "import el;\nimport er;\n" + tick % 4 + "\nexport const int KT = tick4(40) + KL + KR;\n",
    }
    deps = {"eb": [], "el": ["eb"], "er": ["eb"], "et": ["el", "er"]}
    lines = {"eb": [10, 11], "el": [20], "er": [30, 31], "et": [40]}
    names = ["eb", "el", "er", "et"]
    imports = [x for x in names if rng.random() < 0.5] or [rng.choice(names)]
    rng.shuffle(imports)
    if rng.random() < 0.5:
        imports.append(rng.choice(imports))
    return {"kind": "effects", "text_files": files, "imports": imports, "deps": deps, "lines": lines,
            "seed_tag": ["effects", k], "files": [], "late": rng.random() < 0.3}


def run_effects_case(impl, case):
    fails = []
    tree = Tree(list(case["text_files"].items()))
    try:
        seen, order = set(), []

        def visit(m):
            if m in seen:
                return
            seen.add(m)
            for d in case["deps"][m]:
                visit(d)
            order.append(m)
        for m in case["imports"]:
            visit(m)
        want = [l for m in order for l in case["lines"][m]]         # the loader's order: dependencies first, once
        imps = "".join("import %s;\n" % m for m in case["imports"])
        if case.get("late"):
            prog = 'void main() {\n%s  println("main");\n}\n' % imps
        else:
            prog = imps + 'void main() { println("main"); }\n'
        rc, o, e = tree.run(impl, prog)
        got = [l for l in o.split("\n") if l]
        demanded = ["@i %d" % x for x in want] + ["main"]
        if rc != 0 or got != demanded:
            fails.append(("oracle-effects", {"case": {"kind": "effects", "text_files": case["text_files"], "imports": case["imports"],
                                                      "deps": case["deps"], "lines": case["lines"], "late": case.get("late"),
                                                      "seed_tag": case["seed_tag"]},
                                             "rc": rc, "stdout": o[-400:], "stderr": e[-300:], "demanded": demanded},
                          "imports %s: every initialiser of every loaded module must run exactly once, dependencies first: demanded %s, "
                          "got %s (rc=%d %s)" % (case["imports"], " ".join(demanded), " ".join(got), rc, first_err(e)), True))
        return {"runs": 1, "failures": fails, "bindings": 0, "negatives": 0, "variants": 1}
    finally:
        tree.close()


def flat_model_lines(case):
    main = [("I", p) for p in case["imports"]] + list(case.get("local", [])) + [("F", False, "main", 999, [])]
    return model_input(selected_files(case), main)


def make_selective_case(rng, k):
    """`import sm { ... };`: a module with a nested import and exports of every kind; the selection is closed under the
    references between the module's own exports (known finding C18-selective-import-drops-dependencies otherwise)"""
    blind = rng.random() < 0.3
    sb = [("V", True, "KB", True, 11), ("H", True, "hb", 12, "a+12+$KB"), ("V", True, "gb", False, 13)]
    sm = [("I", "sb"),
          ("V", True, "K1", True, "21+$KB"),
          ("V", True, "K2", True, "22+$K1"),
          ("V", True, "w3", False, "23+$KB+$gb"),
          ("H", True, "h4", 24, "a+24+$K1"),
          ("F", True, "f5", 25, []),
          ("E", True, "E6", [("EA", 26), ("EB", 27)]),
          ("T", True, "T7", "int"),
          ("S", True, "S8", False, [("x", None), ("y", None)]),
          ("M", True, None, "S8", [], [(1, 28)], None, []),
          ("F", False, "hid9", 29, []),
          ("V", True, "KZ", True, 30),
          ("PV", True, "KT", True, 31, "T7", "num", False),              # spelled with the module's typedef alias / enum
          ("PV", True, "KE", True, "#E6:EB", "E6", "num", False),
          ("PV", True, "gu", False, "33+$KZ", "u.long", "num", False),
          ("PF", True, "x9", 34, "a+34+$K1", "T7", "u.int", False),
          ("PV", False, "hidk", True, 35, "T7", "num", False)]
    deps = {"K2": ["K1"], "h4": ["K1"], "KE": ["E6"], "gu": ["KZ"], "x9": ["K1"]}
    names = ["K1", "K2", "w3", "h4", "f5", "E6", "T7", "S8", "KZ", "KT", "KE", "gu", "x9"]
    items = [x for x in names if rng.random() < 0.45] or [rng.choice(names)]
    for x in list(items):
        for d in deps.get(x, []):
            if d not in items:
                items.append(d)
    extra = []
    if rng.random() < 0.3:
        extra.append(rng.choice(["hid9", "hidk"]))   # naming something the module does not export binds nothing
    if rng.random() < 0.2:
        extra.append("nosuch")
    listed = items + extra
    rng.shuffle(listed)
    pre = ["import sb;"] if rng.random() < 0.3 else []
    post = ["import sb;"] if rng.random() < 0.3 else []
    text = "\n".join(pre + ["import sm { %s };" % ", ".join(listed)] + post)
    imports = (["sb"] if pre else []) + ["sm"] + (["sb"] if post else [])
    files = [((BLIND if blind else "") + "sb.cb", sb), ((BLIND if blind else "") + "sm.cb", sm)]
    return {"kind": "selective", "files": files, "imports": imports, "import_text": text, "select": {"sm": listed},
            "local": [], "cwd": "", "extra": {"items": listed}, "seed_tag": ["selective", k]}


def run_flat_case(impl, case, tab):
    fails, runs = [], 0
    files = [(p, "\n".join(render_stmt(s) for s in st) + "\n") for p, st in case["files"]]
    tree = Tree(files, case.get("cwd", ""))
    try:
        single = set(p for p in case["imports"] if "." not in p)
        imports_txt = case.get("import_text") or "\n".join("import %s;" % p for p in case["imports"])
        local_txt = "\n".join(render_stmt(s) for s in case.get("local", []))
        if not tab["ok"]:
            rc, o, e = tree.run(impl, imports_txt + "\n" + local_txt + "\nvoid main() { println(1); }\n")
            runs += 1
            want = model_error_text(tab["err"])
            if rc != 1 or want not in e or o.strip() != "":
                fails.append(("corr-error", {"model": tab["err"], "rc": rc, "stdout": o[-200:], "stderr": e[-400:], "case": case_replay_flat(case)},
                              "model predicts '%s', implementation: rc=%d %s" % (want, rc, first_err(e) or o[-80:]), False))
            return {"runs": runs, "failures": fails, "bindings": 1, "negatives": 0, "variants": 0}
        classes = {st[2]: var_cls(st) for _, sts in case["files"] for st in sts if is_var(st)}
        main_text, exp = build_main(tab, single, blind=any(p.startswith(BLIND) for p, _ in case["files"]), classes=classes)
        rc, o, e = tree.run(impl, imports_txt + "\n" + local_txt + "\n" + main_text)
        runs += 1
        if rc != 0:
            fails.append(("corr-run", {"rc": rc, "stderr": e[-600:], "stdout": o[-300:], "case": case_replay_flat(case)},
                          "program using exactly the names the model says are bound fails: rc=%d %s" % (rc, first_err(e)), False))
        else:
            for idx, what, want, got in check_expectations(o, exp)[:3]:
                fails.append(("corr-binding", {"what": what, "model": want, "impl": got, "case": case_replay_flat(case)},
                              "%s: model says %s, implementation shows %s" % (what, want, got), False))
        if rc == 0 and case["kind"] in ("clash", "selective"):
            n_, fl_ = run_assignment_probes(tree, impl, imports_txt + "\n",
                                            assignment_probes(tab, classes, rng_for(0, "c18-assign", *[str(x) for x in case["seed_tag"]]), 2))
            runs += n_
            for f_ in fl_:
                f_[1]["case"] = case_replay_flat(case)
            fails += fl_
        neg = negative_probes(case["files"], tab, single)
        for what, stmt in neg:
            rc, o, e = tree.run(impl, imports_txt + '\nvoid main() { println("start"); %s }\n' % stmt)
            runs += 1
            if not (rc == 1 and o.strip() == "start" and any(u in e for u in UNDEF)):
                reached = o.startswith("start")
                fails.append(("corr-hidden" if reached else "corr-probe",
                              {"what": what, "stmt": stmt, "rc": rc, "stdout": o[-300:], "stderr": e[-300:],
                               "case": case_replay_flat(case)},
                              ("%s is not bound in the model but usable on the implementation" % what) if reached else
                              ("probe program for %s did not reach main (the model says the imports succeed): rc=%d %s" % (what, rc, first_err(e))),
                              True))
        return {"runs": runs, "failures": fails, "bindings": len(exp), "negatives": len(neg), "variants": 0}
    finally:
        tree.close()


def case_replay_flat(case):
    return {"kind": case["kind"], "files": case["files"], "imports": case["imports"], "local": case.get("local", []),
            "cwd": case.get("cwd", ""), "extra": case.get("extra"), "seed_tag": case.get("seed_tag"),
            "import_text": case.get("import_text"), "select": case.get("select")}


# ------------------------------------------------------------------ kind x type-spelling matrix (oracle only)
# Every cell is one exported item: (label, type providers needed, declaration lines with the placeholders
# EXPORT / N (a suffix unique to the case) / V (a number), statements of the importer that use it, flags).
# Flags: "x" the item may live in another module than the type providers (the module's parser then knows struct / enum /
# interface names from the parse-time import only, typedef aliases not at all); "h" also with HIDDEN type providers.
# The oracle: importing program == single-file program; the same item without `export` cannot be named.
KIND_PROVIDERS = {
    "Ms": "typedef int MsN;", "Tk": "typedef MsN TkN;", "Lb": "typedef string LbN;", "Ll": "typedef long LlN;",
    "Lv": "enum LvN { LoN = 1, MidN = 5, HiN = 9 };", "Pt": "struct PtN { int x; int y; };",
    "Bx": "struct BxN<T> { T v; };", "P2": "typedef PtN P2N;", "L2": "typedef LvN L2N;",
    "A3": "typedef int[3] A3N;", "Opt": "enum OptN<T> { Some(T), None };",
    "Sh": "interface ShN { int area(int d); };\nimpl ShN for PtN { int area(int d) { return self.x * d; } }",
}
PROVIDER_DEPS = {"Tk": ["Ms"], "P2": ["Pt"], "L2": ["Lv"], "Sh": ["Pt"]}
KIND_CELLS = [
    ("const long", [], "EXPORT const long kN = 30000000V;", "println(kN);", "xh"),
    ("short global", [], "EXPORT short gN = 3V;", "println(gN); gN = gN + 1; println(gN);", "xh"),
    ("tiny global", [], "EXPORT tiny gN = 1V;", "println(gN);", "xh"),
    ("const bool", [], "EXPORT const bool kN = true;", "println(kN);", "xh"),
    ("bool global", [], "EXPORT bool gN = true;", "println(gN); gN = false; println(gN);", "xh"),
    ("const char", [], "EXPORT const char kN = 'x';", "println(kN);", "xh"),
    ("const unsigned int", [], "EXPORT const unsigned int kN = 7V;", "println(kN);", "xh"),
    ("unsigned long global", [], "EXPORT unsigned long gN = 7V;", "println(gN); gN = gN + 5; println(gN);", "xh"),
    ("const string", [], 'EXPORT const string kN = "abV";', "println(kN);", "xh"),
    ("string global", [], 'EXPORT string gN = "abV";', 'println(gN); gN = "cd"; println(gN);', "xh"),
    ("const float", [], "EXPORT const float kN = V.5;", "println(kN);", "xh"),
    ("double global", [], "EXPORT double gN = V.25;", "println(gN);", "xh"),
    ("const quad", [], "EXPORT const quad kN = V.5;", "println(kN);", "xh"),
    ("const big", [], "EXPORT const big kN = 25V;", "println(kN);", "xh"),
    ("long global", [], "EXPORT long gN = 500000000V;", "println(gN); gN = gN + 1; println(gN);", "xh"),
    ("const typedef alias", ["Ms"], "EXPORT const MsN kN = 25V;", "println(kN);", "xh"),
    ("typedef alias global", ["Ms"], "EXPORT MsN gN = 7V;", "println(gN); gN = gN + 1; println(gN);", "xh"),
    ("typedef alias global, no initialiser", ["Ms"], "EXPORT MsN gN;", "println(gN); gN = gN + V; println(gN);", "xh"),
    ("const typedef of typedef", ["Tk"], "EXPORT const TkN kN = 9V;", "println(kN);", "xh"),
    ("const typedef of long", ["Ll"], "EXPORT const LlN kN = 40000000V;", "println(kN);", "xh"),
    ("const typedef of string", ["Lb"], 'EXPORT const LbN kN = "lbV";', "println(kN);", "h"),
    ("typedef of string global", ["Lb"], 'EXPORT LbN gN = "lbV";', "println(gN);", "h"),
    ("const enum", ["Lv"], "EXPORT const LvN kN = LvN::MidN;", "println(kN);", "x"),
    ("enum global", ["Lv"], "EXPORT LvN gN = LvN::HiN;", "println(gN); gN = LvN::LoN; println(gN);", "x"),
    ("enum global, no initialiser", ["Lv"], "EXPORT LvN gN;", "println(gN);", "xh"),
    ("const typedef of enum", ["L2"], "EXPORT const L2N kN = LvN::MidN;", "println(kN);", "x"),
    ("pointer global", [], "EXPORT int tN = 4V;\nEXPORT int* pN = &tN;", "println(*pN);", "xh"),
    ("const pointer global", [], "EXPORT int tN = 4V;\nEXPORT const int* pN = &tN;", "println(*pN);", "xh"),
    ("constant read through a function", ["Ms"], "EXPORT const MsN kN = 25V;\nEXPORT int getN() { return kN + 1; }", "println(getN());", "xh"),
    ("enum constant read through a function", ["Lv"], "EXPORT const LvN kN = LvN::MidN;\nEXPORT int getN() { return kN + 1; }", "println(getN());", "x"),
    ("global changed through a function", ["Ms"], "EXPORT MsN gN = V;\nEXPORT int bumpN() { gN = gN + 1; return gN; }",
     "println(bumpN()); println(bumpN()); println(gN);", "xh"),
    ("function of typedef alias", ["Ms"], "EXPORT MsN fN(MsN v) { return v * 2 + V; }", "println(fN(4));", "xh"),
    ("function of typedef of typedef", ["Tk"], "EXPORT TkN fN(TkN v) { return v * 2 + V; }", "println(fN(4));", "xh"),
    ("function returning enum", ["Lv"], "EXPORT LvN fN(int v) { return LvN::HiN; }", "println(fN(V));", "x"),
    ("function taking enum", ["Lv"], "EXPORT int fN(LvN v) { return v * 2 + V; }", "println(fN(LvN::MidN));", "x"),
    ("function returning struct", ["Pt"], "EXPORT PtN fN(int a) { PtN p; p.x = a; p.y = V; return p; }", "PtN qN = fN(4); println(qN.x, qN.y);", "x"),
    ("function taking struct", ["Pt"], "EXPORT int fN(PtN p) { return p.x + V; }", "PtN qN; qN.x = 5; println(fN(qN));", "x"),
    ("function taking struct reference", ["Pt"], "EXPORT void fN(PtN& p, int v) { p.x = v + V; }", "PtN qN; qN.x = 1; fN(qN, 5); println(qN.x);", "x"),
    ("function taking struct pointer", ["Pt"], "EXPORT int fN(PtN* p) { return p->x + V; }", "PtN qN; qN.x = 7; println(fN(&qN));", "x"),
    ("function taking typedef of struct", ["P2"], "EXPORT int fN(P2N v) { return v.x + V; }", "P2N qN; qN.x = 3; println(fN(qN));", "x"),
    ("function of unsigned", [], "EXPORT unsigned int fN(unsigned int a) { return a + V; }", "println(fN(4));", "xh"),
    ("function of long", [], "EXPORT long fN(long a) { return a + 300000000V; }", "println(fN(4));", "xh"),
    ("function of string", [], 'EXPORT string fN(string a) { return a; }', 'println(fN("qV"));', "xh"),
    ("function of typedef of string", ["Lb"], 'EXPORT LbN fN(LbN a) { return a; }', 'println(fN("qV"));', "h"),   # not "x": finding C18-typedef-of-string-from-imported-module
    ("void function", [], "EXPORT void fN(int a) { println(a + V); }", "fN(4);", "xh"),
    ("function returning array", [], "EXPORT int[3] fN(int a) { int[3] r = [a, V, a]; return r; }", "int[3] qN = fN(4); println(qN[1]);", "xh"),
    ("function returning pointer", [], "EXPORT int tN = 4V;\nEXPORT int* fN(int a) { return &tN; }", "int* qN = fN(4); println(*qN);", "xh"),
    ("function taking int reference", [], "EXPORT void fN(int& p, int v) { p = v + V; }", "int qN = 1; fN(qN, 5); println(qN);", "xh"),
    ("function returning generic struct", ["Bx"], "EXPORT BxN<int> fN(int a) { BxN<int> b; b.v = a + V; return b; }", "BxN<int> qN = fN(4); println(qN.v);", "x"),
    ("function taking generic struct", ["Bx"], "EXPORT int fN(BxN<int> b) { return b.v + V; }", "BxN<int> qN; qN.v = 6; println(fN(qN));", "x"),
    ("generic function", [], "EXPORT T fN<T>(T a) { return a; }", "println(fN<int>(V));", "xh"),
    ("generic function of generic struct", ["Bx"], "EXPORT BxN<T> fN<T>(T a) { BxN<T> b; b.v = a; return b; }", "BxN<int> qN = fN<int>(V); println(qN.v);", "x"),
    ("function returning bool", [], "EXPORT bool fN(int a) { return a > V; }", "println(fN(4));", "xh"),
    ("function returning double", [], "EXPORT double fN(int a) { return V.5; }", "println(fN(4));", "xh"),
    ("function returning char", [], "EXPORT char fN(int a) { return 'c'; }", "println(fN(4));", "xh"),
    ("const-qualified return", [], "EXPORT const int fN(int a) { return a + V; }", "println(fN(4));", "xh"),
    ("async function", [], "EXPORT async int fN(int a) { return a + V; }", "println(await fN(4));", "xh"),
    ("async function of typedef alias", ["Ms"], "EXPORT async MsN fN(int a) { return a + V; }", "println(await fN(4));", "xh"),
    ("function pointer to an export", [], "EXPORT int fN(int a) { return a + V; }", "int* qN = &fN; println(qN(4));", "xh"),
    ("generic enum and its constructor function", ["Opt"], "EXPORT OptN<int> fN(int a) { return OptN<int>::Some(a + V); }", "OptN<int> qN = fN(4); println(qN.value);", "x"),
    ("parameterless function of typedef alias", ["Ms"], "EXPORT MsN fN() { return 4V; }", "println(fN());", "xh"),
    ("parameterless function returning struct", ["Pt"], "EXPORT PtN fN() { PtN p; p.x = V; p.y = 2; return p; }", "PtN qN = fN(); println(qN.x, qN.y);", "x"),
    ("parameterless function returning enum", ["Lv"], "EXPORT LvN fN() { return LvN::MidN; }", "println(fN());", "x"),
    ("function returning array of typedef alias", ["Ms"], "EXPORT MsN[3] fN(int a) { MsN[3] r = [a, V, a]; return r; }", "int[3] qN = fN(4); println(qN[1]);", "h"),     # not "x": an alias the module's parser does not know cannot carry `[3]`
    ("generic function of typedef alias with interface bound", ["Ms", "Sh"], "EXPORT MsN fN<T: ShN>(T a) { return a.area(2) + V; }", "PtN qN; qN.x = 3; println(fN<PtN>(qN));", "x"),
    ("generic function returning int", [], "EXPORT int fN<T>(T a) { return V; }", "println(fN<int>(4));", "xh"),
    ("reference global", [], "EXPORT int tN = 4V;\nEXPORT int& gN = tN;", "println(gN);", "xh"),
    ("const-pointer global", [], "EXPORT int tN = 4V;\nEXPORT int* const pN = &tN;", "println(*pN);", "xh"),
    ("function taking interface", ["Sh"], "EXPORT int fN(ShN s) { return s.area(2) + V; }", "PtN qN; qN.x = 7; println(fN(qN));", "x"),
    ("function returning interface", ["Sh"], "EXPORT ShN fN(int v) { PtN p; p.x = v + V; return p; }", "ShN qN = fN(3); println(qN.area(2));", "x"),
    ("generic function with interface bound", ["Sh"], "EXPORT int fN<T: ShN>(T a) { return a.area(2) + V; }", "PtN qN; qN.x = 3; println(fN<PtN>(qN));", "x"),
    # exported TYPES of the less common kinds (the hidden variant hides the type itself)
    ("struct with default member", [], "EXPORT struct WN { default int v; int w; };", "WN qN; qN.v = V; println(qN.v);", "xh"),
    ("struct of struct", [], "EXPORT struct InN { int x; };\nEXPORT struct OutN { InN i; int y; };", "OutN qN; qN.i.x = V; println(qN.i.x);", "xh"),
    ("struct with string / pointer / long members", [], "EXPORT struct RecN { string s; int* p; long l; };",
     'RecN qN; qN.s = "rV"; qN.l = 500000000V; println(qN.s, qN.l);', "xh"),
    ("struct with private member", [], "EXPORT struct PvN { private int h; int x; };", "PvN qN; qN.x = V; println(qN.x);", "xh"),
    ("enum without values", [], "EXPORT enum ClN { RdN, GnN, BlN };", "println(ClN::GnN, ClN::BlN);", "xh"),
    ("enum with negative value", [], "EXPORT enum NgN { NaN = -3, NbN };", "println(NgN::NaN, NgN::NbN);", "xh"),
    ("typedef struct", [], "EXPORT typedef struct { int x; } TsN;", "TsN qN; qN.x = V; println(qN.x);", "xh"),
    ("typedef enum", [], "EXPORT typedef enum { QaN = 1, QbN = 2 } TeN;", "TeN qN = TeN::QbN; println(qN);", "xh"),
    ("union typedef", [], "EXPORT typedef UnN = int | string;", "UnN qN = V; println(qN);", "xh"),
    ("literal union typedef", [], "EXPORT typedef DrN = 1 | 2 | 3;", "DrN qN = 2; println(qN);", "xh"),
    ("generic interface and impl", [], "EXPORT struct GbN<T> { T v; };\nEXPORT interface GgN<T> { T get(); };\nEXPORT impl GgN<T> for GbN<T> { T get() { return self.v; } }",
     "GbN<int> qN; qN.v = V; println(qN.get());", "xhp"),
    ("generic struct with constructor", [], "EXPORT struct GcN<T> { T v; };\nEXPORT impl GcN<T> { self(T a) { self.v = a; } }",
     "GcN<int> qN(V); println(qN.v);", "xhp"),
    # the type providers themselves (the cell exports nothing but uses the providers' names)
    ("typedef of struct", ["P2"], "EXPORT const int kN = V;", "P2N qN; qN.x = 7; println(qN.x + kN);", "x"),
    ("typedef of enum", ["L2"], "EXPORT const int kN = V;", "L2N qN = LvN::HiN; println(qN + kN);", "x"),
    ("typedef of array", ["A3"], "EXPORT const int kN = V;", "A3N qN; qN[1] = 5; println(qN[1] + kN);", "x"),
    ("generic enum", ["Opt"], "EXPORT const int kN = V;", "OptN<int> qN = OptN<int>::Some(4); println(qN.value + kN);", "x"),
]


def make_kinds_case(rng, k):
    cells = rng.sample(range(len(KIND_CELLS)), rng.randint(2, 5))
    if k < len(KIND_CELLS):
        cells = [k] + [c for c in cells if c != k]                 # every cell at least once per run
    split = (rng.random() < 0.5 and all("x" in KIND_CELLS[c][4] for c in cells)          # type providers in a module of their own
             and any(KIND_CELLS[c][1] for c in cells))
    hidden_types = (not split) and rng.random() < 0.3 and all("h" in KIND_CELLS[c][4] for c in cells)
    return {"kind": "kinds", "cells": cells, "split": split, "hidden_types": hidden_types, "suffix": "q%d" % rng.randint(0, 99),
            "value": rng.randint(1, 9), "both": rng.random() < 0.4, "late": rng.random() < 0.25, "dir": rng.choice(["", "pk.", "lib.x."]),
            "seed_tag": ["kinds", k], "files": []}


def kinds_texts(case):
    """-> (files {path: text} with the exported and the hidden variant of the items module, import lines, inlined prelude, uses)"""
    n, v = case["suffix"], str(case["value"])

    def inst(t, idx=None):
        if idx is not None:        # the cell's own names (kN gN fN tN pN getN bumpN qN) are unique to the cell
            t = re.sub(r"\b(k|g|f|t|p|get|bump|q)N\b", lambda m_: "%s%s_%d" % (m_.group(1), n, idx), t)
        return re.sub(r"(?<=[A-Za-z0-9])N\b", n, t).replace("V", v)
    need = []
    for c in case["cells"]:
        for p_ in KIND_CELLS[c][1]:
            for q_ in PROVIDER_DEPS.get(p_, []) + [p_]:
                if q_ not in need:
                    need.append(q_)
    order = [p_ for p_ in KIND_PROVIDERS if p_ in need]                                    # dependency order of the table
    prov = [l for p_ in order for l in inst(KIND_PROVIDERS[p_]).split("\n")]
    exp = "" if case["hidden_types"] else "export "
    decls = [inst(KIND_CELLS[c][2], c) for c in case["cells"]]
    d = case["dir"]
    tmod, imod, hmod = d + "kt" + n, d + "km" + n, d + "kh" + n
    files = {}
    head = []
    if case["split"]:
        files[file_path(tmod)] = "\n".join(exp + l for l in prov) + "\n"
        head = ["import %s;" % tmod]
    else:
        head = [exp + l for l in prov]
    files[file_path(imod)] = "\n".join(head + [x.replace("EXPORT", "export") for x in decls]) + "\n"
    files[file_path(hmod)] = "\n".join(head + [x.replace("EXPORT ", "") for x in decls]) + "\n"
    # `Bx<int> q;` / `Opt<int>::Some(4)` can only be WRITTEN by a file whose own parser has seen the generic definition
    # (parse-time import of the providers' module): then the importer imports that module too
    both = case["both"] or ("Bx" in need) or ("Opt" in need) or ("Sh" in need)       # (interface-typed variables alike)
    imports = [imod] + ([tmod] if (case["split"] and both) else [])
    if len(imports) > 1 and case["value"] % 2:
        imports.reverse()
    inlined = "\n".join(prov + [x.replace("EXPORT ", "") for x in decls]) + "\n"
    uses = [inst(KIND_CELLS[c][3], c) for c in case["cells"]]
    return files, imports, hmod, ([tmod] if case["split"] else []), inlined, uses


def run_kinds_case(impl, case):
    fails, runs = [], 0
    files, imports, hmod, tmods, inlined, uses = kinds_texts(case)
    tree = Tree(list(files.items()))
    payload = {"case": {k_: case[k_] for k_ in ("kind", "cells", "split", "hidden_types", "suffix", "value", "both", "late", "dir", "seed_tag")},
               "labels": [KIND_CELLS[c][0] for c in case["cells"]], "files": files}
    try:
        body = 'println("start");\n  ' + "\n  ".join(uses)
        imps = "".join("import %s;\n" % m for m in imports)
        if case["late"]:
            prog = "void main() {\n  %s  %s\n}\n" % (imps.replace("\n", "\n  "), body)
        else:
            prog = imps + "void main() {\n  %s\n}\n" % body
        rc, o, e = tree.run(impl, prog)
        rci, oi, ei = tree.run(impl, inlined + "void main() {\n  %s\n}\n" % body)
        runs += 2
        if rci != 0:
            fails.append(("corr-kinds-reference", dict(payload, rc=rci, stderr=ei[-400:], program=inlined),
                          "kinds matrix: the single-file reference program itself fails (rc=%d %s): cells %s" % (
                              rci, first_err(ei), payload["labels"]), False))
        elif (rc, o) != (rci, oi):
            fails.append(("oracle-kinds", dict(payload, rc_import=rc, rc_inlined=rci, stdout_diff=first_diff(oi, o), stderr_import=e[-500:],
                                               program=prog),
                          "exported items %s: the importing program (rc=%d %s) differs from the single-file program: %s" % (
                              payload["labels"], rc, first_err(e), first_diff(oi, o)), True))
        # the same items WITHOUT `export`: none of them can be named (type providers stay as they are)
        for c, use in zip(case["cells"], uses):
            if KIND_CELLS[c][2].count("EXPORT") == 1 and KIND_CELLS[c][2].startswith("EXPORT const int kN"):
                continue                                           # provider cells: the constant is the only export
            hp = "".join("import %s;\n" % m for m in [hmod] + tmods) + 'void main() {\n  println("start");\n  %s\n}\n' % use
            rch, oh, eh = tree.run(impl, hp)
            runs += 1
            # ("p": a generic type that the importer's parser has never seen is rejected before main starts)
            if not (rch == 1 and (oh.strip() == "start" or ("p" in KIND_CELLS[c][4] and oh.strip() == ""))):
                reached = oh.startswith("start")
                fails.append(("corr-hidden" if reached else "corr-probe",
                              dict(payload, cell=KIND_CELLS[c][0], rc=rch, stdout=oh[-300:], stderr=eh[-300:], program=hp),
                              ("item '%s' written WITHOUT export is usable by the importer (rc=%d, %r)" % (KIND_CELLS[c][0], rch, oh[-80:]))
                              if reached else
                              ("kinds matrix: probe for hidden '%s' did not reach main: rc=%d %s" % (KIND_CELLS[c][0], rch, first_err(eh))),
                              reached))
        return {"runs": runs, "failures": fails, "bindings": len(uses), "negatives": len(uses), "variants": 1}
    finally:
        tree.close()


# ------------------------------------------------------------------ known findings
def run_program_case(impl, c):
    """corpus entry {"kind": "program", "id", "files": {path: text}, "program", "expected_stdout", "expected_rc"}: a former
    refutation witness; the property demands exactly this output"""
    tree = Tree(list(c["files"].items()), c.get("cwd", ""))
    try:
        rc, o, e = tree.run(impl, c["program"])
        fails = []
        if rc != c.get("expected_rc", 0) or o != c["expected_stdout"]:
            fails.append(("corpus-" + c["id"], {"case": c, "rc": rc, "stdout": o[-400:], "stderr": e[-400:]},
                          "%s: demanded %r (rc %d), implementation gives %r (rc %d) %s" % (
                              c["id"], c["expected_stdout"], c.get("expected_rc", 0), o[-80:], rc, first_err(e)), True))
        return {"runs": 1, "failures": fails, "bindings": 0, "negatives": 0, "variants": 1}
    finally:
        tree.close()


def replay_finding(impl, f):
    """returns (still_fails, detail)"""
    r = f["replay"]
    tree = Tree([(p, t) for p, t in r["files"].items()], r.get("cwd", ""))
    try:
        rc, o, e = tree.run(impl, r["program"])
        want = r["expected_stdout"]
        ok = (rc == r.get("expected_rc", 0) and o == want)
        return (not ok), {"rc": rc, "stdout": o[-400:], "stderr": first_err(e)}
    finally:
        tree.close()


# ------------------------------------------------------------------ case lists
def all_dags(n):
    pairs = [(i, j) for i in range(n) for j in range(i)]
    for r in range(len(pairs) + 1):
        for es in itertools.combinations(pairs, r):
            yield set(es)


def build_cases(seed, tier):
    cases = []
    # (1) every import DAG over n modules (module i may import j < i), content from the seed
    if tier == "quick":
        plan = [(1, 4), (2, 8), (3, 12)]           # (n, content seeds per graph)
    else:
        plan = [(1, 4), (2, 6), (3, 8), (4, 6), (5, 2)]
    for n, reps in plan:
        for gi, edges in enumerate(all_dags(n)):
            for r in range(reps):
                prefix = BLIND if (gi + r) % 4 == 3 else ""
                cases.append(make_graph_case(seed, "dag%d-%d" % (n, gi), r, n, edges, prefix=prefix))
    # (1b) four modules: the chain 3 -> 2 -> 1 -> 0, the diamond 3 -> {1, 2} -> 0, the diamond with a tail (initialiser
    #      dependencies through several levels; the program imports only the outer module, or everything in any order)
    shapes = [("chain4", {(1, 0), (2, 1), (3, 2)}), ("diamond4", {(1, 0), (2, 0), (3, 1), (3, 2)}),
              ("fan4", {(1, 0), (2, 0), (3, 0)}), ("zigzag4", {(1, 0), (2, 1), (3, 1), (3, 0)})]
    for nm, edges in shapes:
        for r in range(8 if tier == "quick" else 60):
            cases.append(make_graph_case(seed, nm, r, 4, edges, prefix=BLIND if r % 4 == 3 else ""))
    # (1c) import cycles (fix 129a992)
    for shape in CYCLE_SHAPES:
        for r in range(6 if tier == "quick" else 60):
            cases.append(make_cycle_case(seed, shape, r))
    # (2) defect shapes: table agreement only (the model is faithful to the defects), no oracle
    nd = 24 if tier == "quick" else 200
    for k in range(nd):
        rng = rng_for(seed, "c18-defect", k)
        n = rng.randint(2, 3 if tier == "quick" else 4)
        edges = set((i, j) for i in range(n) for j in range(i) if rng.random() < 0.6)
        c = make_graph_case(seed, "defect", k, n, edges, ("hidden_impl",))
        c["oracle"] = False
        cases.append(c)
    # (3) search path: which of the 8 candidate files is opened
    subsets = []
    if tier == "quick":
        subsets = [()] + [(i,) for i in range(8)] + [tuple(range(i, 8)) for i in range(8)]
        for k in range(24):
            rng = rng_for(seed, "c18-search", k)
            subsets.append(tuple(i for i in range(8) if rng.random() < 0.4))
    else:
        subsets = [tuple(i for i in range(8) if (m >> i) & 1) for m in range(256)]
    for ss in sorted(set(subsets)):
        cases.append(make_search_case(ss, "sp"))
        if tier != "quick" or len(ss) <= 1:
            cases.append(make_search_case(ss, "pq.sp"))
    # (4) module path forms, including components that contain ".cb"
    forms = ["a", "a.b", "a.b.c", "x1.y2.z3.w4", "cbx", "acb", "a.cbx", "a.cb", "lib.cbits.m", "a.xcb", "a.c.b", "acb.b",
             "A.B", "a_b.c_d", "a.b.cb"]
    for mp in forms:
        for place in ("dotted", "literal", "both", "none"):
            cases.append(make_pathform_case(mp, place))
    # (5) clashes: last import wins, the importer's own definition wins
    for k in range(80 if tier == "quick" else 800):
        cases.append(make_clash_case(rng_for(seed, "c18-clash", k), k))
    # (5b) impl blocks of several modules for one struct: method name conflicts, same-key replacement
    for k in range(40 if tier == "quick" else 400):
        cases.append(make_conflict_case(rng_for(seed, "c18-conflict", k), k))
    # (7) initialisers with side effects: run once, dependencies first
    for k in range(24 if tier == "quick" else 300):
        cases.append(make_effects_case(rng_for(seed, "c18-effects", k), k))
    # (8) kind x type-spelling matrix of exported items (oracle only): every cell once + random combinations
    for k in range((len(KIND_CELLS) + 16) if tier == "quick" else 600):
        cases.append(make_kinds_case(rng_for(seed, "c18-kinds", k), k))
    # (6) selective imports: exactly the listed exported names
    for k in range(30 if tier == "quick" else 400):
        cases.append(make_selective_case(rng_for(seed, "c18-selective", k), k))
    return cases


def lines_of(case):
    return graph_model_lines(case) if case["kind"] == "graph" else flat_model_lines(case)


def avoided_shapes(case):
    """avoidance predicates of the known findings, evaluated on a generated graph case"""
    trips = []
    mods = case["mods"]
    exported_structs = set(s[2] for m in mods for s in m["stmts"] if s[0] == "S" and s[1])
    for m in mods:
        for s in m["stmts"]:
            if s[0] == "M" and not s[1] and s[3] in exported_structs:
                trips.append("C18-hidden-impl-visible")
    return sorted(set(trips))


# ------------------------------------------------------------------ main
def run(rep):
    seed, tier = rep.seed, rep.tier
    cq = common.coq_check_props(PROP)
    common.proof_coverage(rep, cq)
    if not cq["ok"]:
        rep.violation("proof", {"theorem": cq["failed_theorem"], "log": cq["log"][-3000:]},
                      "proof obligation %s no longer checks" % cq["failed_theorem"], True)
    if tier == "thorough" and cq["ok"]:
        okc, summ = common.coqchk(PROP)
        rep.coverage["coqchk"] = {"ok": okc, "context_summary": summ[:800]}
        if not okc:
            rep.violation("coqchk", {"log": summ[-2000:]}, "coqchk rejects the compiled C18 development", True)
    common.ensure_model(PROP)
    impl = common.build_impl("plain")

    cases = []
    corpus = os.path.join(common.VERIF, "corpus", "c18.json")
    programs = json.load(open(corpus)) if os.path.exists(corpus) else []
    cases += build_cases(seed, tier)
    for c in cases:
        if c["kind"] == "graph" and c.get("oracle", True):
            t = avoided_shapes(c)
            if t:                                    # generator bug guard: never feed a defect shape to the oracle
                c["oracle"] = False
                c["tripped"] = t
    effects = [c for c in cases if c["kind"] in ("effects", "kinds")]
    cases = [c for c in cases if c["kind"] not in ("effects", "kinds")]
    tabs = run_model([lines_of(c) for c in cases])

    def one(ct):
        c, tab = ct
        if c["kind"] == "graph":
            return run_graph_case(impl, c, tab, tier, seed, oracle=c.get("oracle", True))
        return run_flat_case(impl, c, tab)
    results = common.pmap(one, list(zip(cases, tabs)))
    prog_results = [run_program_case(impl, c) for c in programs]
    eff_results = common.pmap(lambda c: run_kinds_case(impl, c) if c["kind"] == "kinds" else run_effects_case(impl, c), effects)

    hist, runs, bindings, negs, variants = {}, 0, 0, 0, 0
    distinct, nontrivial = set(), 0
    allfails = []
    for c, tab, r in zip(cases, tabs, results):
        key = c["kind"] if c["kind"] != "graph" else ("graph-defect-shape" if not c.get("oracle", True) else
                                                      ("graph-cycle" if c.get("cycle") else "graph-n%d" % c["n"]))
        hist[key] = hist.get(key, 0) + 1
        runs += r["runs"]
        bindings += r["bindings"]
        negs += r["negatives"]
        variants += r["variants"]
        h = hashlib.sha256(json.dumps(lines_of(c)).encode()).hexdigest()
        if h not in distinct:
            distinct.add(h)
            # non-trivial: the model binds at least one imported name or predicts an error
            if (not tab["ok"]) or any(k not in ("main", "lf_main") for k in tab["F"]) or tab["S"] or tab["E"] or tab["V"]:
                nontrivial += 1
        allfails += [(c, f) for f in r["failures"]]
    for c, r in zip(effects, eff_results):
        hist[c["kind"]] = hist.get(c["kind"], 0) + 1
        bindings += r["bindings"]
        negs += r["negatives"]
        runs += r["runs"]
        variants += r["variants"]
        allfails += [(c, f) for f in r["failures"]]
    for c, r in zip(programs, prog_results):
        hist["corpus"] = hist.get("corpus", 0) + 1
        runs += r["runs"]
        variants += r["variants"]
        allfails += [(c, f) for f in r["failures"]]
    feat = {"graph_cases_with_cross_module_initialiser": 0, "cross_module_initialisers": 0, "initialisers_with_call": 0,
            "initialisers_reading_transitively_loaded_module": 0, "cases_without_inlined_reference": 0,
            "cases_program_imports_outer_module_only": 0, "string_variables": 0, "uninitialised_globals": 0,
            "spelled_variables": 0, "spelled_hidden_variables": 0, "spelled_functions": 0}
    for c in cases:
        if c["kind"] != "graph":
            continue
        mods = c["mods"]
        loaded = closure(mods, sorted(set(c["base"])))
        owner = {}
        for i, m in enumerate(mods):
            for st in m["stmts"]:
                if st[0] in ("V", "H", "E", "PV", "PF"):
                    owner[st[2]] = i
        cross = 0
        for i in loaded:
            for st in mods[i]["stmts"]:
                if is_var(st) and st[1] and isinstance(st[4], str):
                    names = [x.rsplit(".", 1)[-1] for x in expr_names(st[4], "$") + expr_names(st[4], "@")] + \
                            [x.split(":")[0] for x in expr_names(st[4].replace(":", "."), "#")]
                    others = [owner[x] for x in names if x in owner and owner[x] != i]
                    if others:
                        cross += 1
                        if any(o not in mods[i]["imports"] for o in others):
                            feat["initialisers_reading_transitively_loaded_module"] += 1
                    if "@" in st[4]:
                        feat["initialisers_with_call"] += 1
                if is_var(st) and var_cls(st) == "str":
                    feat["string_variables"] += 1
                if st[0] == "PV":
                    feat["spelled_variables"] += 1
                    feat["spelled_" + spell_kind(st[5], mods)] = feat.get("spelled_" + spell_kind(st[5], mods), 0) + 1
                    if not st[1]:
                        feat["spelled_hidden_variables"] += 1
                if st[0] == "PF":
                    feat["spelled_functions"] += 1
                if is_var(st) and st[1] and st[4] is None:
                    feat["uninitialised_globals"] += 1
        feat["cross_module_initialisers"] += cross
        feat["graph_cases_with_cross_module_initialiser"] += 1 if cross else 0
        feat["cases_without_inlined_reference"] += 1 if c.get("no_inline") else 0
        feat["cases_program_imports_outer_module_only"] += 1 if len(loaded) > len(set(c["base"])) else 0
    rep.coverage["features"] = feat
    sample_case = next(c for c in cases if c["kind"] == "graph" and c["n"] >= 2 and c["edges"])
    rep.coverage.update({
        "evaluations": runs, "distinct_nontrivial": nontrivial, "cases": len(cases),
        "bindings_checked": bindings, "undefined_name_probes": negs, "oracle_variants_compared": variants,
        "rule": "cases = generated module trees + importing program; evaluations = runs of the real binary; a case is distinct by its "
                "model input and non-trivial when the model binds at least one imported name or predicts an import error. Per graph case: "
                "A. main uses every name the extracted model says is bound (first '@' line of each block must carry the model's "
                "definition id; variables and side-effect-free functions must show the VALUE the model computed for the "
                "initialiser / body at import time), one undefined-name probe per declared-but-unbound name; B. base program == all "
                "permutations == duplicated import lists == import lists extended by the modules loaded anyway == inlined single file "
                "(unless a known single-file defect shape is present: coverage.features.cases_without_inlined_reference) == re-import "
                "at run time. Clash cases: modules importing each other export the same names, the import statement anywhere among "
                "the declarations. Selective cases: import m { items } binds exactly the listed exports. Kinds cases (KIND_CELLS): 2-5 exported "
                "items of different kind x type spelling per module (each cell at least once per run), importing program == single-file "
                "program, one hidden-variant probe per cell. Assignment probes: up to 3 imported variables per case, verdict of Model.assign",
        "exhaustive": True,
        "exhaustive_space": "all import DAGs (module i imports j<i) over n<=%d modules: %s graphs; all permutations of each import list%s; "
                            "search path: %s subsets of the 8 candidate locations" % (
                                3 if tier == "quick" else 5, "1+2+8" if tier == "quick" else "1+2+8+64+1024",
                                "" if tier == "quick" else " (n=5: 120 permutations each)",
                                "singletons, suffixes and 24 random" if tier == "quick" else "all 256"),
        "input_distribution": hist,
        "samples": [{"modules": [{"path": m["path"], "text": [render_stmt(s) for s in m["stmts"]]} for m in sample_case["mods"]],
                     "imports": [sample_case["mods"][i]["modpath"] for i in sample_case["base"]],
                     "model_input": lines_of(sample_case)[:40]},
                    {"search_case": next(case_replay_flat(c) for c in cases if c["kind"] == "search" and len(c["files"]) > 2)}],
    })
    # report: correspondence failures first (shortest), at most 5
    # failures of the property's own oracle first, then correspondence failures; shortest first, at most 2 of a kind
    allfails.sort(key=lambda cf: (not cf[1][3], 0 if cf[1][0].startswith("oracle") or cf[1][0].startswith("corpus") else 1,
                                  len(json.dumps(cf[1][1], default=str))))
    seen = {}
    for c, (name, payload, text, concrete) in allfails:
        if seen.get(name, 0) >= 2:
            continue
        seen[name] = seen.get(name, 0) + 1
        payload = dict(payload)
        payload["broken"] = ("oracle of C18 (import == inlined == permuted/duplicated)" if name.startswith("oracle")
                             else "correspondence Model.start_program = handle_import_statement (carrier of every C18 theorem)")
        rep.violation(name, payload, text, no_failing_input=not concrete)
        if len(rep.violations) >= 5:
            break
    rep.coverage["disagreements"] = len(allfails)

    # known findings
    for f in common.known_findings(PROP):
        still, detail = replay_finding(impl, f)
        if still:
            rep.known(f["id"], f["what_fails"])
        else:
            rep.notes.append("known finding %s no longer reproduces (fixed?)" % f["id"])
    rep.assumptions += [
        "the parse-time import path (RecursiveParser::processImport) is not modelled; the tie exercises it on every run together with the run-time path",
        "behavioural equality of imported and inlined definitions (statics included) is tested, the theorem is at table level",
        "definition identities (AST nodes) are abstract numbers printed by the generated bodies; initialiser values are numbers "
        "(int) or the text s<number> (string)",
        "selective imports reach the model by translation (the unlisted exports lose `export` in the model's file system); module "
        "aliases, array / struct-typed / multi-variable exports are findings, not generated",
        "every generated file reaches the loader model through the extracted front-end model Front.parse_fs (items with spelled types: "
        "PV / PF lines); the kind x spelling matrix (KIND_CELLS) and the assignment probes are tested only",
    ]


def replay(path):
    data = json.load(open(path))
    c = data["case"].get("case")
    if c and c.get("kind") == "program":
        r = run_program_case(common.build_impl("plain"), c)
        for f in r["failures"]:
            print("FAIL", f[0], f[2])
        return 1 if r["failures"] else 0
    if c and c.get("kind") == "kinds":
        r = run_kinds_case(common.build_impl("plain"), c)
        for f in r["failures"]:
            print("FAIL", f[0], f[2])
        print("runs:", r["runs"], "failures:", len(r["failures"]))
        return 1 if r["failures"] else 0
    if c and c.get("kind") == "effects":
        r = run_effects_case(common.build_impl("plain"), c)
        for f in r["failures"]:
            print("FAIL", f[0], f[2])
        return 1 if r["failures"] else 0
    if not c:
        print(json.dumps(data["case"], indent=1)[:3000])
        return 1
    common.ensure_model(PROP)
    impl = common.build_impl("plain")
    if c["kind"] == "graph":
        case = {"kind": "graph", "mods": [dict(m, stmts=[tuplify(s) for s in m["stmts"]]) for m in c["mods"]], "base": c["base"],
                "local": [tuplify(s) for s in c["local"]], "defects": c.get("defects") or [], "seed_tag": c["seed_tag"],
                "n": len(c["mods"]), "edges": [], "prefix": c.get("prefix") or "", "no_inline": c.get("no_inline") or []}
        tab, = run_model([graph_model_lines(case)])
        r = run_graph_case(impl, case, tab, "quick", 1, oracle=not case["defects"])
    else:
        case = dict(c, files=[(p, [tuplify(s) for s in st]) for p, st in c["files"]], local=[tuplify(s) for s in c.get("local", [])])
        tab, = run_model([flat_model_lines(case)])
        r = run_flat_case(impl, case, tab)
    for f in r["failures"]:
        print("FAIL", f[0], f[2])
    print("runs:", r["runs"], "failures:", len(r["failures"]))
    return 1 if r["failures"] else 0


def tuplify(s):
    s = list(s)
    k = s[0]
    if k == "S":
        s[4] = [tuple(m) for m in s[4]]
    elif k == "M":
        s[4] = [(m[0], m[1], list(m[2])) for m in s[4]]
        s[5] = [tuple(c) for c in s[5]]
    elif k == "E":
        s[3] = [tuple(m) for m in s[3]]
    return tuple(s)
