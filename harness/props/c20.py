"""C20 - foreign calls pass arguments and results unchanged for every supported signature.

Theorems: coq/C20/Properties_C20.v, stated about the dispatch table regenerated on every run from the
current text of FFIManager::callFunction (translators/ffi_table.py -> coq/C20/Gen_FfiTable.v).
Tie: an echo library compiled by the check (harness/cpp/c20_echo.c + generated functions) is loaded by
the real interpreter through `use foreign.echo { ... }`; what the library records (bit patterns), what
Cb prints, the extracted model (bin/c20_model) and the property's own reading (spec_check below) are
compared on every call.
"""
import hashlib
import itertools
import json
import os
import re
import struct
import sys

import common
from common import rng_for

sys.path.insert(0, os.path.join(common.VERIF, "translators"))
import ffi_table  # noqa: E402

PROP = "C20"
LEVEL = "proof"
META = {
    "category": "proof",
    "technique": "Coq theorems about a dispatch table re-extracted from ffi_manager.cpp on every run + extracted-model / echo-library differential run through the real interpreter",
    "text": "Machine-checked theorems about a Gallina model of FFIManager (library/symbol registration, callFunction, callForeignFunction) and of the two "
            "FFI call sites of call_impl.cpp, whose signature if-chain is regenerated from the current C++ text on every run: every row casts the void* to "
            "exactly the C type of the declared signature (int/long/double/void), arguments reach the native function in declaration order, int arguments "
            "exact in the 32-bit range and explicitly narrowed outside, integer arguments to double parameters exact below 2^53, long and double results "
            "bit-exact, signatures outside the table (any return type, float returns and pointer parameters included) never call and are reported with exit 1 on "
            "both call paths, in every history every native call enters an existing symbol of an existing library through its registered type. The tie runs generated `use foreign.echo` programs on the real binary against an echo library "
            "compiled by the check: recorded 64-bit patterns = Cb-visible results = extracted model = property reading, for every supported signature x boundary "
            "values and for all 474 unsupported signatures of arity 0-4 over {int,long,double} on both paths, float/pointer declarations, missing library, missing symbol, arity mismatch.",
    "note": "Trusted: Coq kernel incl. vm_compute (table checks), no axioms (Print Assumptions: closed); the 150-line regex translator "
            "(prints what it recognised into the evidence; unrecognised shape -> stale table, correspondence only); extraction ExtrOcamlBasic+ExtrOcamlString; "
            "the hand-written model of registration and of the call sites is tied by differential testing only; that a correctly typed call passes bits "
            "unchanged is the platform ABI (x86-64 SysV, gcc) and is only tested; NaN payloads excluded (the evaluator quiets signalling NaNs).",
}

CT = {"i": "int", "l": "long", "d": "double", "v": "void", "f": "float"}
CBT = {"i": "int", "l": "long", "d": "double", "v": "void", "f": "float"}
TYNAME = {"TInt": "i", "TLong": "l", "TDouble": "d", "TVoid": "v", "TFloat": "f", "TPointer": "p", "TOther": "o", "TUnknown": "u"}
M64 = (1 << 64) - 1
MIXC = 0x9E3779B97F4A7C15
LIBS = ["echo", "echob"]          # module name -> lib<name>.so built by the check

INT_BOUND = [-2**31, -2**31 + 1, -1, 0, 1, 2**31 - 2, 2**31 - 1]
WIDE_INT = [2**31, -2**31 - 1, 2**32, 2**32 + 5, 2**63 - 1, -2**63, 0x123456789, -0x1_0000_0001]
DBL_BOUND = [0x0000000000000000, 0x8000000000000000, 0x0000000000000001, 0x8000000000000001,
             0x000fffffffffffff, 0x0010000000000000, 0x7fefffffffffffff, 0xffefffffffffffff,
             0x7ff0000000000000, 0xfff0000000000000, 0x7e37e43c8800759c, 0xfe37e43c8800759c,
             0x3ff0000000000000, 0x3fb999999999999a, 0x400921fb54442d18, 0x4340000000000001]
LONG_BOUND = [0x8000000000000000, 0x7fffffffffffffff, 0x123456789abcdef0, 0xfedcba9876543210,
              0xffffffffffffffff, 0x0000000100000000, 0x00000000ffffffff, 0x0000000000000000]
INTR_BOUND = [0x80000000, 0x7fffffff, 0xffffffff, 0x00000000, 0x00000001]     # 32-bit patterns of int results


# ------------------------------------------------------------------ small numeric helpers
def s64(u):
    u &= M64
    return u - (1 << 64) if u >> 63 else u


def s32(u):
    u &= 0xffffffff
    return u - (1 << 32) if u >> 31 else u


def hex16(v):
    return "%016x" % (v & M64)


def dbl_of_bits(b):
    return struct.unpack("<d", struct.pack("<Q", b & M64))[0]


def bits_of_dbl(d):
    return struct.unpack("<Q", struct.pack("<d", d))[0]


def is_nan_bits(b):
    return (b >> 52) & 0x7ff == 0x7ff and b & ((1 << 52) - 1) != 0


def dbl_literal(b):
    """Cb source text denoting exactly this bit pattern, or None (inf, denormals: the lexer rejects them)."""
    e = (b >> 52) & 0x7ff
    if b & ~(1 << 63) == 0:
        return "-0.0" if b >> 63 else "0.0"
    if e == 0 or e == 0x7ff:
        return None
    s = repr(dbl_of_bits(b)).replace("e+", "e")
    if "." not in s and "e" not in s:
        s += ".0"
    if "e" in s and "." not in s.split("e")[0]:
        m, x = s.split("e")
        s = m + ".0e" + x
    return s


def int_literal(v):
    if v == -2**63:
        return "-9223372036854775807 - 1"
    return str(v)


def trunc_c(b):
    """C conversion double -> integer (toward zero); None when not representable in int64."""
    e = (b >> 52) & 0x7ff
    if e == 0x7ff:
        return None
    d = dbl_of_bits(b)
    t = int(d)
    return t if -2**63 <= t < 2**63 else None


# ------------------------------------------------------------------ the echo library
def all_param_lists(maxar=4):
    for n in range(maxar + 1):
        for ps in itertools.product("ild", repeat=n):
            yield "".join(ps)


def echo_py(ret, reply, rec_args):
    """Independent reading of c20_echo.c: result pattern from the RECORDED arguments ('i:0000002a', ...)."""
    if reply is not None:
        w = int(reply, 16)
    else:
        w = MIXC
        for k, a in enumerate(rec_args):
            t, h = a.split(":")
            v = int(h, 16)
            if t == "i":
                v = s32(v) & M64
            w = (w + (2 * k + 3) * v) & M64
    if ret == "i":
        return ("v", s32((w + (w >> 32)) & 0xffffffff))
    if ret == "l":
        return ("v", s64(w))
    if ret == "d":
        if is_nan_bits(w):
            w -= 1 << 62
        return ("d", w)
    return ("void",)


PTR_CT = {"I": "int *", "L": "long *", "D": "double *"}
PTR_SIGS = [("i", "I"), ("i", "iI"), ("i", "Ii"), ("l", "I"), ("d", "D"), ("v", "I"), ("d", "dD")]


def gen_fn(name, ret, params, reply):
    decl = ", ".join("%s a%d" % (PTR_CT[t] if t.isupper() else CT[t], k) for k, t in enumerate(params)) or "void"
    body = ["c20_rec r; c20_begin(&r, \"%s\");" % name]
    for k, t in enumerate(params):
        body.append("c20_l(&r, (long)(intptr_t)a%d);" % k if t.isupper() else "c20_%s(&r, a%d);" % (t, k))
    body.append("c20_end(&r);")
    if reply is None:
        body.append("u64 w = MIXC;")
        for k, t in enumerate(params):
            body.append("w += %dULL * WL((long)(intptr_t)a%d);" % (2 * k + 3, k) if t.isupper() else "w += %dULL * W%s(a%d);" % (2 * k + 3, t.upper(), k))
    else:
        body.append("u64 w = 0x%sULL;" % reply)
    body.append({"v": "(void)w;", "i": "return c20_ret_i(w);", "l": "return c20_ret_l(w);", "d": "return c20_ret_d(w);",
                 "f": "(void)w; return 1.5f;"}[ret])
    return "%s %s(%s) { %s }" % (CT[ret], name, decl, " ".join(body))


def reply_consts(ret):
    if ret == "i":
        return ["%016x" % p for p in INTR_BOUND]
    if ret == "l":
        return ["%016x" % p for p in LONG_BOUND]
    if ret == "d":
        return ["%016x" % p for p in DBL_BOUND]
    return []


def gen_echo_source(supported):
    """supported: list of (ret, params) in scope. Returns (C text, symbol table name -> (ret, params, reply))."""
    pre = open(os.path.join(common.VERIF, "harness", "cpp", "c20_echo.c")).read()
    syms, out = {}, [pre]
    for ps in all_param_lists():
        for r in "ildv":
            n = "e_%s_%s" % (r, ps)
            syms[n] = (r, ps, None)
            out.append(gen_fn(n, r, ps, None))
    for (r, ps) in supported:
        for j, c in enumerate(reply_consts(r)):
            n = "k%d_%s_%s" % (j, r, ps)
            syms[n] = (r, ps, c)
            out.append(gen_fn(n, r, ps, c))
    for ps in all_param_lists(2):
        n = "e_f_%s" % ps
        syms[n] = ("f", ps, None)
        out.append(gen_fn(n, "f", ps, None))
    for (r, ps) in PTR_SIGS:
        n = "e_%s_%s" % (r, ps)
        syms[n] = (r, ps, None)
        out.append(gen_fn(n, r, ps, None))
    syms["probe"] = ("d", "d", None)
    return "\n".join(out) + "\n", syms


def build_echo(supported):
    src, syms = gen_echo_source(supported)
    h = hashlib.sha256(src.encode()).hexdigest()[:20]
    d = os.path.join(common.CACHE, "c20", h)
    with common.Lock("c20-echo"):
        if not all(os.path.exists(os.path.join(d, "stdlib", "foreign", "lib%s.so" % m)) for m in LIBS):
            os.makedirs(os.path.join(d, "stdlib", "foreign"), exist_ok=True)
            with open(os.path.join(d, "echo.c"), "w") as fh:
                fh.write(src)
            for m in LIBS:
                rc, o, e = common.sh(["gcc", "-O1", "-w", "-shared", "-fPIC", "-DMODTAG=\"%s\"" % m, "-o",
                                      os.path.join(d, "stdlib", "foreign", "lib%s.so.tmp" % m), os.path.join(d, "echo.c")], timeout=300)
                if rc != 0:
                    raise common.BuildError("echo library failed to build:\n" + e[-2000:])
                os.rename(os.path.join(d, "stdlib", "foreign", "lib%s.so.tmp" % m), os.path.join(d, "stdlib", "foreign", "lib%s.so" % m))
            # prune older echo builds
            root = os.path.join(common.CACHE, "c20")
            ents = sorted((os.path.getmtime(os.path.join(root, x)), x) for x in os.listdir(root))
            for _, x in ents[:-6]:
                if x != h:
                    import shutil
                    shutil.rmtree(os.path.join(root, x), ignore_errors=True)
    return d, syms


# ------------------------------------------------------------------ cases
# case = {"origin": str, "mods": [{"name": str, "decls": [fn names]}], "calls": [call]}
# call = {"q": bool, "mod": str, "fn": str, "args": [arg], "use": "var"|"direct"}
# arg  = {"k": "i"|"l"|"d", "v": int (value / bit pattern), "form": "lit"|"var"|"ref", "ref": call index}
def decl_of(syms, fn):
    return syms.get(fn) or FAKE_DECLS[fn]


FAKE_DECLS = {"nosuch_i_ii": ("i", "ii", None), "nosuch_d_d": ("d", "d", None), "nosuch_v_": ("v", "", None)}


def cb_arg_expr(k, j, a, pre):
    if a["k"] == "p":
        pre.append("  %s q%d_%d = %s;" % (CBT[a["base"]], k, j, "5" if a["base"] != "d" else "5.5"))
        return "&q%d_%d" % (k, j)
    if a["form"] == "ref":
        return "r%d" % a["ref"]
    if a["k"] == "d":
        lit = dbl_literal(a["v"])
        assert lit is not None, "double %016x needs a source call" % a["v"]
    else:
        lit = int_literal(a["v"])
    if a["form"] == "var" or a["k"] == "l":
        nm = "a%d_%d" % (k, j)
        pre.append("  %s %s = %s;" % (CBT[a["k"]], nm, lit))
        return nm
    return lit


def cb_program(case, syms):
    out = []
    mods = list(case["mods"])
    if not any(m["name"] == "echo" for m in mods):
        mods.append({"name": "echo", "decls": []})
    for m in mods:
        out.append("use foreign.%s {" % m["name"])
        for fn in m["decls"]:
            r, ps, _ = decl_of(syms, fn)
            out.append("  %s %s(%s);" % (CBT[r], fn, ", ".join(
                "%s%s p%d" % (CBT[t.lower()], "*" if t.isupper() else "", k) for k, t in enumerate(ps))))
        if m["name"] == "echo" and "probe" not in m["decls"]:
            out.append("  double probe(double a);")
        out.append("}")
    out.append("void main() {")
    for k, c in enumerate(case["calls"]):
        pre = []
        args = [cb_arg_expr(k, j, a, pre) for j, a in enumerate(c["args"])]
        out += pre
        out.append('  println("B %d");' % k)
        e = "%s%s(%s)" % ((c["mod"] + ".") if c["q"] else "", c["fn"], ", ".join(args))
        r = decl_of(syms, c["fn"])[0]
        if r == "v":
            out.append("  %s;" % e)
        elif r == "d":
            if c["use"] == "var":
                out.append("  double r%d = %s;" % (k, e))
                out.append("  echo.probe(r%d);" % k)
            else:
                out.append("  echo.probe(%s);" % e)
        else:
            if c["use"] == "var":
                out.append("  %s r%d = %s;" % (CBT[r], k, e))
                out.append('  println("V", r%d);' % k)
            else:
                out.append("  println(%s);" % e)
        out.append('  println("E %d");' % k)
    out.append("}")
    return "\n".join(out) + "\n"


def model_line(case, syms):
    names = sorted(m["name"] for m in case["mods"])
    mid = {n: i for i, n in enumerate(names)}
    fid = {}
    for m in case["mods"]:
        for fn in m["decls"]:
            fid.setdefault(fn, len(fid))
    for c in case["calls"]:
        fid.setdefault(c["fn"], len(fid))
    ops = []
    for n in names:
        if n in LIBS:
            decl = [fn for m in case["mods"] if m["name"] == n for fn in m["decls"]]
            ops.append("L %d %s" % (mid[n], " ".join(str(fid[f]) for f in dict.fromkeys(decl) if f in syms)))
    for m in case["mods"]:
        ds = []
        for fn in m["decls"]:
            r, ps, rep = decl_of(syms, fn)
            ds.append("%d:%s:%s%s" % (fid[fn], r, ps, (":" + rep) if rep else ""))
        ops.append("U %d %s" % (mid[m["name"]], " ".join(ds)))
    for c in case["calls"]:
        args = ["%s:%s" % (a["k"], hex16(a["v"])) for a in c["args"]]      # k = p: an address (value irrelevant to the model)
        ops.append("C %s %d %d %s" % ("q" if c["q"] else "u", mid.get(c["mod"], 0), fid[c["fn"]], " ".join(args)))
    return " ; ".join(ops), mid, fid


def model_obs(case, line_out, mid, fid):
    """Model events -> the same observation structure as observe()."""
    rmid = {v: k for k, v in mid.items()}
    rfid = {v: k for k, v in fid.items()}
    evs = [e.strip() for e in line_out.split(" ; ")] if line_out.strip() else []
    obs = {"startup": [], "calls": []}
    i = 0
    while i < len(evs) and (evs[i].startswith("DIAG load") or evs[i].startswith("DIAG reg")):
        w = evs[i].split()
        obs["startup"].append("load %s" % rmid[int(w[2])] if w[1] == "load" else "reg %s %s" % (rmid[int(w[2])], rfid[int(w[3])]))
        i += 1
    for k, c in enumerate(case["calls"]):
        o = {"called": None, "res": None, "diag": None}
        if i < len(evs) and evs[i].startswith("CALL"):
            w = evs[i].split()
            o["called"] = [rmid[int(w[1])], rfid[int(w[2])], w[4]]
            o["cast"] = w[3]
            i += 1
        if i < len(evs) and evs[i].startswith("DIAG call"):
            o["diag"] = evs[i][len("DIAG call "):]
            i += 1
        if i < len(evs) and evs[i].startswith("RES"):
            w = evs[i].split()
            if w[1] == "v":
                r = obs_ret(case, k)
                z = s64(int(w[2], 16))
                # an integer handed back where the program holds a double variable: converted, then probed
                o["res"] = ["void"] if r == "v" else (["d", bits_of_dbl(float(z))] if r == "d" else ["v", z])
            elif w[1] == "d":
                o["res"] = ["d", int(w[2], 16)]
            else:
                o["res"] = [w[1]]
            i += 1
        else:
            o["res"] = ["none"]
        obs["calls"].append(o)
        if o["res"][0] in ("exit", "notforeign", "none"):
            break
    return obs


_SYMS = {}


def obs_ret(case, k):
    return decl_of(_SYMS, case["calls"][k]["fn"])[0]


_ECHO = re.compile(r"^ECHO (\S+) (\S+) (\S+)$")
_UNSUP = re.compile(r"Error: FFI call failed: Unsupported function signature for (\S+): return type (\S+) with (\d+) parameters")


def observe(case, rc, out, err):
    """Implementation run -> observation structure (startup diagnostics, per call: native record, result,
    diagnostic). stdout carries, in program order, B <k> / ECHO ... / V <value> / E <k> lines."""
    obs = {"startup": [], "calls": [], "rc": rc}
    calldiag = None
    other_err = []
    for l in err.split("\n"):
        m = re.match(r"Error: Failed to load library for module '([^']+)'", l)
        if m:
            obs["startup"].append("load " + m.group(1))
            continue
        m = re.match(r"Error: Failed to register function '([^']+)'", l)
        if m:
            mod = next((mm["name"] for mm in case["mods"] if m.group(1) in mm["decls"]), "?")
            obs["startup"].append("reg %s %s" % (mod, m.group(1)))
            continue
        m = _UNSUP.search(l)
        if m:
            tn = {"int": "i", "long": "l", "double": "d", "void": "v", "float": "f"}.get(m.group(2), "o")
            calldiag = "unsupported %s %s" % (tn, m.group(3))
            continue
        if "FFI call failed" in l:
            calldiag = "other"
            continue
        if l.strip():
            other_err.append(l)
    # split stdout into the segments of each call
    seg, cur, stray = {}, None, []
    for l in out.split("\n"):
        w = l.split()
        if len(w) == 2 and w[0] == "B" and w[1].isdigit():
            cur = int(w[1])
            seg[cur] = {"lines": [], "closed": False}
        elif len(w) == 2 and w[0] == "E" and w[1].isdigit() and cur == int(w[1]):
            seg[cur]["closed"] = True
            cur = None
        elif cur is not None:
            seg[cur]["lines"].append(l)
        elif l.strip():
            stray.append(l)
    obs["extra_records"] = [l for l in stray if l.startswith("ECHO")]
    for k, c in enumerate(case["calls"]):
        o = {"called": None, "res": None, "diag": None}
        if k not in seg:
            o["res"] = ["notstarted", rc]
            o["stderr"] = other_err[-2:]
            obs["calls"].append(o)
            break
        recs, vals = [], []
        for l in seg[k]["lines"]:
            m = _ECHO.match(l.strip())
            if m:
                recs.append([m.group(1), m.group(2), m.group(3)])
            elif l.startswith("V "):
                vals.append(l[2:].strip())
            elif l.strip():
                vals.append(l.strip())
        native = [x for x in recs if x[1] != "probe"]
        probes = [x for x in recs if x[1] == "probe"]
        if native:
            o["called"] = native[0]
            if len(native) > 1:
                o["more_calls"] = native[1:]
        r = decl_of(_SYMS, c["fn"])[0]
        if seg[k]["closed"]:
            if r == "v":
                o["res"] = ["void"]
            elif r == "d":
                o["res"] = ["d", int(probes[-1][2].split(":")[1], 16) if probes else None]
            else:
                try:
                    o["res"] = ["v", int(vals[0])]
                except (ValueError, IndexError):
                    o["res"] = ["v", " ".join(vals)]
            obs["calls"].append(o)
            continue
        # the program ended during call k
        if rc == 1 and calldiag:
            o["diag"] = calldiag
            o["res"] = ["exit"]
        elif rc == 1:
            o["res"] = ["notforeign"]
            o["stderr"] = other_err[-2:]
        else:
            o["res"] = ["crash", rc]
            o["stderr"] = other_err[-2:]
        obs["calls"].append(o)
        break
    return obs


def same_obs(mo, io):
    if sorted(mo["startup"]) != sorted(io["startup"]) or len(mo["calls"]) != len(io["calls"]) or io["extra_records"]:
        return False
    for a, b in zip(mo["calls"], io["calls"]):
        if (a["called"] is None) != (b["called"] is None):
            return False
        if a["called"] and (a["called"][1] != b["called"][1] or a["called"][2] != b["called"][2] or a["called"][0] != b["called"][0]):
            return False
        if a["diag"] != b["diag"] or a["res"] != b["res"] or b.get("more_calls"):
            return False
    return True


# ------------------------------------------------------------------ the property's own reading
def spec_arg(t, a):
    """What the native parameter of type t must receive for Cb argument a; None = the property is silent."""
    if t == "d":
        if a["k"] == "d":
            return "d:" + hex16(a["v"])
        return "d:" + hex16(bits_of_dbl(float(a["v"])))            # C conversion integer -> double
    v = a["v"] if a["k"] != "d" else trunc_c(a["v"])
    if v is None:
        return None
    if t == "i":
        if a["k"] == "d" and not -2**31 <= v < 2**31:
            return None                                             # UB in C
        return "i:%08x" % (v & 0xffffffff)
    return "l:" + hex16(v)


def spec_check(case, obs, syms):
    """Failures of the property on this observed run: list of dicts {call, rule, text, finding}."""
    fails = []
    declared = {(m["name"], fn) for m in case["mods"] for fn in m["decls"]}
    for m in case["mods"]:
        if m["name"] not in LIBS and ("load " + m["name"]) not in obs["startup"]:
            fails.append({"call": None, "rule": "missing_library_reported", "finding": None,
                          "text": "library for module %s is missing and no diagnostic was printed" % m["name"]})
        for fn in m["decls"]:
            if m["name"] in LIBS and fn not in syms and ("reg %s %s" % (m["name"], fn)) not in obs["startup"]:
                fails.append({"call": None, "rule": "missing_symbol_reported", "finding": None,
                              "text": "symbol %s is missing and no diagnostic was printed" % fn})
    for k, (c, o) in enumerate(zip(case["calls"], obs["calls"])):
        r, ps, reply = decl_of(syms, c["fn"])
        exists = c["fn"] in syms and (c["mod"] in LIBS if c["q"] else True) and \
            (((c["mod"], c["fn"]) in declared) if c["q"] else any(fn == c["fn"] for _, fn in declared))
        marsh = r in "ildv" and all(t in "ild" for t in ps)
        called = o["called"] is not None
        reported = o["res"][0] == "exit" and o["diag"] is not None
        if not exists:
            if called:
                fails.append({"call": k, "rule": "missing_never_called", "finding": None,
                              "text": "%s is not available (library/symbol/declaration missing) but a native function was entered" % c["fn"]})
            continue
        if not marsh:
            if called:
                fails.append({"call": k, "rule": "unmarshalable_called", "finding": None,
                              "text": "%s %s(%s) cannot be marshalled but the native function was entered (record %s)" % (CT.get(r, r), c["fn"], ps, o["called"][2])})
            elif not reported:
                fails.append({"call": k, "rule": "silent_unsupported", "finding": None, "text": "unmarshalable signature neither called nor reported"})
            continue
        if len(c["args"]) != len(ps):
            if called:
                fails.append({"call": k, "rule": "arity_mismatch_called", "finding": None, "text": "native function entered with a wrong argument count"})
            continue
        if not called:
            if not reported:
                fails.append({"call": k, "rule": "silent_unsupported", "finding": None,
                              "text": "%s %s(%s): no native call and no diagnostic/exit (result %s, rc %s)" % (CT[r], c["fn"], ps, o["res"], obs.get("rc"))})
            continue
        rec = o["called"][2]
        rec_args = [] if rec == "-" else rec.split(",")
        want = [spec_arg(t, a) for t, a in zip(ps, c["args"])]
        if len(rec_args) != len(want):
            fails.append({"call": k, "rule": "arg_count", "finding": None, "text": "recorded %s, demanded %s" % (rec_args, want)})
            continue
        for j, (g, w) in enumerate(zip(rec_args, want)):
            if w is not None and g != w:
                fails.append({"call": k, "rule": "arg_value", "finding": None, "pos": j,
                              "text": "%s argument %d (%s-typed %s) arrived as %s, demanded %s" % (
                                  c["fn"], j, CT[c["args"][j]["k"]], hex16(c["args"][j]["v"]), g, w)})
        if o["res"][0] in ("v", "d", "void"):
            exp = list(echo_py(r, reply, rec_args))
            if o["res"] != exp:
                fails.append({"call": k, "rule": "result_value", "finding": None,
                              "text": "%s returned %s natively (from the recorded arguments), Cb sees %s" % (c["fn"], exp, o["res"])})
        else:
            fails.append({"call": k, "rule": "result_missing", "finding": None,
                          "text": "%s was entered but the program did not continue normally: %s %s" % (c["fn"], o["res"], o.get("diag"))})
    return fails


# ------------------------------------------------------------------ generators
def mk_arg(rng, t, k, v=None, typed=None):
    """argument for a parameter of type t. typed: force the Cb type of the expression."""
    kind = typed or t
    if t == "d" and typed is None and v is None and rng.random() < 0.25:
        kind = rng.choice(["i", "l"])
        v = rng.choice(INT_BOUND + WIDE_INT + [rng.randint(-2**53, 2**53), rng.getrandbits(64) - 2**63, rng.randint(-1000, 1000)])
    if kind == "d":
        if v is None:
            v = rand_dbl(rng)
        form = "lit" if dbl_literal(v) is not None and rng.random() < 0.5 else "var"
        return {"k": "d", "v": v, "form": form}
    if v is None:
        v = rng.choice(INT_BOUND) if rng.random() < 0.3 else rng.randint(-2**31, 2**31 - 1)
    if kind == "l" or not -2**31 <= v < 2**31:
        return {"k": "l", "v": v, "form": "var"}
    return {"k": "i", "v": v, "form": rng.choice(["lit", "var"])}


def rand_dbl(rng):
    while True:
        r = rng.random()
        if r < 0.25:
            b = rng.choice(DBL_BOUND)
        elif r < 0.45:
            b = bits_of_dbl(rng.choice([1, -1]) * rng.random() * 10 ** rng.randint(-30, 30))
        elif r < 0.55:
            b = bits_of_dbl(float(rng.randint(-10**6, 10**6)))
        else:
            b = rng.getrandbits(64)
        if not is_nan_bits(b) and dbl_literal(b) is not None:
            return b


def needs_source(b):
    return dbl_literal(b) is None


class Gen:
    def __init__(self, supported, syms):
        self.sup = supported                       # [(ret, params)] in scope
        self.syms = syms
        self.has_src = ("d", "i") in supported     # double f(int): source of inf / denormals held in Cb variables

    def src_call(self, b):
        j = DBL_BOUND.index(b)
        return {"q": True, "mod": "echo", "fn": "k%d_d_i" % j, "args": [{"k": "i", "v": 0, "form": "lit"}], "use": "var"}

    def case(self, origin, calls, extra_decls=(), mod="echo"):
        """calls: list of call dicts (args may hold doubles needing a source). Inserts source calls and
        renumbers the `ref` arguments accordingly."""
        out, remap = [], {}
        for idx, c in enumerate(calls):
            c = dict(c)
            args = []
            for a in c["args"]:
                if a.get("form") == "ref":
                    a = dict(a, ref=remap[a["ref"]])
                elif a["k"] == "d" and needs_source(a["v"]):
                    if not self.has_src or a["v"] not in DBL_BOUND:
                        return None
                    out.append(self.src_call(a["v"]))
                    a = {"k": "d", "v": a["v"], "form": "ref", "ref": len(out) - 1}
                args.append(a)
            c["args"] = args
            remap[idx] = len(out)
            out.append(c)
        mods = {}
        for c in out:
            mn = c["mod"] if c["q"] else c.get("decl_mod", "echo")
            lst = mods.setdefault(mn, [])
            if c["fn"] not in lst and not c.get("undeclared"):
                lst.append(c["fn"])
        for (m, fn) in extra_decls:
            lst = mods.setdefault(m, [])
            if fn not in lst:
                lst.append(fn)
        return {"origin": origin, "mods": [{"name": n, "decls": d} for n, d in mods.items()], "calls": out}


def bound_vals(t):
    return INT_BOUND if t == "i" else [s64(v) for v in LONG_BOUND] if t == "l" else DBL_BOUND


def supported_cases(g, rng, tier):
    """every supported signature x boundary values (position by position) x reply constants."""
    cases = []
    for (r, ps) in g.sup:
        fn = "e_%s_%s" % (r, ps)
        calls = []
        for pos, t in enumerate(ps):
            for v in bound_vals(t):
                args = [mk_arg(rng, tt, j) for j, tt in enumerate(ps)]
                args[pos] = mk_arg(rng, t, pos, v)
                if t == "d" and dbl_literal(v) is None:
                    args[pos] = {"k": "d", "v": v, "form": "var"}
                calls.append({"q": True, "mod": "echo", "fn": fn, "args": args, "use": rng.choice(["var", "direct"])})
            if t == "i":
                # values outside the int range held in long variables: explicit narrowing
                for v in WIDE_INT:
                    args = [mk_arg(rng, tt, j) for j, tt in enumerate(ps)]
                    args[pos] = mk_arg(rng, "i", pos, v, typed="l")
                    calls.append({"q": True, "mod": "echo", "fn": fn, "args": args, "use": "var"})
                # double-typed expressions handed to an int parameter: C truncation
                for d in [2.7, -2.7, 2147483647.9, -2147483648.9, 1e10, -3e18, 0.99, -0.0]:
                    args = [mk_arg(rng, tt, j) for j, tt in enumerate(ps)]
                    args[pos] = mk_arg(rng, "i", pos, bits_of_dbl(d), typed="d")
                    calls.append({"q": True, "mod": "echo", "fn": fn, "args": args, "use": "var"})
        if not ps:
            calls.append({"q": True, "mod": "echo", "fn": fn, "args": [], "use": "var"})
            calls.append({"q": True, "mod": "echo", "fn": fn, "args": [], "use": "direct"})
        # all-boundary pairs for arity 2
        if len(ps) == 2:
            for v0 in bound_vals(ps[0])[:8]:
                for v1 in bound_vals(ps[1])[:8]:
                    a0, a1 = mk_arg(rng, ps[0], 0, v0), mk_arg(rng, ps[1], 1, v1)
                    calls.append({"q": True, "mod": "echo", "fn": fn, "args": [a0, a1], "use": "var"})
        # reply constants: boundary RESULTS
        for j, c in enumerate(reply_consts(r)):
            for use in ("var", "direct"):
                calls.append({"q": True, "mod": "echo", "fn": "k%d_%s_%s" % (j, r, ps),
                              "args": [mk_arg(rng, tt, jj) for jj, tt in enumerate(ps)], "use": use})
        # unqualified path and second module
        for _ in range(3):
            calls.append({"q": False, "mod": "echo", "fn": fn, "args": [mk_arg(rng, tt, j) for j, tt in enumerate(ps)], "use": "var"})
        for i in range(0, len(calls), 8):
            c = g.case("supported-boundary", calls[i:i + 8])
            if c:
                cases.append(c)
            else:
                for one in calls[i:i + 8]:
                    c1 = g.case("supported-boundary", [one])
                    if c1:
                        cases.append(c1)
    return cases


def random_cases(g, seed, n):
    cases = []
    for k in range(n):
        rng = rng_for(seed, "c20-rand", k)
        calls = []
        for _ in range(rng.randint(1, 8)):
            r, ps = rng.choice(g.sup)
            cons = reply_consts(r)
            fn = "e_%s_%s" % (r, ps) if (not cons or rng.random() < 0.7) else "k%d_%s_%s" % (rng.randrange(len(cons)), r, ps)
            args = []
            for j, t in enumerate(ps):
                x = rng.random()
                if t == "i" and x < 0.15:
                    args.append(mk_arg(rng, "i", j, rng.choice(WIDE_INT + [rng.getrandbits(64) - 2**63]), typed="l"))
                elif t == "i" and x < 0.22:
                    args.append(mk_arg(rng, "i", j, bits_of_dbl(rng.uniform(-2**31, 2**31 - 1)), typed="d"))
                elif t == "d" and x < 0.2:
                    args.append({"k": "d", "v": rng.choice(DBL_BOUND), "form": "var"})
                else:
                    args.append(mk_arg(rng, t, j))
            q = rng.random() < 0.8
            mod = "echo" if (not q or rng.random() < 0.8) else "echob"
            calls.append({"q": q, "mod": mod, "fn": fn, "args": args, "use": rng.choice(["var", "direct"]), "decl_mod": mod})
        # a double result fed back as an argument (value held only inside the Cb program)
        if rng.random() < 0.3 and ("d", "d") in g.sup:
            src = [i for i, c in enumerate(calls) if decl_of(g.syms, c["fn"])[0] == "d" and c["use"] == "var" and
                   c["mod"] == "echo" and not any(a["k"] == "d" and needs_source(a["v"]) for a in c["args"])]
            if src:
                i = rng.choice(src)
                res = echo_expected(g.syms, calls[i])
                if res is not None:
                    calls = calls[:i + 1]
                    calls.append({"q": True, "mod": "echo", "fn": "e_d_d", "args": [{"k": "d", "v": res, "form": "ref", "ref": i}], "use": "var"})
        c = g.case("random", calls)
        if c:
            cases.append(c)
    return cases


def echo_expected(syms, call):
    """bits of the double a well-behaved runtime gets back from this echo call (for feeding it onward)."""
    r, ps, reply = decl_of(syms, call["fn"])
    rec = []
    for t, a in zip(ps, call["args"]):
        w = spec_arg(t, a)
        if w is None:
            return None
        rec.append(w)
    res = echo_py(r, reply, rec)
    return res[1] if res[0] == "d" else None


def unsupported_cases(g, seed, tier, sample=None):
    """every signature of arity 0-4 over {int,long,double} x {int,long,double,void} outside the table, on the
    qualified AND the unqualified path; every float-returning and pointer-taking declaration of the library:
    one program each (each must end with the diagnostic and exit 1 without entering the library)."""
    cases = []
    sup = set(g.sup)
    allsigs = [(r, ps) for ps in all_param_lists() for r in "ildv" if (r, ps) not in sup]
    extra = [(r, ps) for (r, ps, _) in [g.syms[n] for n in sorted(g.syms) if g.syms[n][0] == "f" or any(t.isupper() for t in g.syms[n][1])]]
    for idx, (r, ps) in enumerate(allsigs + extra):
        for q in (True, False):
            rng = rng_for(seed, "c20-unsup", idx, q)
            args = [({"k": "p", "base": t.lower(), "v": 0, "form": "ptr"} if t.isupper() else mk_arg(rng, t, j)) for j, t in enumerate(ps)]
            origin = "unsupported" if (r, ps) in allsigs else "unmarshalable-declaration"
            c = g.case(origin + ("" if q else "-unqualified"),
                       [{"q": q, "mod": "echo", "fn": "e_%s_%s" % (r, ps), "args": args, "use": "var", "decl_mod": "echo"}])
            cases.append(c)
    return cases, len(allsigs)


def misc_cases(g, seed, tier):
    cases = []
    rng = rng_for(seed, "c20-misc")
    sup_i = [s for s in g.sup if s[0] in "il" and s[1]]
    some = sup_i[:3] if sup_i else g.sup[:2]
    for (r, ps) in some:
        fn = "e_%s_%s" % (r, ps)
        good = [mk_arg(rng, t, j) for j, t in enumerate(ps)]
        # missing library: the declaration is reported, the call is not a foreign call
        cases.append(g.case("missing-library", [{"q": True, "mod": "nolib", "fn": fn, "args": good, "use": "var"}]))
        # arity mismatch: one argument too few / too many
        cases.append(g.case("arity-mismatch", [{"q": True, "mod": "echo", "fn": fn, "args": good[:-1], "use": "var"},
                                               {"q": True, "mod": "echo", "fn": fn, "args": good + [mk_arg(rng, "i", 9)], "use": "var"},
                                               {"q": True, "mod": "echo", "fn": fn, "args": good, "use": "var"}]))
        # same function declared twice in the same module block and in the second module
        cases.append(g.case("two-modules", [{"q": True, "mod": "echob", "fn": fn, "args": good, "use": "var"},
                                            {"q": True, "mod": "echo", "fn": fn, "args": good, "use": "var"},
                                            {"q": False, "mod": "echo", "fn": fn, "args": good, "use": "var", "decl_mod": "echo"}],
                            extra_decls=[("echob", fn), ("echo", fn)]))
    # missing symbol: qualified (silent 0, no call) and a good call next to it
    for fk in ["nosuch_i_ii", "nosuch_d_d", "nosuch_v_"]:
        r, ps, _ = FAKE_DECLS[fk]
        args = [mk_arg(rng, t, j) for j, t in enumerate(ps)]
        calls = [{"q": True, "mod": "echo", "fn": fk, "args": args, "use": "var"}]
        if g.sup:
            r2, ps2 = g.sup[0]
            calls.append({"q": True, "mod": "echo", "fn": "e_%s_%s" % (r2, ps2), "args": [mk_arg(rng, t, j) for j, t in enumerate(ps2)], "use": "var"})
        cases.append(g.case("missing-symbol", calls))
        cases.append(g.case("missing-symbol", [{"q": False, "mod": "echo", "fn": fk, "args": args, "use": "var", "decl_mod": "echo"}]))
    # a call to a function that exists in the library but was never declared
    cases.append(g.case("undeclared", [{"q": True, "mod": "echo", "fn": "e_i_i", "args": [mk_arg(rng, "i", 0)], "use": "var", "undeclared": True}],
                        extra_decls=[("echo", "e_i_")]))
    return [c for c in cases if c]


def int_to_double_cases(g, seed, tier):
    """integer-typed expressions for double parameters (DESIGN.md section 7 #30, repaired by 0c197b6): boundary
    integers at every double position of every supported signature, both paths."""
    cases = []
    rng = rng_for(seed, "c20-i2d")
    for (r, ps) in g.sup:
        for pos, t in enumerate(ps):
            if t != "d":
                continue
            calls = []
            for v in [2, 0, -1, 2**31 - 1, -2**31, 10**15, 2**53 - 1, -(2**53 - 1), 2**53 + 1, 2**63 - 1, -2**63]:
                args = [mk_arg(rng, tt, j) for j, tt in enumerate(ps)]
                args[pos] = mk_arg(rng, "d", pos, v, typed=rng.choice(["i", "l"]))
                calls.append({"q": rng.random() < 0.7, "mod": "echo", "fn": "e_%s_%s" % (r, ps), "args": args, "use": "var", "decl_mod": "echo"})
            cases.append(g.case("int-arg-to-double", calls))
    return [c for c in cases if c]


# ------------------------------------------------------------------ running
def run_cases(cases, impl_dir, echo_dir, syms):
    global _SYMS
    _SYMS = syms
    lines, maps = [], []
    for c in cases:
        l, mid, fid = model_line(c, syms)
        lines.append(l)
        maps.append((mid, fid))
    mout = common.run_model(PROP, "history", lines)
    if len(mout) != len(cases):
        raise RuntimeError("model returned %d lines for %d cases" % (len(mout), len(cases)))

    def one(c):
        prog = cb_program(c, syms)
        rc, o, e = common.run_cb(impl_dir, prog, cwd=echo_dir, timeout=20)
        return rc, o, e
    runs = common.pmap(one, cases)
    res = []
    for c, ml, (mid, fid), (rc, o, e) in zip(cases, mout, maps, runs):
        mo = model_obs(c, ml, mid, fid)
        io = observe(c, rc, o, e)
        agree = same_obs(mo, io)
        spec = spec_check(c, io, syms)
        if agree:
            # the model speaks for the implementation here: the pointer type it says the call went through
            for k, (cc, o) in enumerate(zip(c["calls"], mo["calls"])):
                r_, ps_, _ = decl_of(syms, cc["fn"])
                want = "%s(%s)" % (r_, ps_.lower())
                if o.get("cast") and o["cast"] != want and not any(f["call"] == k and f["rule"] == "unmarshalable_called" for f in spec):
                    spec.append({"call": k, "rule": "wrong_cast", "finding": None,
                                 "text": "%s declared %s is entered through a pointer of type %s" % (cc["fn"], want, o["cast"])})
        res.append({"case": c, "model": mo, "impl": io, "agree": agree, "spec": spec, "model_line": ml})
    return res


def split_case(case):
    """single-call sub-cases (each with the source calls it refers to)."""
    out = []
    for k, c in enumerate(case["calls"]):
        if c["fn"].startswith("k") and c["fn"].endswith("_d_i") and any(
                a.get("form") == "ref" and a["ref"] == k for cc in case["calls"][k + 1:] for a in cc["args"]):
            continue
        calls, remap = [], {}
        for a in c["args"]:
            if a.get("form") == "ref":
                remap[a["ref"]] = len(calls)
                calls.append(case["calls"][a["ref"]])
        c2 = dict(c)
        c2["args"] = [dict(a, ref=remap[a["ref"]]) if a.get("form") == "ref" else a for a in c["args"]]
        calls.append(c2)
        mods = {}
        for cc in calls:
            for m in case["mods"]:
                if cc["fn"] in m["decls"] and (m["name"] == cc["mod"] or not cc["q"]):
                    mods.setdefault(m["name"], [])
                    if cc["fn"] not in mods[m["name"]]:
                        mods[m["name"]].append(cc["fn"])
            if cc["q"]:
                mods.setdefault(cc["mod"], [])
        out.append({"origin": case["origin"], "mods": [{"name": n, "decls": d} for n, d in mods.items()], "calls": calls})
    return out


def payload(r, syms):
    return {"case": r["case"], "program": cb_program(r["case"], syms), "model": r["model"], "impl": r["impl"],
            "spec_failures": r["spec"], "model_events": r["model_line"]}


def table_supported(tab):
    sup = []
    for g in tab["groups"]:
        for r in g["rows"]:
            for ret in g["rets"]:
                rr = TYNAME.get(ret, "o")
                ps = "".join(TYNAME.get(p or "TOther", "o") for p in r["pattern"])
                if rr in "ildv" and all(p in "ild" for p in ps) and (rr, ps) not in sup:
                    sup.append((rr, ps))
    return sup


def model_supported():
    sigs = [(r, ps) for ps in all_param_lists() for r in "ildv"]
    out = common.run_model(PROP, "supported", ["%s:%s" % s for s in sigs])
    return [s for s, o in zip(sigs, out) if o == "1"]


def report_bad(rep, results, impl_dir, echo_dir, syms, budget=6):
    """Disagreements model/impl and property failures not explained by a listed known finding -> VIOLATION
    (shrunk to one call). known_findings/C20.json lists none at present: every failure is a violation."""
    kfs = {f["id"]: f for f in common.known_findings(PROP)}

    def unexplained(r):
        return [f for f in r["spec"] if f["finding"] not in kfs]
    n = 0
    for r in results:
        for f in r["spec"]:
            if f["finding"] in kfs:
                rep.known(f["finding"], kfs[f["finding"]]["what_fails"])
        if r["agree"] and not unexplained(r):
            continue
        n += 1
        if n > budget:
            continue
        small = r
        if len(r["case"]["calls"]) > 1:
            subs = run_cases(split_case(r["case"]), impl_dir, echo_dir, syms)
            bad = [s for s in subs if (not s["agree"]) or unexplained(s)]
            if bad:
                bad.sort(key=lambda s: (not s["spec"], len(s["case"]["calls"])))
                small = bad[0]
        un = unexplained(small)
        if un:
            rep.violation("spec" if small["agree"] else "corr", payload(small, syms),
                          "foreign call violates the property: " + un[0]["text"] +
                          ("" if small["agree"] else " (and the proved model disagrees with the implementation)"),
                          no_failing_input=False)
        else:
            rep.violation("corr", dict(payload(small, syms), broken="correspondence Model.run_history = ffi_manager.cpp/call_impl.cpp (carrier of every C20 theorem)"),
                          "implementation and proved model disagree on a foreign call (the property's own reading still holds on this input)",
                          no_failing_input=True)
    return n


# ------------------------------------------------------------------ main
def run(rep):
    seed, tier = rep.seed, rep.tier
    status, tab, msg = ffi_table.regenerate(common.REPO, common.COQ)
    rep.coverage["translator"] = {"status": status, "message": msg, "rows": ffi_table.summary(tab) if tab else []}
    if status == "stale":
        rep.notes.append("translator: stale (%s); table theorems speak about the last generated table, correspondence alone ties the code" % msg)
    cq = common.coq_check_props(PROP)
    common.proof_coverage(rep, cq)
    common.ensure_model(PROP)
    impl_dir = common.build_impl("plain")
    sup = model_supported()
    if tab is not None and sorted(table_supported(tab)) != sorted(sup):
        rep.notes.append("supported set of the model %s differs from the translator's %s" % (sup, table_supported(tab)))
    echo_dir, syms = build_echo(sup)
    g = Gen(sup, syms)
    global _SYMS
    _SYMS = syms

    cases = []
    corpus = os.path.join(common.VERIF, "corpus", "c20.json")
    if os.path.exists(corpus):
        for c in json.load(open(corpus)):
            c["origin"] = "corpus"
            cases.append(c)
    seeds = [seed] if tier == "quick" else [seed, seed * 1000 + 1, seed * 1000 + 2, seed * 1000 + 3]
    n_unsup = 0
    for s in seeds:
        cases += supported_cases(g, rng_for(s, "c20-sup"), tier)
        cases += random_cases(g, s, 1000 if tier == "quick" else 20000)
        u, n_unsup = unsupported_cases(g, s, tier)
        cases += u
        cases += misc_cases(g, s, tier)
        cases += int_to_double_cases(g, s, tier)
    cases = [c for c in cases if c]
    results = run_cases(cases, impl_dir, echo_dir, syms)

    if not cq["ok"]:
        # a broken obligation about the regenerated table: look for the concrete input among the runs
        concrete = [r for r in results if [f for f in r["spec"] if not f["finding"]]]
        rep.violation("proof", {"theorem": cq["failed_theorem"], "log": cq["log"][-3000:], "translator": rep.coverage["translator"]},
                      "proof obligation %s no longer checks%s" % (cq["failed_theorem"], " (failing input reported separately)" if concrete else ""),
                      no_failing_input=not concrete)

    nbad = report_bad(rep, results, impl_dir, echo_dir, syms)

    # coverage
    hist, distinct, nontriv, ncalls, nnative = {}, set(), 0, 0, 0
    for r in results:
        hist[r["case"]["origin"]] = hist.get(r["case"]["origin"], 0) + 1
        for k, o in enumerate(r["impl"]["calls"]):
            ncalls += 1
            c = r["case"]["calls"][k]
            key = (c["fn"], c["q"], c["mod"], tuple((a["k"], a["v"]) for a in c["args"]))
            if key in distinct:
                continue
            distinct.add(key)
            if o["called"] is not None or o["diag"] is not None or o["res"][0] in ("exit", "notforeign"):
                nontriv += 1
            if o["called"] is not None:
                nnative += 1
    sample_idx = [i for i, r in enumerate(results) if r["case"]["origin"] in ("supported-boundary", "unsupported", "random")][:1] + \
                 [i for i, r in enumerate(results) if r["case"]["origin"] == "unsupported"][:1]
    rep.coverage.update({
        "evaluations": ncalls, "programs": len(cases), "distinct_nontrivial": nontriv, "native_calls_observed": nnative,
        "disagreements": nbad,
        "rule": "each generated `use foreign` program is run on the real binary (cwd = scratch dir with stdlib/foreign/libecho.so, libechob.so built by the check) "
                "and through the extracted model; compared per call: the argument bit patterns recorded by the library, the result seen by Cb (ints printed, doubles "
                "probed back through the library), diagnostics, exit; the property's reading is evaluated on the observation. evaluations = calls executed; distinct = "
                "distinct (function, path, module, typed argument values); non-trivial = a native call was entered or a diagnostic/exit was produced",
        "exhaustive": True,
        "exhaustive_space": "all %d signatures of arity 0-4 over {int,long,double} x {int,long,double,void} outside the table (qualified path); "
                            "every supported signature x every boundary value at every position x every boundary result constant" % n_unsup,
        "supported_signatures": ["%s(%s)" % s for s in sup],
        "input_distribution": hist,
        "samples": [{"program": cb_program(results[i]["case"], syms), "model_events": results[i]["model_line"],
                     "impl_observation": results[i]["impl"]} for i in sample_idx],
    })

    # known findings: replay each stored entry on the implementation
    for f in common.known_findings(PROP):
        c = f["replay"]["case"]
        try:
            prog = cb_program(c, syms)
        except (KeyError, AssertionError) as ex:
            rep.notes.append("known finding %s cannot be replayed on the current table (%s)" % (f["id"], ex))
            continue
        rc, o, e = common.run_cb(impl_dir, prog, cwd=echo_dir, timeout=20)
        io = observe(c, rc, o, e)
        fails = spec_check(c, io, syms)
        if any(x["finding"] == f["id"] for x in fails):
            rep.known(f["id"], f["what_fails"])
            extra = [x for x in fails if x["finding"] != f["id"]]
            if extra:
                rep.violation("known-replay", {"finding": f["id"], "program": prog, "impl": io, "spec_failures": fails},
                              "replay of %s fails the property in a further way: %s" % (f["id"], extra[0]["text"]))
        elif fails:
            rep.violation("known-replay", {"finding": f["id"], "program": prog, "impl": io, "spec_failures": fails},
                          "replay of %s now fails differently: %s" % (f["id"], fails[0]["text"]))
        else:
            rep.notes.append("known finding %s no longer reproduces (fixed?)" % f["id"])
    if tier == "thorough" and cq["ok"]:
        with common.Lock("coq"):
            rc, o, e = common.sh(["coqchk", "-silent", "-o", "-Q", ".", "Cb", "Cb.C20.Properties_C20"], cwd=common.COQ, timeout=1200)
        txt = o + e
        m = re.search(r"\* Axioms:\s*(.*?)\n\s*\n", txt, re.S)
        rep.coverage["coqchk"] = {"rc": rc, "axioms": (m.group(1).strip() if m else "?")}
        if rc != 0:
            rep.violation("coqchk", {"log": txt[-3000:]}, "coqchk rejects the compiled closure of Properties_C20", True)
    rep.assumptions += [
        "that a call through a correctly typed function pointer passes the bits unchanged is the platform ABI (x86-64 SysV, gcc): tested by the echo library, not proved",
        "registration (dlopen/dlsym) and the two call sites are modelled by hand and tied to the code by differential testing, not proof",
        "static_cast<int64_t>(double) is modelled as x86-64 cvttsd2si (out-of-range -> INT64_MIN); doubles outside the int range passed to int parameters are compared Mech = impl only",
        "NaN arguments/results are not generated (the evaluator quiets signalling NaNs; outside the property's value list)",
        "double results are observed by passing the Cb variable back through probe(double) of the echo library (the double(double) row)",
    ]


def replay(path):
    data = json.load(open(path))
    c = data["case"]
    if "case" not in c:
        print(json.dumps(c, indent=1)[:3000])
        return 1
    status, tab, msg = ffi_table.regenerate(common.REPO, common.COQ)
    common.ensure_model(PROP)
    impl_dir = common.build_impl("plain")
    echo_dir, syms = build_echo(model_supported())
    r, = run_cases([c["case"]], impl_dir, echo_dir, syms)
    print(cb_program(c["case"], syms))
    print("model:", json.dumps(r["model"]))
    print("impl: ", json.dumps(r["impl"]))
    print("spec: ", json.dumps(r["spec"]))
    known_ids = {f["id"] for f in common.known_findings(PROP)}
    bad = (not r["agree"]) or any(f["finding"] not in known_ids for f in r["spec"])
    return 1 if bad else 0
