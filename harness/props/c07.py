"""C07 - structs and arrays copy by value; pointers, references, array parameters and self alias coherently.

Theorems: coq/C07/Properties_C07.v (location+path store: write_frame, paths_agree, copy_independent,
alias_visible over arbitrary op sequences; the code's copy-in / write-through / copy-back convention for array
parameters and `self` refines aliasing for callees that reach the object through the parameter only, and is
refuted otherwise).
Tie: random histories of writes, aggregate copies, pointer retargeting, calls (by value / T& / T* / array
parameter / self, with generated callee bodies) and read-all-paths over a small object graph, printed as Cb
programs and run on the real `main`; the transcript must equal the extracted model's (bin/c07_model).
The implementation's double representation of structs (member map + flattened variables) is NOT modelled:
the generator stays inside the fragment where main and the model agree and every excluded form is a recorded
known finding that is re-confirmed on every run.
"""
import json
import os
import random
import re

import common
from common import rng_for

PROP = "C07"
LEVEL = "proof"

# ------------------------------------------------------------------ object graph
# types: "int", "In", "P", "A3" (int[3]), "PS" (P[2]), pointers "*P" "*In" "*int"
STRUCTS = {"In": [("v", "int"), ("w", "int")],
           "P": [("s", "int"), ("inner", "In"), ("arr", "A3")]}
ARRAYS = {"A3": ("int", 3), "PS": ("P", 2)}
# variables of the graph, in location order (location index = position)
VARS = [("a", "P"), ("b", "P"), ("ps", "PS"), ("g", "A3"), ("h", "A3"), ("n", "int"), ("m", "int"), ("e", "In"),
        ("pp", "*P"), ("pin", "*In"), ("pi", "*int")]
VTYPE = dict(VARS)
VLOC = {n: i for i, (n, _) in enumerate(VARS)}


def cb_type(t):
    return {"A3": "int[3]", "PS": "P[2]", "*P": "P*", "*In": "In*", "*int": "int*"}.get(t, t)


def children(t):
    """list of (label, type) of the children of an aggregate type, [] for scalars/pointers"""
    if t in STRUCTS:
        return list(STRUCTS[t])
    if t in ARRAYS:
        et, n = ARRAYS[t]
        return [(i, et) for i in range(n)]
    return []


def leaves(t, pre=()):
    """all scalar leaf paths (tuples of child indices) of type t"""
    ch = children(t)
    if not ch:
        return [pre]
    out = []
    for k, (_, ct) in enumerate(ch):
        out += leaves(ct, pre + (k,))
    return out


def zero(t):
    if t.startswith("*"):
        return None          # null pointer
    ch = children(t)
    if not ch:
        return 0
    return [zero(ct) for _, ct in ch]


# ------------------------------------------------------------------ access expressions
# ("v", name) | ("par", i) | ("f", a, k) | ("d", a)

def mk_path(root, path):
    a = root
    for k in path:
        a = ("f", a, k)
    return a


class TypeEnv:
    def __init__(self, vtypes, ptypes=()):
        self.vt, self.pt = vtypes, list(ptypes)

    def typeof(self, a):
        if a[0] == "v":
            return self.vt[a[1]]
        if a[0] == "par":
            return self.pt[a[1]]
        if a[0] == "f":
            return children(self.typeof(a[1]))[a[2]][1]
        if a[0] == "d":
            t = self.typeof(a[1])
            assert t.startswith("*"), (a, t)
            return t[1:]
        raise ValueError(a)


def a_ser(a):
    if a[0] == "v":
        return "V%d" % a[2] if len(a) > 2 else "V?" + a[1]
    raise ValueError


def vname(loc):
    return VARS[loc][0] if loc < len(VARS) else "c%d" % loc


def render(a, env, sty, pnames=None):
    """Cb text of an access expression. sty: dict with 'arrow' (True: p->m, False: (*p).m), 'ivar' (index through
    the int variables i0..i2 instead of literals)."""
    k = a[0]
    if k == "v":
        return vname(a[1])
    if k == "par":
        return pnames[a[1]]
    if k == "d":
        return "(*%s)" % render(a[1], env, sty, pnames)
    if k == "f":
        base, idx = a[1], a[2]
        bt = env.typeof(base)
        if bt in ARRAYS:
            ix = ("i%d" % idx) if sty.get("ivar") else str(idx)
            return "%s[%s]" % (render(base, env, sty, pnames), ix)
        name = STRUCTS[bt][idx][0]
        if base[0] == "d" and sty.get("arrow", True):
            return "%s->%s" % (render(base[1], env, sty, pnames), name)
        return "%s.%s" % (render(base, env, sty, pnames), name)
    raise ValueError(a)


def feat(a, env):
    """feature tuple of an access expression, used by avoidance predicates and histograms:
    (root kind, member chain as string)"""
    chain = []
    x = a
    while x[0] == "f":
        bt = env.typeof(x[1])
        chain.append("[]" if bt in ARRAYS else STRUCTS[bt][x[2]][0])
        x = x[1]
    chain.reverse()
    if x[0] == "v":
        root = "name"
    elif x[0] == "par":
        root = "par"
    else:
        inner = x[1]
        root = "deref(%s)" % feat(inner, env)[0] if inner[0] != "v" and inner[0] != "par" else ("*" + inner[0])
    return root, ".".join(chain)


# ------------------------------------------------------------------ shadow heap (the property's own reading, in Python)
# heap: list of trees (nested lists; leaves int, or pointer = None | (loc, path-tuple)). cell = (loc, path-tuple)
import copy as _copy


class Bad(Exception):
    pass


def t_read(v, p):
    for k in p:
        if not isinstance(v, list) or k >= len(v):
            raise Bad("path")
        v = v[k]
    return v


def t_write(v, p, x):
    if not p:
        return x
    if not isinstance(v, list) or p[0] >= len(v):
        raise Bad("path")
    out = list(v)
    out[p[0]] = t_write(v[p[0]], p[1:], x)
    return out


def flat(v):
    if isinstance(v, list):
        out = []
        for c in v:
            out += flat(c)
        return out
    if v is None or isinstance(v, tuple):
        return [-1]
    return [v]


class Shadow:
    """Spec (mech=False): T&, array parameters and self denote the argument's cell.
    Mech (mech=True): array parameters and self are copy-in / write-through / copy-back
    (call_impl.cpp:4886-4945, cleanup.cpp:155, statement_executor.cpp:720, call_impl.cpp:6056)."""

    def __init__(self, mech=False):
        self.h = [zero(t) for _, t in VARS]
        self.mech = mech
        self.out = []

    def read(self, c):
        if c[0] >= len(self.h):
            raise Bad("loc")
        return t_read(self.h[c[0]], c[1])

    def write(self, c, x, thru=()):
        if c[0] >= len(self.h):
            raise Bad("loc")
        self.h[c[0]] = t_write(self.h[c[0]], c[1], x)
        for (tmp, orig) in thru:             # write-through of copy-in parameters
            if c[0] == tmp:
                self.h[orig[0]] = t_write(self.h[orig[0]], orig[1] + c[1], x)

    def resolve(self, a, fr):
        k = a[0]
        if k == "v":
            return (a[1], ())
        if k == "par":
            return fr[a[1]]
        if k == "f":
            l, p = self.resolve(a[1], fr)
            return (l, p + (a[2],))
        if k == "d":
            v = self.read(self.resolve(a[1], fr))
            if not isinstance(v, tuple):
                raise Bad("null/invalid pointer")
            return v
        raise Bad("aexp")

    def sop(self, s, fr, thru=()):
        k = s["k"]
        if k == "w":
            self.write(self.resolve(s["a"], fr), s["z"], thru)
        elif k == "cp":
            v = self.read(self.resolve(s["s"], fr))
            self.write(self.resolve(s["d"], fr), v, thru)
        elif k == "addr":
            self.write(self.resolve(s["p"], fr), self.resolve(s["t"], fr), thru)
        elif k == "rd":
            vals = []
            for a in s["as"]:
                vals += flat(self.read(self.resolve(a, fr)))
            self.out.append([s["id"]] + vals)
        else:
            raise Bad("sop " + k)

    def op(self, o):
        k = o["k"]
        if k in ("w", "cp", "addr", "rd"):
            self.sop(o, [])
        elif k == "decl":
            v = self.read(self.resolve(o["s"], []))
            self.h.append(v)
        elif k == "call":
            fr, thru, back = [], [], []
            for prm in o["params"]:
                md = prm["mode"]
                if md == "val":
                    self.h.append(self.read(self.resolve(prm["arg"], [])))
                    fr.append((len(self.h) - 1, ()))
                elif md == "ptr":           # pointer passed by value: &arg
                    self.h.append(self.resolve(prm["arg"], []))
                    fr.append((len(self.h) - 1, ()))
                elif md == "pval":          # value of a pointer variable passed by value
                    self.h.append(self.read(self.resolve(prm["arg"], [])))
                    fr.append((len(self.h) - 1, ()))
                elif md == "ref":
                    fr.append(self.resolve(prm["arg"], []))
                elif not self.mech:          # arr / self in Spec: the argument's cell (a dummy location keeps numbering equal)
                    fr.append(self.resolve(prm["arg"], []))
                    self.h.append(0)
                else:                        # arr / self in Mech: copy in
                    c = self.resolve(prm["arg"], [])
                    self.h.append(self.read(c))
                    tmp = len(self.h) - 1
                    fr.append((tmp, ()))
                    thru.append((tmp, c))
                    back.append((tmp, c))
            for s in o["body"]:
                self.sop(s, fr, thru)
            rv = None
            if o.get("ret") is not None:
                rv = self.read(self.resolve(o["ret"]["e"], fr))
            for tmp, c in back:
                self.write(c, self.read((tmp, ())))
            if rv is not None:
                d = o["ret"]["d"]
                if d is None:
                    self.h.append(rv)
                else:
                    self.write(self.resolve(d, []), rv)
        else:
            raise Bad("op " + k)


def shadow_run(case, mech):
    """transcript (list of int lists) or transcript + ['ERR'] when an op cannot be executed"""
    sh = Shadow(mech)
    try:
        for o in case["ops"]:
            sh.op(o)
    except Bad as e:
        sh.out.append(["ERR", str(e)])
    return sh.out
