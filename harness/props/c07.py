"""C07 - structs and arrays copy by value; pointers, references, array parameters and self alias coherently.

Theorems: coq/C07/Properties_C07.v (location+path store: write_frame, paths_agree, copy_independent,
alias_visible over arbitrary op sequences; the code's copy-in / write-through / copy-back convention for array
parameters and `self` refines aliasing for callees that reach the object through the parameter only, and is
refuted otherwise).
Tie: random histories of writes, aggregate copies, pointer retargeting, calls (by value / T& / T* / array
parameter / self, with generated callee bodies; receivers by name, p->, (*p)., element, parameter, self; exits by
falling off the end, `return;`, `return e;`; calls made from inside callee bodies) and read-all-paths over a small
object graph, printed as Cb programs and run on the real `main`; the transcript must equal the extracted model's
(bin/c07_model).
The implementation's double representation of structs (member map + flattened variables) is NOT modelled:
the generator stays inside the fragment where main and the model agree and every excluded form is a recorded
known finding that is re-confirmed on every run.
"""
import copy
import json
import os
import random
import re

import common
from common import rng_for

PROP = "C07"
LEVEL = "proof"

# ------------------------------------------------------------------ object graph
# types: "int", "str" (string holding decimal digits), "dbl" (double z.5), "In", "P", "Q" (flat struct with members of
# three scalar kinds: the write-back code copies .value / .str_value / .double_value separately), "A3" (int[3]),
# "PS" (P[2]), pointers "*P" "*In" "*Q" "*int"
STRUCTS = {"In": [("v", "int"), ("w", "int")],
           "P": [("s", "int"), ("inner", "In"), ("arr", "A3")],
           "Q": [("n", "int"), ("t", "str"), ("d", "dbl")]}
SCALARS = ("int", "str", "dbl")
ARRAYS = {"A3": ("int", 3), "PS": ("P", 2), "ES": ("In", 2)}
# variables of the graph, in location order (location index = position)
VARS = [("a", "P"), ("b", "P"), ("ps", "PS"), ("e", "In"), ("f", "In"), ("es", "ES"), ("g", "A3"), ("h", "A3"),
        ("n", "int"), ("m", "int"), ("pp", "*P"), ("pin", "*In"), ("pi", "*int"),
        ("u", "Q"), ("x", "Q"), ("pq", "*Q")]
NV = len(VARS)


def cb_type(t):
    return {"A3": "int[3]", "PS": "P[2]", "ES": "In[2]", "*P": "P*", "*In": "In*", "*int": "int*", "*Q": "Q*",
            "str": "string", "dbl": "double"}.get(t, t)


def lit(ty, z):
    """Cb literal of the scalar value z at a cell of type ty"""
    return {"str": '"%d"' % z, "dbl": "%d.5" % z}.get(ty, "%d" % z)


def children(t):
    """list of (label, type) of the children of an aggregate type, [] for scalars/pointers"""
    if t in STRUCTS:
        return list(STRUCTS[t])
    if t in ARRAYS:
        et, n = ARRAYS[t]
        return [(i, et) for i in range(n)]
    return []


def leaves(t, pre=()):
    ch = children(t)
    if not ch:
        return [pre]
    out = []
    for k, (_, ct) in enumerate(ch):
        out += leaves(ct, pre + (k,))
    return out


def zero(t):
    if t.startswith("*"):
        return None          # null pointer
    ch = children(t)
    if not ch:
        return 0
    return [zero(ct) for _, ct in ch]


# ------------------------------------------------------------------ access expressions
# ("v", loc) | ("par", i) | ("f", a, k) | ("d", a)      (lists after a JSON round trip)

def tup(a):
    """normalise an access expression read back from JSON (lists) to tuples"""
    if a is None:
        return None
    if a[0] in ("v", "par"):
        return (a[0], a[1])
    if a[0] == "f":
        return ("f", tup(a[1]), a[2])
    return ("d", tup(a[1]))


def vname(loc):
    return VARS[loc][0] if loc < NV else "c%d" % loc


class TypeEnv:
    def __init__(self, vt, pt=()):
        self.vt, self.pt = vt, list(pt)

    def typeof(self, a):
        if a[0] == "v":
            return self.vt[a[1]]
        if a[0] == "par":
            return self.pt[a[1]]
        if a[0] == "f":
            return children(self.typeof(a[1]))[a[2]][1]
        t = self.typeof(a[1])
        assert t.startswith("*"), (a, t)
        return t[1:]


def render(a, env, sty, pnames=None):
    """Cb text of an access expression. sty: 'arrow' (p->m instead of (*p).m), 'ivar' (index through the int
    variables i0..i2 instead of literals)."""
    k = a[0]
    if k == "v":
        return vname(a[1])
    if k == "par":
        return pnames[a[1]]
    if k == "d":
        return "(*%s)" % render(a[1], env, sty, pnames)
    base, idx = a[1], a[2]
    bt = env.typeof(base)
    if bt in ARRAYS:
        ix = ("i%d" % idx) if sty.get("ivar") else str(idx)
        return "%s[%s]" % (render(base, env, sty, pnames), ix)
    name = STRUCTS[bt][idx][0]
    if base[0] == "d" and sty.get("arrow", True):
        return "%s->%s" % (render(base[1], env, sty, pnames), name)
    return "%s.%s" % (render(base, env, sty, pnames), name)


# ------------------------------------------------------------------ shadow heap (the property's own reading, in Python)
# heap: list of trees (nested lists; leaves int, or pointer = None | (loc, path-tuple)). cell = (loc, path-tuple)

class Bad(Exception):
    pass


def t_read(v, p):
    for k in p:
        if not isinstance(v, list) or k >= len(v):
            raise Bad("path")
        v = v[k]
    return v


def t_write(v, p, x):
    if not p:
        return x
    if not isinstance(v, list) or p[0] >= len(v):
        raise Bad("path")
    out = list(v)
    out[p[0]] = t_write(v[p[0]], p[1:], x)
    return out


def flat(v):
    if isinstance(v, list):
        out = []
        for c in v:
            out += flat(c)
        return out
    if v is None or isinstance(v, tuple):
        return [-1]
    return [v]


class Shadow:
    """Spec (mech=False): T&, array parameters and self denote the argument's cell.
    Mech (mech=True): array parameters and self are copy-in / write-through / copy-back
    (call_impl.cpp:4886-4945 and 6280, cleanup.cpp:155, statement_executor.cpp:720, call_impl.cpp:4326 and 6056)."""

    def __init__(self, mech=False):
        self.h = [zero(t) for _, t in VARS]
        self.mech = mech
        self.out = []

    def read(self, c):
        if c[0] >= len(self.h):
            raise Bad("loc")
        return t_read(self.h[c[0]], c[1])

    def write(self, c, x, thru=()):
        if c[0] >= len(self.h):
            raise Bad("loc")
        self.h[c[0]] = t_write(self.h[c[0]], c[1], x)
        for (tmp, orig) in thru:             # write-through of copy-in parameters
            if c[0] == tmp:
                self.h[orig[0]] = t_write(self.h[orig[0]], orig[1] + c[1], x)

    def resolve(self, a, fr):
        k = a[0]
        if k == "v":
            return (a[1], ())
        if k == "par":
            return fr[a[1]]
        if k == "f":
            l, p = self.resolve(a[1], fr)
            return (l, p + (a[2],))
        if k == "d":
            v = self.read(self.resolve(a[1], fr))
            if not isinstance(v, tuple):
                raise Bad("null/invalid pointer")
            return v
        raise Bad("aexp")

    def sop(self, s, fr, thru=()):
        k = s["k"]
        if k == "w":
            self.write(self.resolve(s["a"], fr), s["z"], thru)
        elif k == "cp":
            v = self.read(self.resolve(s["s"], fr))
            self.write(self.resolve(s["d"], fr), v, thru)
        elif k == "addr":
            self.write(self.resolve(s["p"], fr), self.resolve(s["t"], fr), thru)
        elif k == "rd":
            vals = []
            for a in s["as"]:
                vals += flat(self.read(self.resolve(a, fr)))
            self.out.append([s["id"]] + vals)
        else:
            raise Bad("sop " + k)

    def bind(self, params, fr0):
        """bind the parameters of a call whose arguments are resolved in the frame fr0 (main: []); every parameter
        allocates one location. Returns (frame, write-through list, copy-back list)"""
        fr, thru, back = [], [], []
        for prm in params:
            md = prm["mode"]
            if md == "val" or md == "pval":      # value (struct/array/int tree, or the value of a pointer variable)
                self.h.append(self.read(self.resolve(prm["arg"], fr0)))
                fr.append((len(self.h) - 1, ()))
            elif md == "ptr":                    # &arg passed to a T* parameter
                self.h.append(self.resolve(prm["arg"], fr0))
                fr.append((len(self.h) - 1, ()))
            elif md == "ref":
                fr.append(self.resolve(prm["arg"], fr0))
                self.h.append(0)                 # dummy: keeps location numbering independent of the mode
            elif not self.mech:                  # arr / self in Spec: the argument's cell
                fr.append(self.resolve(prm["arg"], fr0))
                self.h.append(0)
            else:                                # arr / self in Mech: copy in
                c = self.resolve(prm["arg"], fr0)
                self.h.append(self.read(c))
                tmp = len(self.h) - 1
                fr.append((tmp, ()))
                thru.append((tmp, c))
                back.append((tmp, c))
        return fr, thru, back

    def call(self, o, fr0, thru0):
        """a call made from main (fr0 = [], thru0 = []) or from inside a callee body (nested call: arguments and
        the destination of the returned value are resolved in the caller's frame fr0)"""
        fr, thru, back = self.bind(o["params"], fr0)
        th = thru + list(thru0)
        for s in o["body"]:
            if s["k"] == "call":
                self.call(s, fr, th)
            else:
                self.sop(s, fr, th)
        rv = None
        if o.get("ret") is not None:
            rv = self.read(self.resolve(o["ret"]["e"], fr))
        for tmp, c in back:
            self.write(c, self.read((tmp, ())))
        if rv is not None:
            d = o["ret"]["d"]
            if d is None:
                self.h.append(rv)
            else:
                self.write(self.resolve(d, fr0), rv, thru0)

    def op(self, o):
        k = o["k"]
        if k in ("w", "cp", "addr", "rd"):
            self.sop(o, [])
        elif k == "nop":                             # placeholder left by the shrinker: allocates like the op it replaces
            self.h += [0] * o["alloc"]
        elif k == "decl":
            v = self.read(self.resolve(o["s"], []))
            self.h.append(v)
        elif k == "call":
            self.call(o, [], [])
        else:
            raise Bad("op " + k)


def shadow_run(case, mech):
    """transcript (list of int lists); ends with ['ERR', why] when an op cannot be executed"""
    sh = Shadow(mech)
    try:
        for o in case["ops"]:
            sh.op(o)
    except Bad as e:
        sh.out.append(["ERR", str(e)])
    return sh.out


# ------------------------------------------------------------------ signatures of access forms
def cell_desc(c, vt):
    """describe a cell by the declared variable kind and member chain: 'P', 'PS[]', 'P.inner', 'A3[]', 'tmp' ..."""
    loc, p = c
    if loc not in vt:
        return "tmp"
    t = vt[loc]
    s = t
    for k in p:
        if t in ARRAYS:
            s += "[]"
            t = ARRAYS[t][0]
        else:
            nm, t2 = STRUCTS[t][k]
            s += "." + nm
            t = t2
    return s


def expr_sig(a, env, sh, fr, pmodes=None):
    """signature of an access form: root kind + member chain; derefs show what the pointer points to."""
    k = a[0]
    if k == "v":
        return env.vt[a[1]]
    if k == "par":
        return "par<%s %s>" % (pmodes[a[1]], env.pt[a[1]])
    if k == "d":
        try:
            tgt = cell_desc(sh.resolve(a, fr), env.vt)
        except Bad:
            tgt = "?"
        return "*(%s=>%s)" % (expr_sig(a[1], env, sh, fr, pmodes), tgt)
    bt = env.typeof(a[1])
    base = expr_sig(a[1], env, sh, fr, pmodes)
    if bt in ARRAYS:
        return base + "[]"
    return base + "." + STRUCTS[bt][a[2]][0]


# ------------------------------------------------------------------ generator
class Gen:
    """Generates one history while running the Spec shadow (so that only executable ops are produced)."""

    def __init__(self, rng, allow, place="local", maxcopies=3):
        self.rng, self.allow, self.place = rng, allow, place
        self.sh = Shadow(False)
        self.vt = {i: t for i, (_, t) in enumerate(VARS)}      # variables visible in main
        self.tyall = dict(self.vt)                                # type of every named location (incl. callee locals)
        self.locals = {}                                          # locals of the callee body being generated
        self.ops = []
        self.sigs = []          # signatures used (histogram)
        self.avoided = 0
        self.next_val = 100
        self.next_id = 0
        self.next_fid = 0
        self.maxcopies = maxcopies

    # ---- candidates
    def exprs_of(self, ty, env, fr, in_callee):
        """all access expressions of type ty available in the context (main, or a callee with frame fr)"""
        sh = self.sh
        roots = {}          # type -> list of aexp

        def add(t, a):
            roots.setdefault(t, []).append(a)
        if not in_callee or self.place == "global":
            for loc, t in self.vt.items():
                if not in_callee or loc < NV:
                    add(t, ("v", loc))
        if in_callee:
            for i, t in enumerate(env.pt):
                add(t, ("par", i))
            for loc, t in self.locals.items():
                add(t, ("v", loc))
        # pointer dereferences (only valid, non-null pointers)
        for t in ("*P", "*In", "*int", "*Q"):
            for pa in list(roots.get(t, [])):
                try:
                    v = sh.read(sh.resolve(pa, fr))
                except Bad:
                    continue
                if isinstance(v, tuple):
                    add(t[1:], ("d", pa))
        # close under member selection: PS -> P -> In/A3 -> int
        for t in ("PS", "ES", "P", "In", "A3", "Q"):
            for a in list(roots.get(t, [])):
                for k, (_, ct) in enumerate(children(t)):
                    add(ct, ("f", a, k))
        return roots.get(ty, [])

    def sty(self):
        return {"arrow": self.rng.random() < 0.6, "ivar": self.rng.random() < 0.3}

    def pick(self, role, ty, env, fr, pmodes, in_callee, ctx, pred=None):
        cands = self.exprs_of(ty, env, fr, in_callee)
        self.rng.shuffle(cands)
        for a in cands[:16]:
            if pred and not pred(a):
                continue
            st = self.sty()
            sig = self.sig(ctx, role, a, env, fr, pmodes, st)
            if self.allow(sig):
                return a, st, sig
            self.avoided += 1
        return None

    def sig(self, ctx, role, a, env, fr, pmodes, st):
        es = expr_sig(a, env, self.sh, fr, pmodes)
        fl = ""
        if "*(" in es:
            fl += ">" if st.get("arrow") else "."
        if "[]" in es and st.get("ivar"):
            fl += "i"
        return "%s%s|%s|%s|%s" % (ctx, "G" if self.place == "global" else "L", role, es, fl)

    def val(self):
        self.next_val += 1
        return self.next_val

    # ---- simple ops
    def gen_sop(self, env, fr, pmodes, in_callee, ctx, kinds):
        r = self.rng
        kind = r.choice(kinds)
        if kind == "w":
            p = self.pick("w", r.choice(["int", "int", "int", "str"]), env, fr, pmodes, in_callee, ctx)
            if not p:
                return None
            return {"k": "w", "a": p[0], "z": self.val(), "sty": p[1], "sigs": [p[2]]}
        if kind == "cp":
            ty = r.choice(["P", "P", "In", "A3", "Q", "Q"])
            d = self.pick("cpd", ty, env, fr, pmodes, in_callee, ctx)
            if not d:
                return None
            dc = self.sh.resolve(d[0], fr)

            def disjoint(a):
                c = self.sh.resolve(a, fr)
                return not (c[0] == dc[0] and (c[1][:len(dc[1])] == dc[1] or dc[1][:len(c[1])] == c[1]))
            s = self.pick("cps", ty, env, fr, pmodes, in_callee, ctx, pred=disjoint)
            if not s:
                return None
            return {"k": "cp", "d": d[0], "s": s[0], "ty": ty, "sty": d[1], "sty2": s[1], "sigs": [d[2], s[2]]}
        if kind == "addr":
            ty = r.choice(["P", "In", "int", "Q"])
            p = self.pick("addrp", "*" + ty, env, fr, pmodes, in_callee, ctx, pred=lambda a: a[0] == "v")
            if not p:
                return None
            t = self.pick("addr", ty, env, fr, pmodes, in_callee, ctx,
                          pred=lambda a: self.sh.resolve(a, fr)[0] in self.vt)
            if not t:
                return None
            return {"k": "addr", "p": p[0], "t": t[0], "sty": t[1], "sigs": [t[2]]}
        if kind == "rd":
            form = r.choice(["plain", "plain", "interp", "tmp"])
            n = r.randint(1, 5)
            es, sigs, stys = [], [], []
            for _ in range(n):
                p = self.pick("r-" + form, r.choice(["int", "int", "int", "str"]), env, fr, pmodes, in_callee, ctx)
                if p:
                    es.append(p[0]); stys.append(p[1]); sigs.append(p[2])
            if not es:
                return None
            self.next_id += 1
            return {"k": "rd", "id": self.next_id, "as": es, "form": form, "stys": stys, "sigs": sigs}
        raise ValueError(kind)

    def read_all(self, forms=("plain",)):
        """reads of every scalar cell of the named variables through the plain path (one rd op per variable)"""
        env = TypeEnv(self.tyall)
        out = []
        for loc, t in sorted(self.vt.items()):
            if t.startswith("*"):
                continue
            form = self.rng.choice(forms)
            es, sigs, stys = [], [], []
            for p in leaves(t):
                a = ("v", loc)
                for k in p:
                    a = ("f", a, k)
                st = {"arrow": True, "ivar": False}
                sg = self.sig("M", "r-" + form, a, env, [], None, st)
                if self.allow(sg):
                    es.append(a); stys.append(st); sigs.append(sg)
            if es:
                self.next_id += 1
                out.append({"k": "rd", "id": self.next_id, "as": es, "form": form, "stys": stys, "sigs": sigs})
        return out

    def gen_call(self, envc=None, frc=(), pmc=None, ctxc="M", depth=0):
        """a call whose arguments come from the calling context: main (depth 0), or the body of a callee with type
        environment envc, frame frc, parameter modes pmc and context letter ctxc (nested call, depth 1).
        Receiver forms: every access expression of the struct type available there (name, p->, (*p)., T& / T /
        T* parameter, self); exit forms: falling off the end, `return;`, `return e;` (int or struct)."""
        r = self.rng
        in_c = depth > 0
        envc = envc or TypeEnv(self.tyall)
        frc = list(frc)
        params, fr_types, pmodes = [], [], []
        is_method = r.random() < 0.45
        if is_method:
            # interface methods with T& / T* / struct parameters are rejected by the front end: self + int parameters
            ty = r.choice(["P", "In", "In", "In", "Q", "Q"])
            pred = None
            if r.random() < 0.5:                 # aim at receivers reached through a pointer
                pred = lambda a: a[0] == "d"
            p = self.pick("recv", ty, envc, frc, pmc, in_c, ctxc, pred=pred) or \
                (pred and self.pick("recv", ty, envc, frc, pmc, in_c, ctxc))
            if not p:
                return None
            params.append({"mode": "self", "ty": ty, "arg": p[0], "sty": p[1], "sig": p[2]})
            fr_types.append(ty); pmodes.append("self")
            modes = [r.choice(["int", "int", "str"]) for _ in range(r.choice([0, 0, 1, 1, 2]))]
        else:
            modes = [r.choice(["val", "ref", "ptr", "pval", "arr", "val", "ref", "ptr", "int", "str"])
                     for _ in range(r.choice([1, 1, 1, 2, 2, 3]))]
        for mode in modes:
            if mode in ("int", "str"):
                ty = mode
                p = self.pick("arg" + mode, ty, envc, frc, pmc, in_c, ctxc)
                mode = "val"
            elif mode == "pval":
                ty = r.choice(["P", "P", "In", "In", "int", "Q", "Q"])
                p = self.pick("argpval", "*" + ty, envc, frc, pmc, in_c, ctxc,
                              pred=lambda a: isinstance(self.sh.read(self.sh.resolve(a, frc)), tuple))
            else:
                if mode == "arr":
                    ty = r.choice(["A3", "A3", "PS", "ES"])
                elif mode in ("ptr", "ref"):
                    ty = r.choice(["P", "P", "In", "In", "int", "Q", "Q"])
                else:
                    ty = r.choice(["P", "P", "In", "In", "Q"])
                p = self.pick("arg" + mode, ty, envc, frc, pmc, in_c, ctxc)
            if not p:
                return None
            params.append({"mode": mode, "ty": ty, "arg": p[0], "sty": p[1], "sig": p[2]})
            fr_types.append(("*" + ty) if mode in ("ptr", "pval") else ty)
            pmodes.append(mode)
        fid = self.next_fid
        self.next_fid += 1
        call = {"k": "call", "fid": fid, "params": params, "body": [], "ret": None, "exit": "fall",
                "sigs": [p["sig"] for p in params]}
        # bind the parameters in a scratch shadow and generate the body there
        saved, saved_locals = self.sh, self.locals
        trial = copy.deepcopy(self.sh)
        try:
            fr, _, _ = trial.bind(params, frc)
        except Bad:
            return None
        self.sh, self.locals = trial, {}
        env = TypeEnv(self.tyall, fr_types)
        # context letters: F function / S method called from main; T method, E function called from a function body,
        # U function called from a method body (the receiver is being copied: its global name is stale there too)
        ctx = (("T" if is_method else ("U" if ctxc == "S" else "E")) if in_c else ("S" if is_method else "F"))
        kinds = ["w", "w", "w", "rd", "rd", "cp"] + ([] if in_c else ["call", "call"])
        body = []
        for _ in range(r.randint(1, 4)):
            kind = r.choice(kinds)
            if kind == "call":
                nc = self.gen_call(env, fr, pmodes, ctx, depth + 1)
                if not nc:
                    continue
                n0 = len(self.sh.h)
                try:
                    self.sh.call(nc, fr, ())
                except Bad:
                    continue
                body.append(nc)
                if nc["ret"] and nc["ret"]["d"] is None:          # result kept in a local of this body: read it at once
                    loc = len(self.sh.h) - 1
                    nc["ret"]["loc"] = loc
                    self.locals[loc] = self.tyall[loc] = nc["ret"]["ty"]
                    if nc["ret"]["ty"] in SCALARS:
                        self.next_id += 1
                        st = {"arrow": True, "ivar": False}
                        body.append({"k": "rd", "id": self.next_id, "as": [("v", loc)], "form": "plain", "stys": [st],
                                     "sigs": [self.sig(ctx, "r-plain", ("v", loc), env, fr, pmodes, st)]})
                continue
            s = self.gen_sop(env, fr, pmodes, True, ctx, [kind])
            if s:
                try:
                    self.sh.sop(s, fr)
                except Bad:
                    continue
                body.append(s)
        ret = None
        if r.random() < 0.45:
            ty = r.choice(["P", "In", "In", "int", "int", "int", "Q", "str"])
            role = "reti" if ty in SCALARS else "ret"
            e = self.pick(role, ty, env, fr, pmodes, True, ctx)
            if e:
                ncopies = sum(1 for l in self.vt if l >= NV) + len(saved_locals)
                if r.random() < 0.3 and ncopies < self.maxcopies:
                    ret = {"e": e[0], "d": None, "ty": ty, "sty": e[1], "sigs": [e[2]]}
                else:
                    self.sh, self.locals = saved, saved_locals
                    d = self.pick(role.replace("ret", "retd"), ty, envc, frc, pmc, in_c, ctxc)
                    self.sh, self.locals = trial, {}
                    if d:
                        ret = {"e": e[0], "d": d[0], "ty": ty, "sty": e[1], "sty2": d[1], "sigs": [e[2], d[2]]}
        self.sh, self.locals = saved, saved_locals
        if not body and not ret:
            return None
        call["body"] = body
        call["ret"] = ret
        if not ret:
            call["exit"] = r.choice(["fall", "ret"])
        if ret or call["exit"] == "ret":        # the callee leaves through a return statement: flag R on the argument forms
            for prm in params:
                prm["sig"] += "R"
                if not self.allow(prm["sig"]):
                    self.avoided += 1
                    return None
            call["sigs"] = [prm["sig"] for prm in params]
        for s in body:
            call["sigs"] += s["sigs"]
        if ret:
            call["sigs"] += ret["sigs"]
        return call

    def emit(self, o):
        """run op on the shadow; register declared variables; append"""
        nloc = len(self.sh.h)
        self.sh.op(o)
        if o["k"] == "decl":
            self.vt[nloc] = self.tyall[nloc] = o["ty"]
            o["loc"] = nloc
        if o["k"] == "call" and o["ret"] and o["ret"]["d"] is None:
            self.vt[len(self.sh.h) - 1] = self.tyall[len(self.sh.h) - 1] = o["ret"]["ty"]
            o["ret"]["loc"] = len(self.sh.h) - 1
        self.ops.append(o)
        self.sigs += o.get("sigs", [])

    def step(self, k):
        r = self.rng
        env = TypeEnv(self.tyall)
        if k == "call":
            o = self.gen_call()
            if o and not self.spec_eq_mech(o):
                self.avoided += 1
                o = None
        elif k == "decl":
            if sum(1 for l in self.vt if l >= NV) >= self.maxcopies:
                return False
            ty = r.choice(["P", "P", "In", "Q"])
            p = self.pick("decl", ty, env, [], None, False, "M")
            o = {"k": "decl", "s": p[0], "ty": ty, "sty": p[1], "sigs": [p[2]]} if p else None
        else:
            o = self.gen_sop(env, [], None, False, "M", [k])
        if o is None:
            return False
        try:
            self.emit(o)
        except Bad:
            return False
        return True

    def read_paths(self, cell=None):
        """one rd op per form (plain / interpolation / temporary) reading ONE cell through every available
        access path that denotes it (name, member path, element, dereference / arrow of every pointer to it)"""
        env = TypeEnv(self.tyall)
        cands = [a for t in SCALARS for a in self.exprs_of(t, env, [], False)]
        if cell is None:
            if not cands:
                return 0
            cell = self.sh.resolve(self.rng.choice(cands), [])
        same = [a for a in cands if self.sh.resolve(a, []) == cell]
        n = 0
        for form in ("plain", "interp", "tmp"):
            es, stys, sigs = [], [], []
            for a in same:
                for st in ({"arrow": True, "ivar": False}, {"arrow": False, "ivar": True}):
                    sg = self.sig("M", "r-" + form, a, env, [], None, st)
                    if sg in sigs:
                        continue
                    if self.allow(sg):
                        es.append(a); stys.append(st); sigs.append(sg)
                    else:
                        self.avoided += 1
            if es:
                self.next_id += 1
                self.emit({"k": "rd", "id": self.next_id, "as": es, "form": form, "stys": stys, "sigs": sigs})
                n += 1
        return n

    def history(self, n, kinds=None):
        kinds = kinds or ["w"] * 6 + ["cp"] * 3 + ["addr"] * 2 + ["rd"] * 4 + ["call"] * 5 + ["decl"] + ["rdall"] * 2
        tries = 0
        while len(self.ops) < n and tries < 6 * n:
            tries += 1
            k = self.rng.choice(kinds)
            if k == "rdall":
                self.read_paths()
                continue
            ok = self.step(k)
            if ok and k == "w" and self.rng.random() < 0.4:
                self.read_paths(self.sh.resolve(self.ops[-1]["a"], []))
            if ok and k == "call" and self.rng.random() < 0.7:
                self.read_back(self.ops[-1])

    def read_back(self, call):
        """after a call: read scalar cells of the objects the callee could reach (receiver, T& / T* / array
        arguments, also of nested calls' targets as far as they are caller objects) through EVERY access path"""
        cells = []
        for prm in call["params"]:
            if prm["mode"] == "val":
                continue
            try:
                c = self.sh.resolve(prm["arg"], [])
                if prm["mode"] == "pval":
                    c = self.sh.read(c)
                    if not isinstance(c, tuple):
                        continue
                if c[0] not in self.vt:
                    continue
                t = self.vt[c[0]]
                for k in c[1]:
                    t = children(t)[k][1]
            except (Bad, IndexError, KeyError):
                continue
            lv = [c[1] + tuple(l) for l in leaves(t)]
            self.rng.shuffle(lv)
            cells += [(c[0], l) for l in lv[:2]]
        self.rng.shuffle(cells)
        for c in cells[:2]:
            self.read_paths(c)

    def spec_eq_mech(self, call):
        """the call behaves the same under aliasing and under copy-in/write-through/copy-back"""
        s1 = copy.deepcopy(self.sh); s1.mech = False; s1.out = []
        s2 = copy.deepcopy(self.sh); s2.mech = True; s2.out = []
        try:
            s1.op(call)
            s2.op(call)
        except Bad:
            return False
        n = len(self.sh.h)
        return s1.out == s2.out and s1.h[:n] == s2.h[:n] and \
            (not call["ret"] or s1.h[-1] == s2.h[-1])


# ------------------------------------------------------------------ printer: history -> Cb program
def r_sop(s, env, pnames, ind):
    k = s["k"]
    if k == "w":
        return ["%s%s = %s;" % (ind, render(s["a"], env, s["sty"], pnames), lit(env.typeof(s["a"]), s["z"]))]
    if k == "cp":
        return ["%s%s = %s;" % (ind, render(s["d"], env, s["sty"], pnames), render(s["s"], env, s.get("sty2", s["sty"]), pnames))]
    if k == "addr":
        return ["%s%s = &%s;" % (ind, render(s["p"], env, {}, pnames), render(s["t"], env, s["sty"], pnames))]
    if k == "rd":
        es = [render(a, env, st, pnames) for a, st in zip(s["as"], s["stys"])]
        if s["form"] == "plain":
            return ["%sprintln(%d, %s);" % (ind, s["id"], ", ".join(es))]
        if s["form"] == "interp":
            return ['%sprintln("%d %s");' % (ind, s["id"], " ".join("{%s}" % e for e in es))]
        out = []
        for j, e in enumerate(es):
            out.append("%s%s t%d_%d = %s;" % (ind, cb_type(env.typeof(s["as"][j])), s["id"], j, e))
        out.append("%sprintln(%d, %s);" % (ind, s["id"], ", ".join("t%d_%d" % (s["id"], j) for j in range(len(es)))))
        return out
    raise ValueError(k)


def walk_calls(ops):
    """all call ops of a history, nested ones included (outer before inner)"""
    for o in ops:
        if o["k"] == "call":
            yield o
            for x in walk_calls(o["body"]):
                yield x


def type_map(ops):
    vt = {i: t for i, (_, t) in enumerate(VARS)}
    for o in ops:
        if o["k"] == "decl":
            vt[o["loc"]] = o["ty"]
    for o in walk_calls(ops):
        if o["ret"] and o["ret"]["d"] is None:
            vt[o["ret"]["loc"]] = o["ret"]["ty"]
    return vt


def to_cb(case):
    ops = case["ops"]
    vt = type_map(ops)
    env0 = TypeEnv(vt)
    funcs, methods = [], {"P": [], "In": [], "Q": []}

    def r_call(o, envc, pnc, ind, depth=0):
        """text of the call statement; the callee's definition is registered in funcs / methods (its own callees first).
        Parameters are named q<i> in a callee called from main and r<i> in a callee called from a callee (a T& parameter
        is bound BY NAME in the implementation: equal names in caller and callee are the recorded finding
        C07-ref-param-name-clash, reproduced with case["same_names"])"""
        prm = o["params"]
        is_m = prm[0]["mode"] == "self"
        pt, pn, decls, args = [], [], [], []
        q = "r" if depth and not case.get("same_names") else "q"
        for i, p in enumerate(prm):
            md, ty = p["mode"], p["ty"]
            if md == "self":
                pt.append(ty); pn.append("self")
                continue
            pn.append("%s%d" % (q, i))
            if md in ("ptr", "pval"):
                pt.append("*" + ty); decls.append("%s* %s%d" % (ty, q, i))
                args.append(("&" if md == "ptr" else "") + render(p["arg"], envc, p["sty"], pnc))
            elif md == "ref":
                pt.append(ty); decls.append("%s& %s%d" % (cb_type(ty), q, i)); args.append(render(p["arg"], envc, p["sty"], pnc))
            else:
                pt.append(ty); decls.append("%s %s%d" % (cb_type(ty), q, i)); args.append(render(p["arg"], envc, p["sty"], pnc))
        env = TypeEnv(vt, pt)
        body = []
        for s in o["body"]:
            if s["k"] == "call":
                body += r_call(s, env, pn, "  ", depth + 1)
            else:
                body += r_sop(s, env, pn, "  ")
        ret = o["ret"]
        rty = "void"
        if ret:
            rty = cb_type(ret["ty"])
            body.append("  return %s;" % render(ret["e"], env, ret["sty"], pn))
        elif o.get("exit") == "ret":
            body.append("  return;")
        if is_m:
            name = "m%d" % o["fid"]
            sig = "%s %s(%s)" % (rty, name, ", ".join(decls))
            methods[prm[0]["ty"]].append((sig, body))
            ra = prm[0]["arg"]
            if ra[0] == "d" and prm[0]["sty"].get("arrow", True):
                callee = "%s->%s" % (render(ra[1], envc, prm[0]["sty"], pnc), name)
            else:
                callee = "%s.%s" % (render(ra, envc, prm[0]["sty"], pnc), name)
        else:
            name = "f%d" % o["fid"]
            funcs.append("%s %s(%s) {\n%s\n}" % (rty, name, ", ".join(decls), "\n".join(body)))
            callee = name
        ce = "%s(%s)" % (callee, ", ".join(args))
        if not ret:
            return ["%s%s;" % (ind, ce)]
        if ret["d"] is None:
            return ["%s%s c%d = %s;" % (ind, cb_type(ret["ty"]), ret["loc"], ce)]
        return ["%s%s = %s;" % (ind, render(ret["d"], envc, ret.get("sty2", {}), pnc), ce)]

    main = []
    for o in ops:
        k = o["k"]
        if k in ("w", "cp", "addr", "rd"):
            main += r_sop(o, env0, None, "  ")
        elif k == "nop":
            pass
        elif k == "decl":
            main.append("  %s c%d = %s;" % (o["ty"], o["loc"], render(o["s"], env0, o["sty"])))
        elif k == "call":
            main += r_call(o, env0, None, "  ")
    out = ["struct In { int v; int w; };", "struct P { int s; In inner; int[3] arr; };",
           "struct Q { int n; string t; double d; };"]
    for ty in ("In", "P", "Q"):
        if methods[ty]:
            out.append("interface M%s {" % ty)
            out += ["  %s;" % sig for sig, _ in methods[ty]]
            out.append("};")
            out.append("impl M%s for %s {" % (ty, ty))
            for sig, body in methods[ty]:
                out.append("  %s {" % sig)
                out += ["  " + b for b in body]
                out.append("  }")
            out.append("};")
    out.append("int i0 = 0; int i1 = 1; int i2 = 2;")
    decls = []
    for n, t in VARS:
        if t.startswith("*"):
            decls.append("%s %s = nullptr;" % (cb_type(t), n))
        else:
            decls.append("%s %s;" % (cb_type(t), n))
    if case.get("place") == "global":
        out += decls
        out += funcs
        out.append("void main() {")
    else:
        out += funcs
        out.append("void main() {")
        out += ["  " + d for d in decls]
    # an unassigned string member prints as the empty string: the zero of the model is the text "0"
    for n, t in (VARS if case.get("strings") else []):
        for pth in leaves(t):
            a, ty = n, t
            for kk in pth:
                lab, ty = children(ty)[kk]
                a += ("[%d]" % lab) if isinstance(lab, int) else ("." + lab)
            if ty == "str":
                out.append('  %s = "0";' % a)
    out += main
    out.append("}")
    return "\n".join(out) + "\n"


def parse_transcript(stdout):
    out = []
    for l in stdout.split("\n"):
        l = l.strip()
        if not l:
            continue
        try:
            out.append([int(float(x)) if re.match(r"^-?\d+\.\d+$", x) else int(x) for x in l.split()])
        except ValueError:
            out.append(["?", l[:80]])
    return out


# ------------------------------------------------------------------ shrinking
def op_alloc(o):
    if o["k"] == "decl":
        return 1
    if o["k"] == "call":
        return len(o["params"]) + (1 if o["ret"] and o["ret"]["d"] is None else 0) + \
            sum(op_alloc(x) for x in o["body"] if x["k"] == "call")
    if o["k"] == "nop":
        return o["alloc"]
    return 0


def case_sigs(case):
    out = []
    for o in case["ops"]:
        out += o.get("sigs", [])
    return sorted(set(out))


def locs_consistent(case):
    """the location numbers stored in the case (declared copies, results kept in fresh variables) are the ones the
    model allocates (every parameter, declaration and fresh result allocates one location, in execution order)"""
    n = [NV]

    def call(o):
        n[0] += len(o["params"])
        for s in o["body"]:
            if s["k"] == "call" and not call(s):
                return False
        if o["ret"] and o["ret"]["d"] is None:
            if o["ret"].get("loc") != n[0]:
                return False
            n[0] += 1
        return True
    for o in case["ops"]:
        if o["k"] == "decl":
            if o.get("loc") != n[0]:
                return False
            n[0] += 1
        elif o["k"] == "nop":
            n[0] += o["alloc"]
        elif o["k"] == "call" and not call(o):
            return False
    return True


def resig_call(o):
    o["sigs"] = [p["sig"] for p in o["params"]]
    for s in o["body"]:
        if s["k"] == "call":
            resig_call(s)
        o["sigs"] += s["sigs"]
    if o["ret"]:
        o["sigs"] += o["ret"]["sigs"]


def shrink_case(case, fails, budget=400):
    """greedy deletion (ops -> nop keeping the location numbering, callee body statements incl. those of nested
    calls, single read expressions, returned values) while `fails(case)` stays true."""
    cur = copy.deepcopy(case)
    used = [0]

    def test(c):
        if used[0] >= budget:
            return False
        if not locs_consistent(c):
            return False
        used[0] += 1
        sh = shadow_run(c, True)
        if sh and sh[-1] and sh[-1][0] == "ERR":
            return False
        try:
            to_cb(c)
        except (KeyError, IndexError, AssertionError):
            return False            # refers to a variable whose declaration was removed
        return fails(c)

    def calls_of(c, i):
        o = c["ops"][i]
        return list(walk_calls([o])) if o["k"] == "call" else []

    changed = True
    while changed and used[0] < budget:
        changed = False
        # chunks of ops first, then single ops
        for size in (8, 4, 2, 1):
            i = 0
            while i < len(cur["ops"]):
                seg = cur["ops"][i:i + size]
                if all(o["k"] == "nop" for o in seg):
                    i += size
                    continue
                cand = copy.deepcopy(cur)
                cand["ops"][i:i + size] = [{"k": "nop", "alloc": op_alloc(o)} for o in seg]
                if test(cand):
                    cur = cand
                    changed = True
                i += size
        for i, o in enumerate(cur["ops"]):
            # body statements and returned values of the call and of its nested calls (inner bodies first)
            ci = len(calls_of(cur, i)) - 1
            while ci >= 0:
                j = 0
                while ci < len(calls_of(cur, i)) and j < len(calls_of(cur, i)[ci]["body"]):
                    cand = copy.deepcopy(cur)
                    del calls_of(cand, i)[ci]["body"][j]
                    if test(cand):
                        cur = cand
                        changed = True
                    else:
                        j += 1
                if ci < len(calls_of(cur, i)):
                    cc = calls_of(cur, i)[ci]
                    if cc["ret"] and cc["ret"]["d"] is not None:
                        cand = copy.deepcopy(cur)
                        calls_of(cand, i)[ci]["ret"] = None
                        if test(cand):
                            cur = cand
                            changed = True
                ci -= 1
            # single read expressions
            def rds(c):
                oo = c["ops"][i]
                if oo["k"] == "rd":
                    return [oo]
                return [x for cc in calls_of(c, i) for x in cc["body"] if x["k"] == "rd"]
            for si in range(len(rds(cur))):
                j = 0
                while len(rds(cur)[si]["as"]) > 1 and j < len(rds(cur)[si]["as"]):
                    cand = copy.deepcopy(cur)
                    t = rds(cand)[si]
                    for key in ("as", "stys", "sigs"):
                        del t[key][j]
                    if test(cand):
                        cur = cand
                        changed = True
                    else:
                        j += 1
    # refresh per-op signature lists of calls
    for o in cur["ops"]:
        if o["k"] == "call":
            resig_call(o)
    cur["ops"] = [o for i, o in enumerate(cur["ops"])
                  if not (o["k"] == "nop" and o["alloc"] == 0)]
    return cur


# ------------------------------------------------------------------ extracted model (bin/c07_model)
def ser_val(v):
    if isinstance(v, list):
        return "G %d %s" % (len(v), " ".join(ser_val(c) for c in v))
    if v is None:
        return "N"
    return "I %d" % v


def ser_aexp(a):
    if a[0] == "v":
        return "V %d" % a[1]
    if a[0] == "par":
        return "R %d" % a[1]
    if a[0] == "f":
        return "F %d %s" % (a[2], ser_aexp(a[1]))
    return "D " + ser_aexp(a[1])


def ser_sop(s):
    k = s["k"]
    if k == "w":
        return "W %s %d" % (ser_aexp(s["a"]), s["z"])
    if k == "cp":
        return "C %s %s" % (ser_aexp(s["d"]), ser_aexp(s["s"]))
    if k == "addr":
        return "A %s %s" % (ser_aexp(s["p"]), ser_aexp(s["t"]))
    return "P %d %d %s" % (s["id"], len(s["as"]), " ".join(ser_aexp(a) for a in s["as"]))


MODE_CH = {"val": "v", "pval": "v", "ptr": "p", "ref": "r", "arr": "a", "self": "s"}


def ser_call(o):
    ps = " ".join("%s %s" % (MODE_CH[p["mode"]], ser_aexp(p["arg"])) for p in o["params"])
    body = " ".join((ser_call(s) if s["k"] == "call" else ser_sop(s)) for s in o["body"])
    r = o["ret"]
    if not r:
        ret = "0"
    elif r["d"] is None:
        ret = "1 " + ser_aexp(r["e"])
    else:
        ret = "2 %s %s" % (ser_aexp(r["e"]), ser_aexp(r["d"]))
    return "K %d %s %d %s %s" % (len(o["params"]), ps, len(o["body"]), body, ret)


def ser_op(o):
    k = o["k"]
    if k in ("w", "cp", "addr", "rd"):
        return "S " + ser_sop(o)
    if k == "nop":
        return "Z %d" % o["alloc"]
    if k == "decl":
        return "L " + ser_aexp(o["s"])
    return ser_call(o)


def ser_case(case):
    h0 = [zero(t) for _, t in VARS]
    return "H %d %s O %d %s" % (len(h0), " ".join(ser_val(v) for v in h0), len(case["ops"]),
                                 " ".join(ser_op(o) for o in case["ops"]))


def model_run(cases):
    """[(spec transcript, mech transcript)] from the extracted Coq model; a transcript is a list of int lists,
    ending with ['ERR'] when the model could not execute some statement"""
    lines = common.run_model(PROP, "run", [ser_case(c) for c in cases], timeout=900)
    if len(lines) != 2 * len(cases):
        raise RuntimeError("c07_model: %d output lines for %d cases" % (len(lines), len(cases)))

    def parse(l, tag):
        assert l.startswith(tag + " "), l[:40]
        _, ok, rest = (l.split(" ", 2) + [""])[:3]
        tr = [[int(x) for x in seg.split()] for seg in rest.split("|") if seg.strip()]
        if ok != "1":
            tr.append(["ERR"])
        return tr
    return [(parse(lines[2 * i], "S"), parse(lines[2 * i + 1], "M")) for i in range(len(cases))]


def norm_shadow(tr):
    return [(["ERR"] if l and l[0] == "ERR" else l) for l in tr]


# ------------------------------------------------------------------ the agreeing fragment
# Every rule excludes a family of access forms on which the pinned implementation does not behave like the
# location+path store (genuine defects, crashes, or forms it rejects). (finding id, regex on the form signature
# "<ctx M|F|S><place G|L>|<role>|<expr>|<style>"). known_findings/C07.json holds one minimal replay per id.
P_TYPED = r"(P|PS\[\]|par<[a-z]+ P>|par<arr PS>\[\]|\*\([^)]*=>(P|PS\[\])\))"
AVOID = [
    # --- struct arrays
    ("C07-structarray-elem-whole", r"\|(decl|cp[ds]|retd?|addr|argptr)\|(PS|ES)\[\]|\|recv\|PS\[\]"),
    ("C07-structarray-elem-array-member-rejected", r"\|PS\[\]\.arr"),
    ("C07-structarray-param", r"\|argarr\|(PS|ES)|par<arr (PS|ES)>"),
    # --- pointers
    ("C07-pointer-to-member", r"\|(addr|argptr)\|(?!(P|In|Q|int|A3\[\])\|)"),
    ("C07-arrow-array-member-rejected", r"\*\([^)]*\)\.arr\[\]"),
    ("C07-arrow-nested-write-rejected", r"\|(w|retdi)\|\*\([^)]*\)\.inner\."),
    ("C07-deref-whole-struct", r"\|(decl|cp[ds]|argval|retd?)\|\*\("),
    # --- whole-struct copies
    ("C07-struct-copy-loses-members", r"\|(decl|cp[ds]|retd?)\|" + P_TYPED + r"\|"),
    ("C07-array-member-assign-noop", r"\|cp[ds]\|.*arr\|"),
    ("C07-nested-struct-whole", r"\|(decl|cp[ds]|retd?|argval|recv|addr|argptr)\|.*\.inner\|"),
    ("C07-callee-param-struct-copy", r"^[FSETU].\|(cp[ds]|retd)\|par<|\|ret\|par<(ref|arr)"),
    # --- references / by-value parameters / self
    ("C07-ref-array-member-write-lost", r"\|(w|retdi)\|par<ref P>\.arr\[\]"),
    ("C07-ref-nested-write-rejected", r"\|(w|retdi)\|par<ref P>\.inner\."),
    ("C07-byval-nested-write-lost", r"\|(w|retdi)\|par<val P>\.inner"),
    ("C07-method-wipes-members", r"\|recv\|(P\||par<\w+ P>|\*\([^)]*=>P\))"),
    ("C07-method-on-ref-param-rejected", r"\|recv\|par<ref"),
    ("C07-self-by-value-arg-rejected", r"\|argval\|par<self"),
    ("C07-ref-param-passed-by-value-aliases", r"\|argval\|par<ref"),
    ("C07-self-passed-by-reference-no-writethrough", r"\|arg(ref|ptr)\|par<self"),
    ("C07-nested-member-dest-call-result-lost", r"\|retdi\|.*\.inner\."),
    ("C07-ref-member-dest-call-result-misplaced", r"\|retdi\|par<ref \w+>\."),
    ("C07-self-call-return-exit-write-lost", r"\|recv\|par<self [^|]*\|.*R"),
    ("C07-array-element-dest-call-evaluated-twice", r"\|retdi\|.*\[\]"),
    ("C07-self-writethrough-stale", r"^[STU].\|[^|]*\|(In|P|Q|PS|ES)|^[STU].\|[^|]*\|\*\("),
    # --- string members as destinations of call results
    ("C07-string-call-result-dest-lost", r"\|retdi\|(?!Q\.t\|)[^|]*\.t\|"),
    # --- members of floating type
    ("C07-double-member", r"\.d\|"),
    # --- documented / front-end restrictions (not defects): T& and T[n] arguments must be plain variables,
    #     a member expression cannot be passed to a struct parameter
    ("restriction-ref-arg-plain-variable", r"\|argref\|.*[.\[*]"),
    ("restriction-array-arg-plain-variable", r"\|argarr\|.*[.\[*]"),
    ("restriction-string-arg-plain-variable", r"\|argstr\|.*[.\[*]"),
]
_AVOID_RE = [(fid, re.compile(rx)) for fid, rx in AVOID]


def avoid_id(sig):
    for fid, rx in _AVOID_RE:
        if rx.search(sig):
            return fid
    return None


# Strings: after ANY evaluation of a string-typed expression, a later read of a non-string cell through a pointer
# (p->v, ( *p).v) returns that string (stale last_typed_result, evaluator/access/special.cpp) - recorded as
# C07-arrow-read-after-string-stale.  The state is global and survives statements, so a history is either
# string-free (no access to the string member Q.t at all: allow_main) or string-enabled (Q.t in play, but no READ of a
# non-string cell through a pointer: allow_str).
_STR_EXPR = re.compile(r"\.t\|[^|]*$")
_PTR_READ = re.compile(r"\|(r-[a-z]+|reti|argint|argstr)\|[^|]*\*\(")


def allow_main(sig):
    return avoid_id(sig) is None and not _STR_EXPR.search(sig)


def allow_str(sig):
    if avoid_id(sig) is not None:
        return False
    return not (_PTR_READ.search(sig) and not _STR_EXPR.search(sig))


# ------------------------------------------------------------------ hand-written cases (known findings, corpus)
class Build:
    """Small builder for hand-written histories: computes locations and form signatures like the generator."""

    def __init__(self, place="local"):
        self.g = Gen(random.Random(0), lambda s: True, place)
        self.sty = {"arrow": True, "ivar": False}

    def v(self, name):
        for i, (n, _) in enumerate(VARS):
            if n == name:
                return ("v", i)
        if name.startswith("c"):
            return ("v", int(name[1:]))
        raise KeyError(name)

    def path(self, text, pnames=None):
        """'a.inner.v' 'ps[1].s' '*pp' 'pp->s' 'q0.arr[1]' 'self.v' '(*q0).s' -> access expression"""
        t = text.replace("->", "~")
        m = re.match(r"^\(?\*([A-Za-z0-9_]+)\)?(.*)$", t)
        if m:
            base = ("d", self._root(m.group(1)))
            rest = m.group(2)
        else:
            m = re.match(r"^([A-Za-z0-9_]+)(.*)$", t)
            base = self._root(m.group(1))
            rest = m.group(2)
        env = TypeEnv(self.g.tyall, self._pt)
        for tok in re.findall(r"~[a-z]+|\.[a-z]+|\[\d\]", rest):
            if tok[0] == "~":
                base = ("d", base)
                tok = "." + tok[1:]
            ty = env.typeof(base)
            if tok[0] == "[":
                base = ("f", base, int(tok[1]))
            else:
                names = [n for n, _ in STRUCTS[ty]]
                base = ("f", base, names.index(tok[1:]))
        return base

    _pt = ()
    _pn = ()

    def _root(self, name):
        if name in self._pn:
            return ("par", list(self._pn).index(name))
        return self.v(name)

    def _sig(self, ctx, role, a, fr=(), pmodes=None):
        return self.g.sig(ctx, role, a, TypeEnv(self.g.tyall, self._pt), list(fr), pmodes, self.sty)

    def _sop(self, ctx, spec, fr=(), pmodes=None):
        k = spec[0]
        if k == "w":
            a = self.path(spec[1])
            return {"k": "w", "a": a, "z": spec[2], "sty": self.sty, "sigs": [self._sig(ctx, "w", a, fr, pmodes)]}
        if k == "cp":
            d, s = self.path(spec[1]), self.path(spec[2])
            ty = TypeEnv(self.g.tyall, self._pt).typeof(d)
            return {"k": "cp", "d": d, "s": s, "ty": ty, "sty": self.sty, "sty2": self.sty,
                    "sigs": [self._sig(ctx, "cpd", d, fr, pmodes), self._sig(ctx, "cps", s, fr, pmodes)]}
        if k == "addr":
            p, t = self.path(spec[1]), self.path(spec[2])
            return {"k": "addr", "p": p, "t": t, "sty": self.sty, "sigs": [self._sig(ctx, "addr", t, fr, pmodes)]}
        if k == "rd":
            form = spec[2] if len(spec) > 2 else "plain"
            es = [self.path(x) for x in spec[1]]
            self.g.next_id += 1
            return {"k": "rd", "id": self.g.next_id, "as": es, "form": form, "stys": [self.sty] * len(es),
                    "sigs": [self._sig(ctx, "r-" + form, a, fr, pmodes) for a in es]}
        raise ValueError(k)

    def op(self, *spec):
        self.g.emit(self._sop("M", spec))
        return self

    def decl(self, src, ty):
        a = self.path(src)
        self.g.emit({"k": "decl", "s": a, "ty": ty, "sty": self.sty, "sigs": [self._sig("M", "decl", a)]})
        return self

    def _call(self, params, body, ret, exit_, frc, pmc, ctxc, depth):
        g = self.g
        outer_pt, outer_pn = self._pt, self._pn
        ps, pt, pm, pn = [], [], [], []
        for i, (mode, ty, arg) in enumerate(params):
            a = self.path(arg)
            role = {"self": "recv", "pval": "argpval"}.get(mode, "arg" + ty if ty in SCALARS and mode == "val" else "arg" + mode)
            ps.append({"mode": mode, "ty": ty, "arg": a, "sty": self.sty, "sig": self._sig(ctxc, role, a, frc, pmc)})
            pt.append(("*" + ty) if mode in ("ptr", "pval") else ty)
            pm.append(mode)
            pn.append("self" if mode == "self" else "q%d" % i)
        call = {"k": "call", "fid": g.next_fid, "params": ps, "body": [], "ret": None, "exit": exit_,
                "sigs": [p["sig"] for p in ps]}
        g.next_fid += 1
        saved = g.sh
        trial = copy.deepcopy(g.sh)
        fr, _, _ = trial.bind(ps, list(frc))
        g.sh = trial
        self._pt, self._pn = pt, pn
        is_m = pm[0] == "self"
        ctx = (("T" if is_m else ("U" if ctxc == "S" else "E")) if depth else ("S" if is_m else "F"))
        for spec in body:
            if spec[0] == "call":
                nc = self._call(spec[1], spec[2], spec[3] if len(spec) > 3 else None,
                                spec[4] if len(spec) > 4 else "fall", fr, pm, ctx, depth + 1)
                self._pt, self._pn = pt, pn
                trial.call(nc, fr, ())
                if nc["ret"] and nc["ret"]["d"] is None:
                    nc["ret"]["loc"] = len(trial.h) - 1
                    g.tyall[len(trial.h) - 1] = nc["ret"]["ty"]
                call["body"].append(nc)
                call["sigs"] += nc["sigs"]
                continue
            s = self._sop(ctx, spec, fr, pm)
            trial.sop(s, fr)
            call["body"].append(s)
            call["sigs"] += s["sigs"]
        if ret or exit_ == "ret":
            for prm in ps:
                prm["sig"] += "R"
            call["sigs"] = [prm["sig"] for prm in ps] + call["sigs"][len(ps):]
        if ret:
            e = self.path(ret[0])
            role = "reti" if ret[2] in SCALARS else "ret"
            r = {"e": e, "d": None, "ty": ret[2], "sty": self.sty, "sigs": [self._sig(ctx, role, e, fr, pm)]}
            self._pt, self._pn = outer_pt, outer_pn
            g.sh = saved
            if ret[1] is not None:
                d = self.path(ret[1])
                r["d"] = d
                r["sty2"] = self.sty
                r["sigs"].append(self._sig(ctxc, role.replace("ret", "retd"), d, frc, pmc))
            call["ret"] = r
            call["sigs"] += r["sigs"]
        self._pt, self._pn = outer_pt, outer_pn
        g.sh = saved
        return call

    def call(self, params, body, ret=None, exit_="fall"):
        """params: [(mode, type, 'arg path')]; body: statement specs using q0.. / self, or nested calls
        ("call", params, body[, ret[, exit]]) whose arguments use the enclosing callee's names;
        ret: (expr, dest|None, type); exit_: 'fall' | 'ret' (a void callee ending in `return;`)"""
        self.g.emit(self._call(params, body, ret, exit_, (), None, "M", 0))
        return self

    def case(self):
        return {"place": self.g.place, "ops": self.g.ops}


# ------------------------------------------------------------------ the check
META = {
    "category": "proof",
    "technique": "Coq proofs over a location+path store (frame, copy independence, alias visibility over arbitrary histories; "
                 "refinement copy-in/write-through/copy-back = aliasing under an executable exclusivity condition, refuted without it) "
                 "+ extracted-model differential run against the real interpreter on generated histories",
    "text": "Machine-checked theorems about a Gallina store in which struct members and array elements are children of a tree per "
            "location and &x, T&, array parameters and self denote location+path: a write changes exactly the addressed cell "
            "(also lifted to arbitrary histories of statements, declarations and calls through footprints), after b = a no history that "
            "stays out of b changes any read under b and vice versa, two access paths to one cell always read the same value, a write "
            "through any path (name, member path, element, dereference, arrow, T&, array parameter, self, T*) is read back through every "
            "other path once the statement/call completes. One mechanism of the code is mirrored: array parameters and self are "
            "copy-in / write-through / copy-back (call_impl.cpp, cleanup.cpp:155, statement_executor.cpp:720); it is PROVED equal to "
            "aliasing (same transcript, same caller-visible heap) for every heap, parameter list and deref-free callee body that "
            "satisfies the executable exclusivity condition call_ok, and REFUTED without it (three witnesses, confirmed on the binary). "
            "Also proved: the same visibility for EVERY receiver/argument expression (c.m(), p->m(), (*p).m()) and EVERY exit form of "
            "the callee (falls off the end, return into a fresh variable, return into a destination), for a method invoked by a "
            "function that received &c (calls made from inside a callee body are part of the model: exec_call_in / OCall2, a "
            "conservative extension), and the refinement copy-back = aliasing for arguments containing dereferences (normalisation). "
            "Tie on every run: random histories (<= 60 ops quick) of scalar writes through random access paths, aggregate copies, "
            "pointer retargeting, declarations, calls of functions and methods with generated callee bodies (by value, T&, T*, array "
            "parameter, self; receivers by name, p->, (*p)., struct-array element, parameter, self; int/string extra parameters; "
            "nested calls from callee bodies; exits: falling off the end, `return;`, `return e;` with int, string or struct results "
            "into a destination or a fresh variable) and reads of cells through every available path (plain, string interpolation, "
            "temporary; after calls: every cell the callee could reach) over an object graph (struct with scalar, nested-struct and "
            "array members, struct arrays, flat structs with int/string/double members, int arrays, four pointers), printed as Cb "
            "programs and run on main built from the current tree; the transcript must equal the extracted model's. A conflict stream "
            "(array parameters and self receivers by name / p-> / (*p). x three exits, callee also using the global name) makes "
            "main follow the modelled copy-back mechanism where it differs from aliasing. The generator stays inside the fragment "
            "where main and the model agree; every excluded family of forms is a recorded known finding (46 entries) that is "
            "replayed on every run.",
    "note": "PARTIAL: the implementation's double representation of struct values (member map + flattened 'a.b.c' variables, "
            "managers/structs/*.cpp) is NOT modelled; the 29 avoidance rules cut away most whole-struct copies of structs with "
            "nested/array members, struct-array elements as whole values, pointers to members, methods on such structs (all defects "
            "of that mechanism). Trusted: Coq kernel (vm_compute for the three witnesses), no axioms (Print Assumptions: closed); "
            "extraction ExtrOcamlBasic+ExtrOcamlString; hand-written model tied by differential testing only; the Python printer of "
            "histories to Cb text and the Python shadow heap (cross-checked against the extracted model on every case). The "
            "refinement theorems cover callee bodies without dereferences, without & and without nested calls (arguments may "
            "dereference); for nested calls copy-back = aliasing is tested only; a receiver reached through a pointer is not written "
            "through by the code (model: written through; differs only for by-name reads inside the method, recorded finding); "
            "copy-back order = parameter-name order (std::map), equal to binding order for the generated names q0..q2 / r0..r2; "
            "string members and pointer reads of non-string cells never share a history (recorded finding).",
}


def gen_history(seed, k, n, tier, strings=None):
    rng = rng_for(seed, "c07-hist", tier, k)
    place = "global" if rng.random() < 0.5 else "local"
    allow = allow_str if (k % 4 == 3 if strings is None else strings) else allow_main      # every 4th history: string-enabled
    g = Gen(rng, allow, place)
    # a prefix of plain member-wise initialisation (random subset, so that default-zero cells stay in play)
    env = TypeEnv(g.tyall)
    for loc, (_, t) in enumerate(VARS):
        if t.startswith("*"):
            continue
        for p in leaves(t):
            # struct arrays are always initialised member-wise first (known findings C07-uninit-structarray-*)
            # (string members too: an unassigned string prints as the empty string, not as a number)
            if t in ("PS", "ES", "Q") or rng.random() < 0.7:
                a = ("v", loc)
                for i in p:
                    a = ("f", a, i)
                st = {"arrow": True, "ivar": False}
                sg = g.sig("M", "w", a, env, [], None, st)
                if allow(sg):
                    g.emit({"k": "w", "a": a, "z": g.val(), "sty": st, "sigs": [sg]})
    n0 = len(g.ops)
    g.history(n0 + n)
    for o in g.read_all(("plain", "plain", "interp")):
        g.emit(o)
    return {"place": place, "ops": g.ops, "origin": "random", "k": k, "strings": allow is allow_str}, g


def _gen_job(args):
    seed, k, ln, tier = args
    c, g = gen_history(seed, k, ln, tier)
    return c, g.avoided


def gen_conflict(seed, k):
    """the callee reaches a copy-in argument also by its global name (Spec != Mech: the *_refuted theorems); the
    implementation must follow Mech.  k % 3 == 0: an array parameter (as before); otherwise the receiver of a
    method - invoked by name, through p-> or through ( *p). - whose body writes/reads members both through self and
    through the receiver's global name, leaving by falling off the end, by `return;` or by `return e;`
    (the three self write-back blocks of call_impl.cpp, one per exit path)"""
    rng = rng_for(seed, "c07-conflict", k)
    b = Build("global")
    if k % 3 == 0:
        arr = rng.choice(["g", "h"])
        for i in range(3):
            b.op("w", "%s[%d]" % (arr, i), b.g.val())
        body = []
        for _ in range(rng.randint(2, 5)):
            r = rng.random()
            root = rng.choice(["q0", arr])
            if r < 0.6:
                body.append(("w", "%s[%d]" % (root, rng.randint(0, 2)), b.g.val()))
            else:
                body.append(("rd", ["q0[%d]" % rng.randint(0, 2), "%s[%d]" % (arr, rng.randint(0, 2))]))
        ex = rng.choice(["fall", "ret", "val"])
        if ex == "val":
            b.call([("arr", "A3", arr)], body, ("q0[%d]" % rng.randint(0, 2), "n", "int"))
        else:
            b.call([("arr", "A3", arr)], body, None, ex)
        b.op("rd", ["%s[0]" % arr, "%s[1]" % arr, "%s[2]" % arr, "n"])
    else:
        recv = rng.choice(["e", "f", "u", "x"])
        isq = recv in ("u", "x")             # Q: an int and a string member (no pointer form: C07-arrow-read-after-string-stale)
        mem = ("n", "t") if isq else ("v", "w")
        for mname in mem:
            b.op("w", "%s.%s" % (recv, mname), b.g.val())
        form = "name" if isq else rng.choice(["name", "arrow", "star"])
        if form != "name":
            b.op("addr", "pin", recv)
        b.sty = {"arrow": form != "star", "ivar": False}
        body = []
        for _ in range(rng.randint(2, 5)):
            r = rng.random()
            root = rng.choice(["self", recv])
            if r < 0.6:
                body.append(("w", "%s.%s" % (root, rng.choice(mem)), b.g.val()))
            elif form == "name":
                body.append(("rd", ["self.%s" % rng.choice(mem), "%s.%s" % (recv, rng.choice(mem))]))
            else:
                # a receiver reached through a pointer is copied in and back but NOT written through
                # (statement_executor.cpp:720 needs the receiver's name): the model's Mech differs from the code on
                # by-name READS inside such a method only (recorded: C07-ptr-receiver-no-writethrough); writes by
                # name and everything through self behave as modelled
                body.append(("rd", ["self.v", "self.w"]))
        ex = rng.choice(["fall", "ret", "val"])
        rpath = recv if form == "name" else "*pin"
        if ex == "val":
            b.call([("self", "Q" if isq else "In", rpath)], body, ("self.%s" % mem[0], "n", "int"))
        else:
            b.call([("self", "Q" if isq else "In", rpath)], body, None, ex)
        rd = ["%s.%s" % (recv, mem[0]), "%s.%s" % (recv, mem[1]), "n"]
        if form != "name":
            rd += ["pin->v", "pin->w"]
        b.op("rd", rd)
    c = b.case()
    c["origin"] = "conflict"
    c["k"] = k
    if k % 3 and isq:
        c["strings"] = True
    return c


def impl_transcript(impl_dir, case, timeout=15):
    rc, o, e = common.run_cb(impl_dir, to_cb(case), timeout=timeout)
    tr = parse_transcript(o)
    err = e.strip().split("\n")[0][:160] if e.strip() else ""
    if rc != 0:
        tr = tr + [["EXIT", rc, re.sub(r"/var/tmp/cbrun-[^/]*/", "", err)]]
    return tr


def nontrivial(case):
    """a history is non-trivial when some access goes through something else than a plain name in main:
    a pointer, a parameter of any mode, self, a whole-aggregate copy, a declaration or a return"""
    return any(("*(" in s) or ("par<" in s) or re.search(r"\|(cp[ds]|decl|retd?|recv|arg[a-z]+)\|", s) for s in case_sigs(case))


def strip(case):
    out = {"place": case["place"], "ops": case["ops"]}
    for flag in ("same_names", "strings"):
        if case.get(flag):
            out[flag] = True
    return out


def run(rep):
    seed, tier = rep.seed, rep.tier
    cq = common.coq_check_props(PROP)
    common.proof_coverage(rep, cq)
    if not cq["ok"]:
        rep.violation("proof", {"theorem": cq["failed_theorem"], "log": cq["log"][-3000:]},
                      "proof obligation %s no longer checks" % cq["failed_theorem"], True)
    common.ensure_model(PROP)
    impl = common.build_impl("plain")

    cases = []
    corpus = os.path.join(common.VERIF, "corpus", "c07.json")
    if os.path.exists(corpus):
        for c in json.load(open(corpus)):
            c = load_case(c)
            c["origin"] = "corpus"
            cases.append(c)
    n_rand = 2000 if tier == "quick" else 60000
    maxlen = 60 if tier == "quick" else 90
    avoided = {}
    n_avoid_total = 0

    jobs = [(seed, k, 8 + (k * 7) % (maxlen - 7), tier) for k in range(n_rand)]
    import concurrent.futures
    with concurrent.futures.ProcessPoolExecutor(max_workers=common.NCPU) as ex:
        for c, av in ex.map(_gen_job, jobs, chunksize=50):
            cases.append(c)
            n_avoid_total += av
    n_conf = 210 if tier == "quick" else 6000
    for k in range(n_conf):
        cases.append(gen_conflict(seed, k))

    # model (extracted from Coq) on every case; Python shadow as a cross-check of the encoding
    mres = model_run([strip(c) for c in cases])
    enc_bad = 0
    for c, (sp, me) in zip(cases, mres):
        if sp != norm_shadow(shadow_run(c, False)) or me != norm_shadow(shadow_run(c, True)):
            enc_bad += 1
            if enc_bad <= 2:
                rep.violation("model-vs-shadow", {"case": strip(c), "model": [sp, me]},
                              "extracted model and Python shadow heap disagree (harness defect, correspondence not established)", True)
        if c["origin"] in ("random", "corpus") and (sp != me or (me and me[-1] == ["ERR"])):
            rep.violation("generator", {"case": strip(c), "spec": sp, "mech": me},
                          "generator left the fragment (Spec != Mech or not executable) - harness defect", True)
    itr = common.pmap(lambda c: impl_transcript(impl, c), cases)

    bad = [(c, m, i) for c, (s_, m), i in zip(cases, mres, itr) if i != m]
    # the interpreter is deterministic: a disagreement that does not persist when the program is run again, alone,
    # was a timeout / truncated pipe under machine load, not a property of the code
    retried = []
    for c, m, i in bad[:200]:
        i2 = impl_transcript(impl, c, timeout=40)
        if i2 == m:
            rep.notes.append("a program disagreed once under load and agreed when re-run alone (first: %s)" % (i[-1:],))
            continue
        retried.append((c, m, i2))
    bad = retried + bad[200:]
    distinct = {}
    hist_roles, hist_origin = {}, {}
    for c in cases:
        key = common.hashlib.sha256(json.dumps(strip(c)["ops"], sort_keys=True, default=list).encode()).hexdigest()
        hist_origin[c["origin"]] = hist_origin.get(c["origin"], 0) + 1
        if key in distinct:
            continue
        distinct[key] = nontrivial(c)
        for s in case_sigs(c):
            ctx, role, ex, fl = s.split("|")
            fam = role + ("*" if "*(" in ex else "") + (":" + re.findall(r"par<(\w+)", ex)[0] if "par<" in ex else "")
            hist_roles[fam] = hist_roles.get(fam, 0) + 1
    nops = sum(len(c["ops"]) for c in cases)
    # calls by receiver/argument form x exit form (the self / array write-back code is triplicated per exit path)
    call_matrix, n_nested = {}, 0
    for c in cases:
        top = [o for o in c["ops"] if o["k"] == "call"]
        for o in walk_calls(c["ops"]):
            if not any(o is t for t in top):
                n_nested += 1
            ex = ("return-value" if o["ret"] else ("return;" if o.get("exit") == "ret" else "falls-off-end"))
            for prm in o["params"]:
                if prm["mode"] == "val":
                    continue
                a = prm["arg"]
                form = {"self": "recv", "arr": "array", "ref": "T&", "ptr": "&arg->T*", "pval": "ptr->T*"}[prm["mode"]]
                if prm["mode"] == "self":
                    form += ":" + ("p->" if a[0] == "d" and prm["sty"].get("arrow", True) else "(*p)." if a[0] == "d"
                                   else "self" if a[0] == "par" and prm["sig"].split("|")[2].startswith("par<self") else
                                   "param" if a[0] == "par" else "name")
                key = "%s / %s" % (form, ex)
                call_matrix[key] = call_matrix.get(key, 0) + 1
    sample = cases[len(cases) // 3]
    rep.coverage.update({
        "evaluations": len(cases),
        "distinct_nontrivial": sum(1 for v in distinct.values() if v),
        "rule": "each case = one generated history printed as a Cb program and run on main (current tree) and on the extracted Coq "
                "model; distinct = distinct op lists; non-trivial = some access goes through a pointer, a parameter (by value, T&, T*, "
                "array, self), a whole-aggregate copy, a declaration-copy or a by-value return",
        "operations_total": nops,
        "transcript_lines_compared": sum(len(m) for _, (s_, m) in zip(cases, mres)),
        "input_distribution": {"origin": hist_origin, "forms_by_role": dict(sorted(hist_roles.items())),
                               "max_history_length": maxlen, "placement": "objects global or local to main, 50/50"},
        "avoided_candidate_forms": n_avoid_total,
        "calls_by_argument_form_and_exit": dict(sorted(call_matrix.items())),
        "nested_calls": n_nested,
        "string_enabled_histories": sum(1 for c in cases if c.get("strings")),
        "fragment": fragment_size(),
        "samples": [{"source": to_cb(sample), "model_transcript": mres[cases.index(sample)][1][:12]},
                    {"ops": [o["k"] for o in cases[-1]["ops"]], "source": to_cb(cases[-1]),
                     "model_spec": mres[-1][0], "model_mech": mres[-1][1], "impl": itr[-1]}],
        "disagreements": len(bad),
    })

    # disagreements that also contradict the aliasing semantics (a concrete failing input of the property) first
    # (main-stream histories have Spec = Mech: every disagreement there contradicts the property's own reading)
    spec_of = {id(c): s_ for c, (s_, m_) in zip(cases, mres)}
    bad.sort(key=lambda b: (b[0].get("origin") == "conflict", b[2] == spec_of.get(id(b[0])), len(b[0]["ops"])))
    for c, m, i in bad[:4]:
        report_disagreement(rep, impl, c)

    # known findings: replay each stored case
    for f in common.known_findings(PROP):
        case = load_case(f["replay"]["case"])
        exp = f["replay"]["expected"]
        (sp, me), = model_run([case])
        got = impl_transcript(impl, case)
        if sp != exp:
            rep.violation("known-" + f["id"], {"case": case, "expected": exp, "model_spec": sp},
                          "stored expectation of known finding %s is not what the proved model computes" % f["id"], True)
        if got != sp:
            rep.known(f["id"], f["what_fails"])
        else:
            rep.notes.append("known finding %s no longer reproduces (fixed?)" % f["id"])
        if f.get("mech_modelled") and got != me:
            rep.violation("known-mech-" + f["id"], {"case": case, "source": to_cb(case), "model_mech": me, "impl": got},
                          "implementation no longer follows the modelled copy-in/write-through/copy-back convention on %s "
                          "(and does not alias either)" % f["id"], no_failing_input=(got == sp))
        if not f.get("mech_modelled") and f["kind"] != "restriction" and \
                not any(avoid_id(s) == f["signature"]["avoid_rule"] for s in case_sigs(case)):
            rep.notes.append("finding %s is not covered by its avoidance rule" % f["id"])
    if tier == "thorough" and hasattr(common, "coqchk"):
        okc, summ = common.coqchk(PROP)
        rep.coverage["coqchk"] = {"ok": okc, "context_summary": summ[:1500]}
        if not okc:
            rep.violation("coqchk", {"output": summ[-3000:]}, "coqchk rejects the compiled C07 development", True)
    rep.assumptions += [
        "the double representation of struct values (member map + flattened variables) is not modelled; the main stream avoids "
        "the forms on which it misbehaves (29 rules, props/c07.py AVOID), each documented by a replayed known finding",
        "the C++ behaves like the model on the fragment: differential testing on generated histories, not proof",
        "Python printer (history -> Cb text) and transcript parser are trusted; the Python shadow heap is cross-checked against the "
        "extracted Coq model on every case",
    ]


def fragment_size():
    """size of the agreeing fragment vs the universe of access-form signatures (measured by enumeration on a
    fixed probe state, not on this run's random stream)"""
    rng = random.Random(12345)
    seen = set()
    for place in ("global", "local"):
        for rep_ in range(60):
            g = Gen(rng, lambda s: (seen.add(s), True)[1], place)
            g.spec_eq_mech = lambda c: True
            g.history(25)
    allowed = sum(1 for s in seen if avoid_id(s) is None)
    by_rule = {}
    for s in seen:
        a = avoid_id(s)
        if a:
            by_rule[a] = by_rule.get(a, 0) + 1
    return {"form_signatures_enumerated": len(seen), "allowed": allowed, "excluded": len(seen) - allowed,
            "excluded_by_rule": dict(sorted(by_rule.items()))}


def load_case(c):
    """normalise a case read back from JSON (access expressions as tuples)"""
    def fix_sop(s):
        s = dict(s)
        for key in ("a", "d", "s", "p", "t"):
            if key in s and isinstance(s[key], list):
                s[key] = tup(s[key])
        if "as" in s:
            s["as"] = [tup(a) for a in s["as"]]
        return s

    def fix_call(o):
        o = dict(o)
        o["params"] = [dict(p, arg=tup(p["arg"])) for p in o["params"]]
        o["body"] = [(fix_call(s) if s["k"] == "call" else fix_sop(s)) for s in o["body"]]
        if o.get("ret"):
            r = dict(o["ret"])
            r["e"] = tup(r["e"])
            r["d"] = tup(r["d"]) if r.get("d") is not None else None
            o["ret"] = r
        else:
            o["ret"] = None
        return o
    out = {"place": c.get("place", "local"), "ops": []}
    for flag in ("same_names", "strings"):
        if c.get(flag):
            out[flag] = True
    for o in c["ops"]:
        out["ops"].append(fix_call(o) if o["k"] == "call" else fix_sop(o))
    return out


def report_disagreement(rep, impl, case):
    (sp0, me0), = model_run([strip(case)])
    i0 = impl_transcript(impl, case)

    def kind(c):
        (sp, me), = model_run([strip(c)])
        i = impl_transcript(impl, c)
        if i == me:
            return None
        ex = [l for l in i if l and l[0] == "EXIT"]
        return ("exit", ex[0][1]) if ex else ("diff",)
    k0 = kind(case)
    small = shrink_case(strip(case), lambda c: kind(c) == k0, budget=250) if k0 else strip(case)
    (sp, me), = model_run([small])
    i = impl_transcript(impl, small)
    concrete = (i != sp)
    known = sorted(set(avoid_id(s) for s in case_sigs(small)) - {None})
    text = ("main and the proved model disagree on a %d-statement history (%s); %s" % (
        len([o for o in small["ops"] if o["k"] != "nop"]), case.get("origin"),
        "the transcript also differs from the aliasing semantics the property demands" if concrete else
        "main agrees with the aliasing semantics but not with the modelled copy-back convention"))
    rep.violation("corr", {"case": small, "source": to_cb(small), "model_mech": me, "model_spec": sp, "impl": i,
                           "forms": case_sigs(small), "avoid_rules_matching": known,
                           "broken": "correspondence model = main (carrier of every C07 theorem)"},
                  text, no_failing_input=not concrete)


def replay(path):
    data = json.load(open(path))
    c = data["case"]
    inner = c["case"] if isinstance(c, dict) and "case" in c else c
    if not (isinstance(inner, dict) and "ops" in inner):
        print(json.dumps(data, indent=1)[:4000])       # a broken proof obligation / build problem: no program to run
        return 1
    case = load_case(inner)
    common.ensure_model(PROP)
    impl = common.build_impl("plain")
    (sp, me), = model_run([case])
    i = impl_transcript(impl, case)
    print(to_cb(case))
    print("model (aliasing):  ", sp)
    print("model (copy-back): ", me)
    print("implementation:    ", i)
    return 0 if i == me else 1
