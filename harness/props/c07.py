"""C07 - structs and arrays copy by value; pointers, references, array parameters and self alias coherently.

Theorems: coq/C07/Properties_C07.v (location+path store: write_frame, paths_agree, copy_independent,
alias_visible over arbitrary op sequences; the code's copy-in / write-through / copy-back convention for array
parameters and `self` refines aliasing for callees that reach the object through the parameter only, and is
refuted otherwise).
Tie: random histories of writes, aggregate copies, pointer retargeting, calls (by value / T& / T* / array
parameter / self, with generated callee bodies; receivers by name, p->, (*p)., element, parameter, self; exits by
falling off the end, `return;`, `return e;`; calls made from inside callee bodies) and read-all-paths over a small
object graph, printed as Cb programs and run on the real `main`; the transcript must equal the extracted model's
(bin/c07_model).
The implementation's double representation of structs (member map + flattened variables) is NOT modelled:
the generator stays inside the fragment where main and the model agree and every excluded form is a recorded
known finding that is re-confirmed on every run.
"""
import copy
import json
import os
import random
import re

import common
from common import rng_for

PROP = "C07"
LEVEL = "proof"

# ------------------------------------------------------------------ object graph
# types: "int", "str" (string holding decimal digits), "dbl" (double z.5), "In", "P", "Q" (flat struct with members of
# three scalar kinds: the write-back code copies .value / .str_value / .double_value separately), "A3" (int[3]),
# "PS" (P[2]), pointers "*P" "*In" "*Q" "*int"
STRUCTS = {"In": [("v", "int"), ("w", "int")],
           "P": [("s", "int"), ("inner", "In"), ("arr", "A3")],
           "Q": [("v", "int"), ("t", "str"), ("d", "dbl")]}      # (Q.v shares its NAME with In.v: flattened 'x.v' coincidences)
SCALARS = ("int", "str", "dbl")
ARRAYS = {"A3": ("int", 3), "PS": ("P", 2), "ES": ("In", 2)}
# variables of the graph, in location order (location index = position)
VARS = [("a", "P"), ("b", "P"), ("ps", "PS"), ("e", "In"), ("f", "In"), ("es", "ES"), ("g", "A3"), ("h", "A3"),
        ("n", "int"), ("m", "int"), ("pp", "*P"), ("pin", "*In"), ("pi", "*int"),
        ("u", "Q"), ("x", "Q"), ("pq", "*Q")]
NV = len(VARS)
# Names: a parameter / callee-local is its LOCATION in the model; in the implementation it is a NAME looked up through the
# whole dynamic scope chain (find_variable walks every caller's scope).  Parameter and callee-local names are therefore
# drawn from the names of the caller's / global variables (same type, other type) and of the enclosing callees'
# parameters, so that coincidences happen in most programs.
NAMEPOOL = [n_ for n_, _ in VARS]
SAME_TYPE_NAMES = {}
for n_, t_ in VARS:
    SAME_TYPE_NAMES.setdefault(t_, []).append(n_)


def root_of(a):
    while a[0] in ("f", "d"):
        a = a[1]
    return a


def cb_type(t):
    return {"A3": "int[3]", "PS": "P[2]", "ES": "In[2]", "*P": "P*", "*In": "In*", "*int": "int*", "*Q": "Q*",
            "str": "string", "dbl": "double"}.get(t, t)


def lit(ty, z):
    """Cb literal of the scalar value z at a cell of type ty"""
    return {"str": '"%d"' % z, "dbl": "%d.5" % z}.get(ty, "%d" % z)


def children(t):
    """list of (label, type) of the children of an aggregate type, [] for scalars/pointers"""
    if t in STRUCTS:
        return list(STRUCTS[t])
    if t in ARRAYS:
        et, n = ARRAYS[t]
        return [(i, et) for i in range(n)]
    return []


def leaves(t, pre=()):
    ch = children(t)
    if not ch:
        return [pre]
    out = []
    for k, (_, ct) in enumerate(ch):
        out += leaves(ct, pre + (k,))
    return out


def zero(t):
    if t.startswith("*"):
        return None          # null pointer
    ch = children(t)
    if not ch:
        return 0
    return [zero(ct) for _, ct in ch]


# ------------------------------------------------------------------ access expressions
# ("v", loc) | ("par", i) | ("f", a, k) | ("d", a)      (lists after a JSON round trip)

def tup(a):
    """normalise an access expression read back from JSON (lists) to tuples"""
    if a is None:
        return None
    if a[0] in ("v", "par"):
        return (a[0], a[1])
    if a[0] == "f":
        return ("f", tup(a[1]), a[2])
    return ("d", tup(a[1]))


def vname(loc):
    return VARS[loc][0] if loc < NV else "c%d" % loc


class TypeEnv:
    def __init__(self, vt, pt=(), names=None):
        self.vt, self.pt = vt, list(pt)
        self.names = names or {}          # location -> name of a callee-local variable drawn from the name pool

    def typeof(self, a):
        if a[0] == "v":
            return self.vt[a[1]]
        if a[0] == "par":
            return self.pt[a[1]]
        if a[0] == "f":
            return children(self.typeof(a[1]))[a[2]][1]
        t = self.typeof(a[1])
        assert t.startswith("*"), (a, t)
        return t[1:]


def render(a, env, sty, pnames=None):
    """Cb text of an access expression. sty: 'arrow' (p->m instead of (*p).m), 'ivar' (index through the int
    variables i0..i2 instead of literals)."""
    k = a[0]
    if k == "v":
        return env.names.get(a[1]) or vname(a[1])
    if k == "par":
        return pnames[a[1]]
    if k == "d":
        return "(*%s)" % render(a[1], env, sty, pnames)
    base, idx = a[1], a[2]
    bt = env.typeof(base)
    if bt in ARRAYS:
        ix = ("i%d" % idx) if sty.get("ivar") else str(idx)
        return "%s[%s]" % (render(base, env, sty, pnames), ix)
    name = STRUCTS[bt][idx][0]
    if base[0] == "d" and sty.get("arrow", True):
        return "%s->%s" % (render(base[1], env, sty, pnames), name)
    return "%s.%s" % (render(base, env, sty, pnames), name)


# ------------------------------------------------------------------ shadow heap (the property's own reading, in Python)
# heap: list of trees (nested lists; leaves int, or pointer = None | (loc, path-tuple)). cell = (loc, path-tuple)

class Bad(Exception):
    pass


def t_read(v, p):
    for k in p:
        if not isinstance(v, list) or k >= len(v):
            raise Bad("path")
        v = v[k]
    return v


def t_write(v, p, x):
    if not p:
        return x
    if not isinstance(v, list) or p[0] >= len(v):
        raise Bad("path")
    out = list(v)
    out[p[0]] = t_write(v[p[0]], p[1:], x)
    return out


def flat(v):
    if isinstance(v, list):
        out = []
        for c in v:
            out += flat(c)
        return out
    if v is None or isinstance(v, tuple):
        return [-1]
    return [v]


class Shadow:
    """Spec (mech=False): T&, array parameters and self denote the argument's cell.
    Mech (mech=True): array parameters and self are copy-in / write-through / copy-back
    (call_impl.cpp:4886-4945 and 6280, cleanup.cpp:155, statement_executor.cpp:720, call_impl.cpp:4326 and 6056)."""

    def __init__(self, mech=False):
        self.h = [zero(t) for _, t in VARS]
        self.mech = mech
        self.out = []

    def read(self, c):
        if c[0] >= len(self.h):
            raise Bad("loc")
        return t_read(self.h[c[0]], c[1])

    def write(self, c, x, thru=()):
        if c[0] >= len(self.h):
            raise Bad("loc")
        self.h[c[0]] = t_write(self.h[c[0]], c[1], x)
        for (tmp, orig) in thru:             # write-through of copy-in parameters
            if c[0] == tmp:
                self.h[orig[0]] = t_write(self.h[orig[0]], orig[1] + c[1], x)

    def resolve(self, a, fr):
        k = a[0]
        if k == "v":
            return (a[1], ())
        if k == "par":
            return fr[a[1]]
        if k == "f":
            l, p = self.resolve(a[1], fr)
            return (l, p + (a[2],))
        if k == "d":
            v = self.read(self.resolve(a[1], fr))
            if not isinstance(v, tuple):
                raise Bad("null/invalid pointer")
            return v
        raise Bad("aexp")

    def sop(self, s, fr, thru=()):
        k = s["k"]
        if k == "w":
            self.write(self.resolve(s["a"], fr), s["z"], thru)
        elif k == "cp":
            v = self.read(self.resolve(s["s"], fr))
            self.write(self.resolve(s["d"], fr), v, thru)
        elif k == "addr":
            self.write(self.resolve(s["p"], fr), self.resolve(s["t"], fr), thru)
        elif k == "rd":
            vals = []
            for a in s["as"]:
                vals += flat(self.read(self.resolve(a, fr)))
            self.out.append([s["id"]] + vals)
        else:
            raise Bad("sop " + k)

    def bind(self, params, fr0):
        """bind the parameters of a call whose arguments are resolved in the frame fr0 (main: []); every parameter
        allocates one location. Returns (frame, write-through list, copy-back list)"""
        fr, thru, back = [], [], []
        for prm in params:
            md = prm["mode"]
            if md == "val" or md == "pval":      # value (struct/array/int tree, or the value of a pointer variable)
                self.h.append(self.read(self.resolve(prm["arg"], fr0)))
                fr.append((len(self.h) - 1, ()))
            elif md == "ptr":                    # &arg passed to a T* parameter
                self.h.append(self.resolve(prm["arg"], fr0))
                fr.append((len(self.h) - 1, ()))
            elif md == "ref":
                fr.append(self.resolve(prm["arg"], fr0))
                self.h.append(0)                 # dummy: keeps location numbering independent of the mode
            elif not self.mech:                  # arr / self in Spec: the argument's cell
                fr.append(self.resolve(prm["arg"], fr0))
                self.h.append(0)
            else:                                # arr / self in Mech: copy in
                c = self.resolve(prm["arg"], fr0)
                self.h.append(self.read(c))
                tmp = len(self.h) - 1
                fr.append((tmp, ()))
                thru.append((tmp, c))
                back.append((tmp, c))
        return fr, thru, back

    def call(self, o, fr0, thru0):
        """a call made from main (fr0 = [], thru0 = []) or from inside a callee body (nested call: arguments and
        the destination of the returned value are resolved in the caller's frame fr0)"""
        fr, thru, back = self.bind(o["params"], fr0)
        th = thru + list(thru0)
        for s in o["body"]:
            if s["k"] == "call":
                self.call(s, fr, th)
            elif s["k"] == "decl":               # T c = e; a local of the callee: fresh location holding a copy
                self.h.append(self.read(self.resolve(s["s"], fr)))
            else:
                self.sop(s, fr, th)
        rv = None
        if o.get("ret") is not None:
            rv = self.read(self.resolve(o["ret"]["e"], fr))
        for tmp, c in back:
            self.write(c, self.read((tmp, ())))
        if rv is not None:
            d = o["ret"]["d"]
            if d is None:
                self.h.append(rv)
            else:
                self.write(self.resolve(d, fr0), rv, thru0)

    def op(self, o):
        k = o["k"]
        if k in ("w", "cp", "addr", "rd"):
            self.sop(o, [])
        elif k == "nop":                             # placeholder left by the shrinker: allocates like the op it replaces
            self.h += [0] * o["alloc"]
        elif k == "decl":
            v = self.read(self.resolve(o["s"], []))
            self.h.append(v)
        elif k == "call":
            self.call(o, [], [])
        else:
            raise Bad("op " + k)


def shadow_run(case, mech):
    """transcript (list of int lists); ends with ['ERR', why] when an op cannot be executed"""
    sh = Shadow(mech)
    try:
        for o in case["ops"]:
            sh.op(o)
    except Bad as e:
        sh.out.append(["ERR", str(e)])
    return sh.out


# ------------------------------------------------------------------ signatures of access forms
def cell_desc(c, vt):
    """describe a cell by the declared variable kind and member chain: 'P', 'PS[]', 'P.inner', 'A3[]', 'tmp' ..."""
    loc, p = c
    if loc not in vt:
        return "tmp"
    t = vt[loc]
    s = t
    for k in p:
        if t in ARRAYS:
            s += "[]"
            t = ARRAYS[t][0]
        else:
            nm, t2 = STRUCTS[t][k]
            s += "." + nm
            t = t2
    return s


def expr_sig(a, env, sh, fr, pmodes=None):
    """signature of an access form: root kind + member chain; derefs show what the pointer points to."""
    k = a[0]
    if k == "v":
        return env.vt[a[1]]
    if k == "par":
        return "par<%s %s>" % (pmodes[a[1]], env.pt[a[1]])
    if k == "d":
        try:
            tgt = cell_desc(sh.resolve(a, fr), env.vt)
        except Bad:
            tgt = "?"
        return "*(%s=>%s)" % (expr_sig(a[1], env, sh, fr, pmodes), tgt)
    bt = env.typeof(a[1])
    base = expr_sig(a[1], env, sh, fr, pmodes)
    if bt in ARRAYS:
        return base + "[]"
    return base + "." + STRUCTS[bt][a[2]][0]


# ------------------------------------------------------------------ generator
class Gen:
    """Generates one history while running the Spec shadow (so that only executable ops are produced)."""

    def __init__(self, rng, allow, place="local", maxcopies=3):
        self.rng, self.allow, self.place = rng, allow, place
        self.sh = Shadow(False)
        self.vt = {i: t for i, (_, t) in enumerate(VARS)}      # variables visible in main
        self.tyall = dict(self.vt)                                # type of every named location (incl. callee locals)
        self.locals = {}                                          # locals of the callee body being generated
        self.ops = []
        self.sigs = []          # signatures used (histogram)
        self.avoided = 0
        self.next_val = 100
        self.next_id = 0
        self.next_fid = 0
        self.maxcopies = maxcopies
        self.maxdepth = 2                                         # calls nest main -> f -> g -> h
        # the dynamic scope chain: frames[0] = globals / locals of main, frames[k] = names of the k-th enclosing callee
        self.frames = [{n_: t_ for n_, t_ in VARS}]
        self.locname = {i: (n_, 0) for i, (n_, _) in enumerate(VARS)}   # location -> (variable name, frame index)
        self.cur_pn = None                                        # parameter names of the callee being generated
        self.cur_eq = None                                        # per parameter: the nearest live variable of that name IS the argument
        self.lnames = {}                                          # location -> pool name of a callee local

    # ---- candidates
    def exprs_of(self, ty, env, fr, in_callee):
        """all access expressions of type ty available in the context (main, or a callee with frame fr)"""
        sh = self.sh
        roots = {}          # type -> list of aexp

        def add(t, a):
            roots.setdefault(t, []).append(a)
        if not in_callee or self.place == "global":
            for loc, t in self.vt.items():
                # a global whose name is also a parameter / local of the running callee is shadowed there
                if not in_callee or (loc < NV and vname(loc) not in self.frames[-1]):
                    add(t, ("v", loc))
        if in_callee:
            for i, t in enumerate(env.pt):
                add(t, ("par", i))
            for loc, t in self.locals.items():
                add(t, ("v", loc))
        # pointer dereferences (only valid, non-null pointers)
        for t in ("*P", "*In", "*int", "*Q"):
            for pa in list(roots.get(t, [])):
                try:
                    v = sh.read(sh.resolve(pa, fr))
                except Bad:
                    continue
                if isinstance(v, tuple):
                    add(t[1:], ("d", pa))
        # close under member selection: PS -> P -> In/A3 -> int
        for t in ("PS", "ES", "P", "In", "A3", "Q"):
            for a in list(roots.get(t, [])):
                for k, (_, ct) in enumerate(children(t)):
                    add(ct, ("f", a, k))
        return roots.get(ty, [])

    def sty(self):
        return {"arrow": self.rng.random() < 0.6, "ivar": self.rng.random() < 0.3}

    def pick(self, role, ty, env, fr, pmodes, in_callee, ctx, pred=None):
        cands = self.exprs_of(ty, env, fr, in_callee)
        self.rng.shuffle(cands)
        if pred:
            cands = [a for a in cands if pred(a)]
        for a in cands[:16]:
            st = self.sty()
            sig = self.sig(ctx, role, a, env, fr, pmodes, st)
            if self.allow(sig):
                return a, st, sig
            self.avoided += 1
        return None

    def sig(self, ctx, role, a, env, fr, pmodes, st):
        es = expr_sig(a, env, self.sh, fr, pmodes)
        fl = ""
        if "*(" in es:
            fl += ">" if st.get("arrow") else "."
        if "[]" in es and st.get("ivar"):
            fl += "i"
        fl += self.name_flags(a, fr, pmodes, es)
        return "%s%s|%s|%s|%s" % (ctx, "G" if self.place == "global" else "L", role, es, fl)

    def clash(self, nm, k):
        """live variables called nm in the frames below frame k: 'g<type>' global, 'm<type>' local of main,
        'c<type>' parameter / local of an enclosing callee"""
        out = []
        for j in range(min(k, len(self.frames))):
            if nm in self.frames[j]:
                out.append(((("g" if self.place == "global" else "m") if j == 0 else "c") +
                            self.frames[j][nm]).replace("*", "p"))
        return ",".join(out)

    def arg_is_nearest(self, a, pmc, nm, knew):
        """the nearest live variable called nm below frame knew is the (plain or by-value) variable the argument a starts at"""
        rt = root_of(a)
        if rt[0] == "par":
            if not self.cur_pn or self.cur_pn[rt[1]] != nm or (pmc and pmc[rt[1]] != "val"):
                return False
            own = (nm, len(self.frames) - 1)
        else:
            own = self.locname.get(rt[1])
            if not own or own[0] != nm:
                return False
        near = max(j for j in range(min(knew, len(self.frames))) if nm in self.frames[j])
        return own[1] == near

    def root_name(self, a):
        rt = root_of(a)
        if rt[0] == "par":
            return self.cur_pn[rt[1]] if self.cur_pn else None
        return self.lnames.get(rt[1]) or vname(rt[1])

    def name_flags(self, a, fr, pmodes, es):
        """'#<clash>': the access starts at a parameter / callee local whose NAME is also the name of a live variable of
        a caller / of the globals; '^': the access goes through a pointer, T&, array parameter or self to a variable
        whose name is shadowed by a variable of a more recent frame (the implementation re-resolves names)"""
        fl = ""
        k = len(self.frames) - 1
        rt = root_of(a)
        nm = None
        if rt[0] == "par" and self.cur_pn:
            nm = self.cur_pn[rt[1]]
        elif rt[0] == "v" and rt[1] in self.locals and rt[1] in self.lnames:
            nm = self.lnames[rt[1]]
        if nm and nm != "self":
            cl = self.clash(nm, k)
            if cl:
                fl += "#" + cl
                if rt[0] == "par" and self.cur_eq and self.cur_eq[rt[1]]:
                    fl += "="
        if "*(" in es or (rt[0] == "par" and pmodes and pmodes[rt[1]] in ("ref", "arr", "self")):
            try:
                tn = self.locname.get(self.sh.resolve(a, fr)[0])
            except Bad:
                tn = None
            if tn:
                sh_ = [self.frames[j][tn[0]].replace("*", "p") for j in range(tn[1] + 1, k + 1) if tn[0] in self.frames[j]]
                if sh_:
                    fl += "^" + ",".join(sh_)      # (types of the shadowing variables)
        if rt[0] == "v" and k > 0 and rt[1] in self.vt and \
                any((self.lnames.get(rt[1]) or vname(rt[1])) in self.frames[j] for j in range(1, k)):
            fl += "%"       # a global named like a parameter / local of a function further up the call chain
        return fl

    def choose_names(self, params, depth):
        """names of the parameters: 40 % a variable of the caller / the globals of the SAME type, 20 % any of them,
        15 % a parameter / local name of an enclosing callee, else q<i> / r<i>"""
        r = self.rng
        used = {"self"}
        names = []
        outer = sorted(set(n_ for fr_ in self.frames[1:] for n_ in fr_))
        for i, prm in enumerate(params):
            if prm["mode"] == "self":
                names.append("self")
                continue
            pty = ("*" + prm["ty"]) if prm["mode"] in ("ptr", "pval") else prm["ty"]
            x = r.random()
            cands = SAME_TYPE_NAMES.get(pty, []) if x < 0.4 else NAMEPOOL if x < 0.6 else outer if x < 0.75 else []
            cands = [n_ for n_ in cands if n_ not in used]
            nm = r.choice(cands) if cands else None
            if nm is None:
                nm = ("q%d" if depth == 0 or r.random() < 0.5 else "r%d") % i
                if nm in used:
                    nm = "r%d" % i if "r%d" % i not in used else "z%d" % i
            used.add(nm)
            names.append(nm)
        # copy-back of array parameters runs in the lexicographic order of their NAMES (std::map): keep = binding order
        ai = [i for i, prm in enumerate(params) if prm["mode"] == "arr"]
        for i, nm in zip(ai, sorted(names[i] for i in ai)):
            names[i] = nm
        return names

    def local_name(self, ty, loc, used=()):
        """name of a fresh local of the running callee: half of them from the pool (not a name of this frame, not a
        name the initialising call expression mentions)"""
        r = self.rng
        if r.random() < 0.5:
            x = r.random()
            cands = SAME_TYPE_NAMES.get(ty, []) if x < 0.5 else NAMEPOOL
            cands = [n_ for n_ in cands if n_ not in self.frames[-1] and n_ not in used]
            if cands:
                return r.choice(cands)
        return None

    def val(self):
        self.next_val += 1
        return self.next_val

    # ---- simple ops
    def gen_sop(self, env, fr, pmodes, in_callee, ctx, kinds):
        r = self.rng
        kind = r.choice(kinds)
        if kind == "w":
            p = self.pick("w", r.choice(["int", "int", "int", "str"]), env, fr, pmodes, in_callee, ctx)
            if not p:
                return None
            return {"k": "w", "a": p[0], "z": self.val(), "sty": p[1], "sigs": [p[2]]}
        if kind == "cp":
            ty = r.choice(["P", "P", "In", "A3", "Q", "Q"])
            d = self.pick("cpd", ty, env, fr, pmodes, in_callee, ctx)
            if not d:
                return None
            dc = self.sh.resolve(d[0], fr)

            def disjoint(a):
                c = self.sh.resolve(a, fr)
                return not (c[0] == dc[0] and (c[1][:len(dc[1])] == dc[1] or dc[1][:len(c[1])] == c[1]))
            s = self.pick("cps", ty, env, fr, pmodes, in_callee, ctx, pred=disjoint)
            if not s:
                return None
            return {"k": "cp", "d": d[0], "s": s[0], "ty": ty, "sty": d[1], "sty2": s[1], "sigs": [d[2], s[2]]}
        if kind == "addr":
            ty = r.choice(["P", "In", "int", "Q"])
            p = self.pick("addrp", "*" + ty, env, fr, pmodes, in_callee, ctx, pred=lambda a: a[0] == "v")
            if not p:
                return None
            t = self.pick("addr", ty, env, fr, pmodes, in_callee, ctx,
                          pred=lambda a: self.sh.resolve(a, fr)[0] in self.vt)
            if not t:
                return None
            return {"k": "addr", "p": p[0], "t": t[0], "sty": t[1], "sigs": [t[2]]}
        if kind == "rd":
            form = r.choice(["plain", "plain", "interp", "tmp"])
            n = r.randint(1, 5)
            es, sigs, stys = [], [], []
            for _ in range(n):
                p = self.pick("r-" + form, r.choice(["int", "int", "int", "str"]), env, fr, pmodes, in_callee, ctx)
                if p:
                    es.append(p[0]); stys.append(p[1]); sigs.append(p[2])
            if not es:
                return None
            self.next_id += 1
            return {"k": "rd", "id": self.next_id, "as": es, "form": form, "stys": stys, "sigs": sigs}
        raise ValueError(kind)

    def read_all(self, forms=("plain",)):
        """reads of every scalar cell of the named variables through the plain path (one rd op per variable)"""
        env = TypeEnv(self.tyall)
        out = []
        for loc, t in sorted(self.vt.items()):
            if t.startswith("*"):
                continue
            form = self.rng.choice(forms)
            es, sigs, stys = [], [], []
            for p in leaves(t):
                a = ("v", loc)
                for k in p:
                    a = ("f", a, k)
                st = {"arrow": True, "ivar": False}
                sg = self.sig("M", "r-" + form, a, env, [], None, st)
                if self.allow(sg):
                    es.append(a); stys.append(st); sigs.append(sg)
            if es:
                self.next_id += 1
                out.append({"k": "rd", "id": self.next_id, "as": es, "form": form, "stys": stys, "sigs": sigs})
        return out

    def gen_call(self, envc=None, frc=(), pmc=None, ctxc="M", depth=0, rec=None):
        """a call whose arguments come from the calling context: main (depth 0), or the body of a callee with type
        environment envc, frame frc, parameter modes pmc and context letter ctxc (nested call, depth >= 1; calls nest
        up to self.maxdepth).  rec: the signature of the enclosing callee - the call re-invokes that SAME function /
        method (recursion: same parameter modes, types, names and return type; own body per invocation).
        Receiver forms: every access expression of the struct type available there (name, p->, (*p)., T& / T /
        T* parameter, self); exit forms: falling off the end, `return;`, `return e;` (int, string or struct)."""
        r = self.rng
        in_c = depth > 0
        envc = envc or TypeEnv(self.tyall)
        frc = list(frc)
        params, fr_types, pmodes = [], [], []
        is_method = rec["is_method"] if rec else r.random() < 0.45
        own = (lambda a: root_of(a)[0] == "par") if rec and r.random() < 0.75 else None   # f(v) -> f(v)
        if is_method:
            # interface methods with T& / T* / struct parameters are rejected by the front end: self + int parameters
            ty = rec["recv_ty"] if rec else r.choice(["P", "In", "In", "In", "Q", "Q"])
            pred = own
            if not rec and r.random() < 0.5:     # aim at receivers reached through a pointer
                pred = lambda a: a[0] == "d"
            p = self.pick("recv", ty, envc, frc, pmc, in_c, ctxc, pred=pred) or \
                (pred and self.pick("recv", ty, envc, frc, pmc, in_c, ctxc))
            if not p:
                return None
            params.append({"mode": "self", "ty": ty, "arg": p[0], "sty": p[1], "sig": p[2]})
            fr_types.append(ty); pmodes.append("self")
            modes = [(m_, None) for m_ in (r.choice(["int", "int", "str"]) for _ in range(r.choice([0, 0, 1, 1, 2])))]
        else:
            modes = [(m_, None) for m_ in (r.choice(["val", "ref", "ptr", "pval", "arr", "val", "ref", "ptr", "int", "str"])
                                           for _ in range(r.choice([1, 1, 1, 2, 2, 3])))]
        if rec:
            modes = list(rec["modes"])
        for mode, fty in modes:
            if mode in ("int", "str"):
                ty = mode
                p = self.pick("arg" + mode, ty, envc, frc, pmc, in_c, ctxc)
            elif mode == "pval":
                ty = fty or r.choice(["P", "P", "In", "In", "int", "Q", "Q"])
                okp = lambda a: isinstance(self.sh.read(self.sh.resolve(a, frc)), tuple)
                p = (own and self.pick("argpval", "*" + ty, envc, frc, pmc, in_c, ctxc, pred=lambda a: own(a) and okp(a))) or \
                    self.pick("argpval", "*" + ty, envc, frc, pmc, in_c, ctxc, pred=okp)
            else:
                if fty:
                    ty = fty
                elif mode == "arr":
                    ty = r.choice(["A3", "A3", "PS", "ES"])
                elif mode in ("ptr", "ref"):
                    ty = r.choice(["P", "P", "In", "In", "int", "Q", "Q"])
                else:
                    ty = r.choice(["P", "P", "In", "In", "Q"])
                p = (own and self.pick("arg" + mode, ty, envc, frc, pmc, in_c, ctxc, pred=own)) or \
                    self.pick("arg" + mode, ty, envc, frc, pmc, in_c, ctxc)
            if not p:
                return None
            pm = "val" if mode in ("int", "str") else mode
            params.append({"mode": pm, "ty": ty, "arg": p[0], "sty": p[1], "sig": p[2], "decl": mode})
            fr_types.append(("*" + ty) if pm in ("ptr", "pval") else ty)
            pmodes.append(pm)
        # ---- names of the parameters; flags of the argument forms that depend on them
        names = list(rec["names"]) if rec else self.choose_names(params, depth)
        knew = len(self.frames)                 # index of the callee's frame in the dynamic chain
        arg_roots = {self.root_name(prm["arg"]) for prm in params}
        eqs = [False] * len(params)
        for i, prm in enumerate(params):
            if prm["mode"] == "self":
                continue
            prm["name"] = names[i]
            fl = "/"
            cl = self.clash(names[i], knew)
            if cl:
                fl += "#" + cl                  # the parameter's name is the name of a live variable of a caller / global
                eqs[i] = self.arg_is_nearest(prm["arg"], pmc, names[i], knew)
            rn = self.root_name(prm["arg"])
            if rn in names[:i]:
                fl += "@"                       # the argument mentions the name of an EARLIER parameter of this call
            elif rn in names[i + 1:]:
                fl += "&"                       # ... of a LATER parameter
            elif rn == names[i]:
                fl += "="                       # f(e) for a parameter itself called e
            if fl != "/":
                prm["sig"] += fl
        if rec:
            fid = rec["fid"]
        else:
            fid = self.next_fid
            self.next_fid += 1
        call = {"k": "call", "fid": fid, "params": params, "body": [], "ret": None, "exit": "fall",
                "sigs": [p["sig"] for p in params]}
        if rec:
            call["rec"] = True
        # bind the parameters in a scratch shadow and generate the body there
        saved, saved_locals, saved_pn, saved_eq = self.sh, self.locals, self.cur_pn, self.cur_eq
        n0 = len(self.sh.h)
        trial = copy.deepcopy(self.sh)
        try:
            fr, _, _ = trial.bind(params, frc)
        except Bad:
            return None
        self.sh, self.locals, self.cur_pn, self.cur_eq = trial, {}, names, eqs
        self.frames.append({nm: ft for nm, ft in zip(names, fr_types)})
        for i, nm in enumerate(names):
            self.locname[n0 + i] = (nm, knew)
            self.lnames.pop(n0 + i, None)
        env = TypeEnv(self.tyall, fr_types)

        marked = []

        def leave():
            self.sh, self.locals, self.cur_pn, self.cur_eq = saved, saved_locals, saved_pn, saved_eq
            self.frames.pop()

        def unmark():
            for nm_ in marked:
                self.frames[-1].pop(nm_, None)
            del marked[:]
        # context letters: F function / S method called from main; T method, E function called from a function body,
        # U function called from a method body (the receiver is being copied: its global name is stale there too)
        ctx = (("T" if is_method else ("U" if ctxc in ("S", "T", "U") else "E")) if in_c else ("S" if is_method else "F"))
        # the return type is fixed before the body (every invocation of a recursive function shares it)
        if rec:
            rty = rec["rty"]
        else:
            rty = r.choice(["P", "In", "In", "int", "int", "int", "Q", "str"]) if r.random() < 0.45 else None
        # a result kept in a fresh local of the calling body (`In f = g(..)`): the local is declared - and live in the
        # caller's frame - BEFORE its initialiser runs, so its name is chosen (and entered there) before the body
        ncopies = sum(1 for l in self.vt if l >= NV) + len(saved_locals)
        fresh = bool(rty) and r.random() < 0.3 and ncopies < self.maxcopies
        lname = None
        if fresh and in_c:
            self.frames.pop()
            lname = self.local_name(rty, None, arg_roots)
            if lname:
                self.frames[-1][lname] = rty
                marked.append(lname)
            self.frames.append({nm: ft for nm, ft in zip(names, fr_types)})
        can_nest = depth < self.maxdepth
        kinds = ["w", "w", "w", "rd", "rd", "cp", "decl"] + (["call", "call"] if depth == 0 else ["call"] if can_nest else [])
        plan = [r.choice(kinds) for _ in range(r.randint(1, 4))]
        if can_nest and r.random() < (0.3 if not rec else 0.6):
            # by-value / by-reference RECURSION: write through the own parameters, re-invoke the same function, read
            # the own parameters after it returned
            simple = ["w", "w", "rd", "cp", "decl"]
            plan = [r.choice(simple) for _ in range(r.randint(0, 2))] + ["wown", "rec", "rown"] + \
                   [r.choice(simple) for _ in range(r.randint(0, 1))]
        recsig = {"is_method": is_method, "recv_ty": params[0]["ty"] if is_method else None,
                  "modes": [(prm["decl"], prm["ty"]) for prm in params if prm["mode"] != "self"],
                  "names": names, "rty": rty, "fid": fid}
        body = []
        has_rec = False
        for kind in plan:
            if kind in ("call", "rec"):
                nc = self.gen_call(env, fr, pmodes, ctx, depth + 1, rec=recsig if kind == "rec" else None)
                if not nc:
                    continue
                try:
                    self.sh.call(nc, fr, ())
                except Bad:
                    if nc["ret"] and nc["ret"].get("name"):
                        self.frames[-1].pop(nc["ret"]["name"], None)
                    continue
                body.append(nc)
                has_rec = has_rec or kind == "rec"
                if nc["ret"] and nc["ret"]["d"] is None:          # result kept in a local of this body: read it at once
                    loc = len(self.sh.h) - 1
                    nc["ret"]["loc"] = loc
                    self.locals[loc] = self.tyall[loc] = nc["ret"]["ty"]
                    nm = nc["ret"].get("name")
                    self.lnames.pop(loc, None)
                    if nm:
                        self.lnames[loc] = nm
                    self.frames[-1][nm or "c%d" % loc] = nc["ret"]["ty"]
                    self.locname[loc] = (nm or "c%d" % loc, knew)
                    if nc["ret"]["ty"] in SCALARS:
                        self.next_id += 1
                        st = {"arrow": True, "ivar": False}
                        body.append({"k": "rd", "id": self.next_id, "as": [("v", loc)], "form": "plain", "stys": [st],
                                     "sigs": [self.sig(ctx, "r-plain", ("v", loc), env, fr, pmodes, st)]})
                continue
            if kind == "decl":
                # T c = e; a local of the callee declared by copy (name: half of them from the pool)
                if len(self.locals) >= 2:
                    continue
                dty = r.choice(["In", "In", "P", "Q"])
                p = self.pick("decl", dty, env, fr, pmodes, True, ctx)
                if not p:
                    continue
                loc = len(self.sh.h)
                nm = self.local_name(dty, loc, {self.root_name(p[0])})
                cl = self.clash(nm, knew) if nm else ""
                sg = p[2] + (("/#" + cl) if cl else "")
                if nm and pmodes and pmodes[0] == "self":
                    try:
                        if self.locname.get(self.sh.resolve(("par", 0), fr)[0], ("",))[0] == nm:
                            sg += "!"           # a local of a method named like the method's receiver variable
                    except Bad:
                        pass
                if not self.allow(sg):
                    self.avoided += 1
                    continue
                try:
                    self.sh.h.append(self.sh.read(self.sh.resolve(p[0], fr)))
                except Bad:
                    continue
                s = {"k": "decl", "s": p[0], "ty": dty, "sty": p[1], "sigs": [sg], "loc": loc}
                self.locals[loc] = self.tyall[loc] = dty
                self.lnames.pop(loc, None)
                if nm:
                    s["name"] = nm
                    self.lnames[loc] = nm
                self.frames[-1][nm or "c%d" % loc] = dty
                self.locname[loc] = (nm or "c%d" % loc, knew)
                body.append(s)
                continue
            if kind == "wown":
                p = self.pick("w", r.choice(["int", "int", "int", "str"]), env, fr, pmodes, True, ctx,
                              pred=lambda a: root_of(a)[0] == "par")
                s = {"k": "w", "a": p[0], "z": self.val(), "sty": p[1], "sigs": [p[2]]} if p else None
            elif kind == "rown":
                es, sigs, stys = [], [], []
                for _ in range(r.randint(2, 4)):
                    p = self.pick("r-plain", r.choice(["int", "int", "int", "str"]), env, fr, pmodes, True, ctx,
                                  pred=lambda a: root_of(a)[0] == "par")
                    if p:
                        es.append(p[0]); stys.append(p[1]); sigs.append(p[2])
                s = None
                if es:
                    self.next_id += 1
                    s = {"k": "rd", "id": self.next_id, "as": es, "form": "plain", "stys": stys, "sigs": sigs}
            else:
                s = self.gen_sop(env, fr, pmodes, True, ctx, [kind])
            if s:
                try:
                    self.sh.sop(s, fr)
                except Bad:
                    continue
                body.append(s)
        ret = None
        if rty:
            role = "reti" if rty in SCALARS else "ret"
            e = self.pick(role, rty, env, fr, pmodes, True, ctx)
            if e:
                if fresh:
                    ret = {"e": e[0], "d": None, "ty": rty, "sty": e[1], "sigs": [e[2]]}
                    if lname:
                        ret["name"] = lname
                else:
                    leave()
                    d = self.pick(role.replace("ret", "retd"), rty, envc, frc, pmc, in_c, ctxc)
                    self.sh, self.locals, self.cur_pn, self.cur_eq = trial, {}, names, eqs
                    self.frames.append({})
                    if d:
                        ret = {"e": e[0], "d": d[0], "ty": rty, "sty": e[1], "sty2": d[1], "sigs": [e[2], d[2]]}
            if not ret and (rec or has_rec):
                leave()
                unmark()
                return None            # every invocation of a recursive function must return a value of its type
        leave()
        if not (ret and ret["d"] is None):
            unmark()
        if not body and not ret:
            return None
        call["body"] = body
        call["ret"] = ret
        if not ret:
            call["exit"] = r.choice(["fall", "ret"])
        if ret or call["exit"] == "ret":        # the callee leaves through a return statement: flag R on the argument forms
            for prm in params:
                prm["sig"] += "R"
                if not self.allow(prm["sig"]):
                    self.avoided += 1
                    unmark()
                    return None
            call["sigs"] = [prm["sig"] for prm in params]
        else:
            for prm in params:                  # (the name flags were added after the form was picked)
                if not self.allow(prm["sig"]):
                    self.avoided += 1
                    unmark()
                    return None
            call["sigs"] = [prm["sig"] for prm in params]
        for s in body:
            call["sigs"] += s["sigs"]
        if ret:
            call["sigs"] += ret["sigs"]
        return call

    def emit(self, o):
        """run op on the shadow; register declared variables; append"""
        nloc = len(self.sh.h)
        self.sh.op(o)
        if o["k"] == "decl":
            self.vt[nloc] = self.tyall[nloc] = o["ty"]
            o["loc"] = nloc
            self.frames[0]["c%d" % nloc] = o["ty"]
            self.locname[nloc] = ("c%d" % nloc, 0)
            self.lnames.pop(nloc, None)
        if o["k"] == "call" and o["ret"] and o["ret"]["d"] is None:
            rl = len(self.sh.h) - 1
            self.vt[rl] = self.tyall[rl] = o["ret"]["ty"]
            o["ret"]["loc"] = rl
            self.frames[0]["c%d" % rl] = o["ret"]["ty"]
            self.locname[rl] = ("c%d" % rl, 0)
            self.lnames.pop(rl, None)
        self.ops.append(o)
        self.sigs += o.get("sigs", [])

    def step(self, k):
        r = self.rng
        env = TypeEnv(self.tyall)
        if k == "call":
            o = self.gen_call()
            if o and not self.spec_eq_mech(o):
                self.avoided += 1
                o = None
        elif k == "decl":
            if sum(1 for l in self.vt if l >= NV) >= self.maxcopies:
                return False
            ty = r.choice(["P", "P", "In", "Q"])
            p = self.pick("decl", ty, env, [], None, False, "M")
            o = {"k": "decl", "s": p[0], "ty": ty, "sty": p[1], "sigs": [p[2]]} if p else None
        else:
            o = self.gen_sop(env, [], None, False, "M", [k])
        if o is None:
            return False
        try:
            self.emit(o)
        except Bad:
            return False
        return True

    def read_paths(self, cell=None):
        """one rd op per form (plain / interpolation / temporary) reading ONE cell through every available
        access path that denotes it (name, member path, element, dereference / arrow of every pointer to it)"""
        env = TypeEnv(self.tyall)
        cands = [a for t in SCALARS for a in self.exprs_of(t, env, [], False)]
        if cell is None:
            if not cands:
                return 0
            cell = self.sh.resolve(self.rng.choice(cands), [])
        same = [a for a in cands if self.sh.resolve(a, []) == cell]
        n = 0
        for form in ("plain", "interp", "tmp"):
            es, stys, sigs = [], [], []
            for a in same:
                for st in ({"arrow": True, "ivar": False}, {"arrow": False, "ivar": True}):
                    sg = self.sig("M", "r-" + form, a, env, [], None, st)
                    if sg in sigs:
                        continue
                    if self.allow(sg):
                        es.append(a); stys.append(st); sigs.append(sg)
                    else:
                        self.avoided += 1
            if es:
                self.next_id += 1
                self.emit({"k": "rd", "id": self.next_id, "as": es, "form": form, "stys": stys, "sigs": sigs})
                n += 1
        return n

    def history(self, n, kinds=None):
        kinds = kinds or ["w"] * 6 + ["cp"] * 3 + ["addr"] * 2 + ["rd"] * 4 + ["call"] * 5 + ["decl"] + ["rdall"] * 2
        tries = 0
        while len(self.ops) < n and tries < 6 * n:
            tries += 1
            k = self.rng.choice(kinds)
            if k == "rdall":
                self.read_paths()
                continue
            ok = self.step(k)
            if ok and k == "w" and self.rng.random() < 0.4:
                self.read_paths(self.sh.resolve(self.ops[-1]["a"], []))
            if ok and k == "call" and self.rng.random() < 0.7:
                self.read_back(self.ops[-1])

    def read_back(self, call):
        """after a call: read scalar cells of the objects the callee could reach (receiver, T& / T* / array
        arguments, also of nested calls' targets as far as they are caller objects) through EVERY access path"""
        cells = []
        for prm in call["params"]:
            if prm["mode"] == "val":
                continue
            try:
                c = self.sh.resolve(prm["arg"], [])
                if prm["mode"] == "pval":
                    c = self.sh.read(c)
                    if not isinstance(c, tuple):
                        continue
                if c[0] not in self.vt:
                    continue
                t = self.vt[c[0]]
                for k in c[1]:
                    t = children(t)[k][1]
            except (Bad, IndexError, KeyError):
                continue
            lv = [c[1] + tuple(l) for l in leaves(t)]
            self.rng.shuffle(lv)
            cells += [(c[0], l) for l in lv[:2]]
        self.rng.shuffle(cells)
        for c in cells[:2]:
            self.read_paths(c)

    def spec_eq_mech(self, call):
        """the call behaves the same under aliasing and under copy-in/write-through/copy-back"""
        s1 = copy.deepcopy(self.sh); s1.mech = False; s1.out = []
        s2 = copy.deepcopy(self.sh); s2.mech = True; s2.out = []
        try:
            s1.op(call)
            s2.op(call)
        except Bad:
            return False
        n = len(self.sh.h)
        return s1.out == s2.out and s1.h[:n] == s2.h[:n] and \
            (not call["ret"] or s1.h[-1] == s2.h[-1])


# ------------------------------------------------------------------ printer: history -> Cb program
def r_sop(s, env, pnames, ind):
    k = s["k"]
    if k == "w":
        return ["%s%s = %s;" % (ind, render(s["a"], env, s["sty"], pnames), lit(env.typeof(s["a"]), s["z"]))]
    if k == "cp":
        return ["%s%s = %s;" % (ind, render(s["d"], env, s["sty"], pnames), render(s["s"], env, s.get("sty2", s["sty"]), pnames))]
    if k == "addr":
        return ["%s%s = &%s;" % (ind, render(s["p"], env, {}, pnames), render(s["t"], env, s["sty"], pnames))]
    if k == "rd":
        es = [render(a, env, st, pnames) for a, st in zip(s["as"], s["stys"])]
        if s["form"] == "plain":
            return ["%sprintln(%d, %s);" % (ind, s["id"], ", ".join(es))]
        if s["form"] == "interp":
            return ['%sprintln("%d %s");' % (ind, s["id"], " ".join("{%s}" % e for e in es))]
        out = []
        for j, e in enumerate(es):
            out.append("%s%s t%d_%d = %s;" % (ind, cb_type(env.typeof(s["as"][j])), s["id"], j, e))
        out.append("%sprintln(%d, %s);" % (ind, s["id"], ", ".join("t%d_%d" % (s["id"], j) for j in range(len(es)))))
        return out
    raise ValueError(k)


def walk_calls(ops):
    """all call ops of a history, nested ones included (outer before inner)"""
    for o in ops:
        if o["k"] == "call":
            yield o
            for x in walk_calls(o["body"]):
                yield x


def type_map(ops):
    vt = {i: t for i, (_, t) in enumerate(VARS)}
    for o in ops:
        if o["k"] == "decl":
            vt[o["loc"]] = o["ty"]
    for o in walk_calls(ops):
        if o["ret"] and o["ret"]["d"] is None:
            vt[o["ret"]["loc"]] = o["ret"]["ty"]
        for s in o["body"]:
            if s["k"] == "decl":
                vt[s["loc"]] = s["ty"]
    return vt


def name_map(ops):
    """location -> pool name of the callee locals that have one"""
    out = {o["ret"]["loc"]: o["ret"]["name"] for o in walk_calls(ops)
           if o["ret"] and o["ret"]["d"] is None and o["ret"].get("name")}
    for o in walk_calls(ops):
        for s in o["body"]:
            if s["k"] == "decl" and s.get("name"):
                out[s["loc"]] = s["name"]
    return out


def is_rec_fn(o):
    return bool(o.get("rec")) or any(s["k"] == "call" and s.get("rec") for s in o["body"])


def to_cb(case):
    ops = case["ops"]
    vt = type_map(ops)
    names = name_map(ops)
    env0 = TypeEnv(vt, names=names)
    funcs, methods = [], {"P": [], "In": [], "Q": []}

    def r_call(o, envc, pnc, ind, depth=0, chain=None):
        """text of the call statement; the callee's definition is registered in funcs / methods (its own callees first).
        Parameters carry their generated names (p["name"]); stored cases without names: q<i> in a callee called from
        main and r<i> in a callee called from a callee (case["same_names"]: q<i> everywhere).
        A call flagged rec re-invokes the function of the enclosing call: ONE function whose body is a switch over an
        extra last parameter `int lv` (one branch per invocation; the argument is a literal) - real recursion."""
        prm = o["params"]
        is_m = prm[0]["mode"] == "self"
        pt, pn, decls, args = [], [], [], []
        q = "r" if depth and not case.get("same_names") else "q"
        for i, p in enumerate(prm):
            md, ty = p["mode"], p["ty"]
            if md == "self":
                pt.append(ty); pn.append("self")
                continue
            nm = p.get("name") or "%s%d" % (q, i)
            pn.append(nm)
            if md in ("ptr", "pval"):
                pt.append("*" + ty); decls.append("%s* %s" % (ty, nm))
                args.append(("&" if md == "ptr" else "") + render(p["arg"], envc, p["sty"], pnc))
            elif md == "ref":
                pt.append(ty); decls.append("%s& %s" % (cb_type(ty), nm)); args.append(render(p["arg"], envc, p["sty"], pnc))
            else:
                pt.append(ty); decls.append("%s %s" % (cb_type(ty), nm)); args.append(render(p["arg"], envc, p["sty"], pnc))
        env = TypeEnv(vt, pt, names)
        recf = is_rec_fn(o)
        lv = None
        if recf:
            if not o.get("rec") or chain is None:
                chain = {"n": 0, "branches": []}
            lv = chain["n"]
            chain["n"] += 1
        body = []
        for s in o["body"]:
            if s["k"] == "call":
                body += r_call(s, env, pn, "  ", depth + 1, chain if s.get("rec") else None)
            elif s["k"] == "decl":
                body.append("  %s %s = %s;" % (cb_type(s["ty"]), names.get(s["loc"]) or "c%d" % s["loc"],
                                               render(s["s"], env, s["sty"], pn)))
            else:
                body += r_sop(s, env, pn, "  ")
        ret = o["ret"]
        rty = "void"
        if ret:
            rty = cb_type(ret["ty"])
            body.append("  return %s;" % render(ret["e"], env, ret["sty"], pn))
        elif o.get("exit") == "ret":
            body.append("  return;")
        name = ("m%d" if is_m else "f%d") % o["fid"]
        if recf:
            chain["branches"].append((lv, body))
            args.append(str(lv))
            if lv == 0:                      # the outermost invocation: emit the function (all branches are known now)
                decls = decls + ["int lv"]
                body = []
                for l, b in sorted(chain["branches"], key=lambda x: x[0]):
                    body.append("  if (lv == %d) {" % l)
                    body += ["  " + x for x in b]
                    body.append("  }")
        if is_m:
            if not recf or lv == 0:
                sig = "%s %s(%s)" % (rty, name, ", ".join(decls))
                methods[prm[0]["ty"]].append((sig, body))
            ra = prm[0]["arg"]
            if ra[0] == "d" and prm[0]["sty"].get("arrow", True):
                callee = "%s->%s" % (render(ra[1], envc, prm[0]["sty"], pnc), name)
            else:
                callee = "%s.%s" % (render(ra, envc, prm[0]["sty"], pnc), name)
        else:
            if not recf or lv == 0:
                funcs.append("%s %s(%s) {\n%s\n}" % (rty, name, ", ".join(decls), "\n".join(body)))
            callee = name
        ce = "%s(%s)" % (callee, ", ".join(args))
        if not ret:
            return ["%s%s;" % (ind, ce)]
        if ret["d"] is None:
            return ["%s%s %s = %s;" % (ind, cb_type(ret["ty"]), names.get(ret["loc"]) or "c%d" % ret["loc"], ce)]
        return ["%s%s = %s;" % (ind, render(ret["d"], envc, ret.get("sty2", {}), pnc), ce)]

    main = []
    for o in ops:
        k = o["k"]
        if k in ("w", "cp", "addr", "rd"):
            main += r_sop(o, env0, None, "  ")
        elif k == "nop":
            pass
        elif k == "decl":
            main.append("  %s c%d = %s;" % (o["ty"], o["loc"], render(o["s"], env0, o["sty"])))
        elif k == "call":
            main += r_call(o, env0, None, "  ")
    out = ["struct In { int v; int w; };", "struct P { int s; In inner; int[3] arr; };",
           "struct Q { int %s; string t; double d; };" % STRUCTS["Q"][0][0]]
    for ty in ("In", "P", "Q"):
        if methods[ty]:
            out.append("interface M%s {" % ty)
            out += ["  %s;" % sig for sig, _ in methods[ty]]
            out.append("};")
            out.append("impl M%s for %s {" % (ty, ty))
            for sig, body in methods[ty]:
                out.append("  %s {" % sig)
                out += ["  " + b for b in body]
                out.append("  }")
            out.append("};")
    out.append("int i0 = 0; int i1 = 1; int i2 = 2;")
    decls = []
    for n, t in VARS:
        if t.startswith("*"):
            decls.append("%s %s = nullptr;" % (cb_type(t), n))
        else:
            decls.append("%s %s;" % (cb_type(t), n))
    if case.get("place") == "global":
        out += decls
        out += funcs
        out.append("void main() {")
    else:
        out += funcs
        out.append("void main() {")
        out += ["  " + d for d in decls]
    # an unassigned string member prints as the empty string: the zero of the model is the text "0"
    for n, t in (VARS if case.get("strings") else []):
        for pth in leaves(t):
            a, ty = n, t
            for kk in pth:
                lab, ty = children(ty)[kk]
                a += ("[%d]" % lab) if isinstance(lab, int) else ("." + lab)
            if ty == "str":
                out.append('  %s = "0";' % a)
    out += main
    out.append("}")
    return "\n".join(out) + "\n"


def parse_transcript(stdout):
    out = []
    for l in stdout.split("\n"):
        l = l.strip()
        if not l:
            continue
        try:
            out.append([int(float(x)) if re.match(r"^-?\d+\.\d+$", x) else int(x) for x in l.split()])
        except ValueError:
            out.append(["?", l[:80]])
    return out


# ------------------------------------------------------------------ shrinking
def op_alloc(o):
    if o["k"] == "decl":
        return 1
    if o["k"] == "call":
        return len(o["params"]) + (1 if o["ret"] and o["ret"]["d"] is None else 0) + \
            sum(op_alloc(x) for x in o["body"] if x["k"] in ("call", "decl"))
    if o["k"] == "nop":
        return o["alloc"]
    return 0


def case_sigs(case):
    out = []
    for o in case["ops"]:
        out += o.get("sigs", [])
    return sorted(set(out))


def locs_consistent(case):
    """the location numbers stored in the case (declared copies, results kept in fresh variables) are the ones the
    model allocates (every parameter, declaration and fresh result allocates one location, in execution order)"""
    n = [NV]

    def call(o):
        n[0] += len(o["params"])
        for s in o["body"]:
            if s["k"] == "call" and not call(s):
                return False
            if s["k"] == "decl":
                if s.get("loc") != n[0]:
                    return False
                n[0] += 1
        if o["ret"] and o["ret"]["d"] is None:
            if o["ret"].get("loc") != n[0]:
                return False
            n[0] += 1
        return True
    for o in case["ops"]:
        if o["k"] == "decl":
            if o.get("loc") != n[0]:
                return False
            n[0] += 1
        elif o["k"] == "nop":
            n[0] += o["alloc"]
        elif o["k"] == "call" and not call(o):
            return False
    return True


def resig_call(o):
    o["sigs"] = [p["sig"] for p in o["params"]]
    for s in o["body"]:
        if s["k"] == "call":
            resig_call(s)
        o["sigs"] += s["sigs"]
    if o["ret"]:
        o["sigs"] += o["ret"]["sigs"]


def shrink_case(case, fails, budget=400):
    """greedy deletion (ops -> nop keeping the location numbering, callee body statements incl. those of nested
    calls, single read expressions, returned values) while `fails(case)` stays true."""
    cur = copy.deepcopy(case)
    used = [0]

    def test(c):
        if used[0] >= budget:
            return False
        if not locs_consistent(c):
            return False
        used[0] += 1
        sh = shadow_run(c, True)
        if sh and sh[-1] and sh[-1][0] == "ERR":
            return False
        try:
            to_cb(c)
        except (KeyError, IndexError, AssertionError):
            return False            # refers to a variable whose declaration was removed
        return fails(c)

    def calls_of(c, i):
        o = c["ops"][i]
        return list(walk_calls([o])) if o["k"] == "call" else []

    changed = True
    while changed and used[0] < budget:
        changed = False
        # chunks of ops first, then single ops
        for size in (8, 4, 2, 1):
            i = 0
            while i < len(cur["ops"]):
                seg = cur["ops"][i:i + size]
                if all(o["k"] == "nop" for o in seg):
                    i += size
                    continue
                cand = copy.deepcopy(cur)
                cand["ops"][i:i + size] = [{"k": "nop", "alloc": op_alloc(o)} for o in seg]
                if test(cand):
                    cur = cand
                    changed = True
                i += size
        for i, o in enumerate(cur["ops"]):
            # body statements and returned values of the call and of its nested calls (inner bodies first)
            ci = len(calls_of(cur, i)) - 1
            while ci >= 0:
                j = 0
                while ci < len(calls_of(cur, i)) and j < len(calls_of(cur, i)[ci]["body"]):
                    cand = copy.deepcopy(cur)
                    del calls_of(cand, i)[ci]["body"][j]
                    if test(cand):
                        cur = cand
                        changed = True
                    else:
                        j += 1
                if ci < len(calls_of(cur, i)):
                    cc = calls_of(cur, i)[ci]
                    if cc["ret"] and cc["ret"]["d"] is not None and not is_rec_fn(cc):
                        cand = copy.deepcopy(cur)
                        calls_of(cand, i)[ci]["ret"] = None
                        if test(cand):
                            cur = cand
                            changed = True
                ci -= 1
            # single read expressions
            def rds(c):
                oo = c["ops"][i]
                if oo["k"] == "rd":
                    return [oo]
                return [x for cc in calls_of(c, i) for x in cc["body"] if x["k"] == "rd"]
            for si in range(len(rds(cur))):
                j = 0
                while len(rds(cur)[si]["as"]) > 1 and j < len(rds(cur)[si]["as"]):
                    cand = copy.deepcopy(cur)
                    t = rds(cand)[si]
                    for key in ("as", "stys", "sigs"):
                        del t[key][j]
                    if test(cand):
                        cur = cand
                        changed = True
                    else:
                        j += 1
    # refresh per-op signature lists of calls
    for o in cur["ops"]:
        if o["k"] == "call":
            resig_call(o)
    cur["ops"] = [o for i, o in enumerate(cur["ops"])
                  if not (o["k"] == "nop" and o["alloc"] == 0)]
    return cur


# ------------------------------------------------------------------ extracted model (bin/c07_model)
def ser_val(v):
    if isinstance(v, list):
        return "G %d %s" % (len(v), " ".join(ser_val(c) for c in v))
    if v is None:
        return "N"
    return "I %d" % v


def ser_aexp(a):
    if a[0] == "v":
        return "V %d" % a[1]
    if a[0] == "par":
        return "R %d" % a[1]
    if a[0] == "f":
        return "F %d %s" % (a[2], ser_aexp(a[1]))
    return "D " + ser_aexp(a[1])


def ser_sop(s):
    k = s["k"]
    if k == "w":
        return "W %s %d" % (ser_aexp(s["a"]), s["z"])
    if k == "cp":
        return "C %s %s" % (ser_aexp(s["d"]), ser_aexp(s["s"]))
    if k == "addr":
        return "A %s %s" % (ser_aexp(s["p"]), ser_aexp(s["t"]))
    return "P %d %d %s" % (s["id"], len(s["as"]), " ".join(ser_aexp(a) for a in s["as"]))


MODE_CH = {"val": "v", "pval": "v", "ptr": "p", "ref": "r", "arr": "a", "self": "s"}


def ser_call(o):
    ps = " ".join("%s %s" % (MODE_CH[p["mode"]], ser_aexp(p["arg"])) for p in o["params"])
    body = " ".join((ser_call(s) if s["k"] == "call" else ("L " + ser_aexp(s["s"])) if s["k"] == "decl" else ser_sop(s))
                    for s in o["body"])
    r = o["ret"]
    if not r:
        ret = "0"
    elif r["d"] is None:
        ret = "1 " + ser_aexp(r["e"])
    else:
        ret = "2 %s %s" % (ser_aexp(r["e"]), ser_aexp(r["d"]))
    return "K %d %s %d %s %s" % (len(o["params"]), ps, len(o["body"]), body, ret)


def ser_op(o):
    k = o["k"]
    if k in ("w", "cp", "addr", "rd"):
        return "S " + ser_sop(o)
    if k == "nop":
        return "Z %d" % o["alloc"]
    if k == "decl":
        return "L " + ser_aexp(o["s"])
    return ser_call(o)


def ser_case(case):
    h0 = [zero(t) for _, t in VARS]
    return "H %d %s O %d %s" % (len(h0), " ".join(ser_val(v) for v in h0), len(case["ops"]),
                                 " ".join(ser_op(o) for o in case["ops"]))


def model_run(cases):
    """[(spec transcript, mech transcript)] from the extracted Coq model; a transcript is a list of int lists,
    ending with ['ERR'] when the model could not execute some statement"""
    lines = common.run_model(PROP, "run", [ser_case(c) for c in cases], timeout=900)
    if len(lines) != 2 * len(cases):
        raise RuntimeError("c07_model: %d output lines for %d cases" % (len(lines), len(cases)))

    def parse(l, tag):
        assert l.startswith(tag + " "), l[:40]
        _, ok, rest = (l.split(" ", 2) + [""])[:3]
        tr = [[int(x) for x in seg.split()] for seg in rest.split("|") if seg.strip()]
        if ok != "1":
            tr.append(["ERR"])
        return tr
    return [(parse(lines[2 * i], "S"), parse(lines[2 * i + 1], "M")) for i in range(len(cases))]


def norm_shadow(tr):
    return [(["ERR"] if l and l[0] == "ERR" else l) for l in tr]


# ------------------------------------------------------------------ the agreeing fragment
# Every rule excludes a family of access forms on which the pinned implementation does not behave like the
# location+path store (genuine defects, crashes, or forms it rejects). (finding id, regex on the form signature
# "<ctx M|F|S><place G|L>|<role>|<expr>|<style>"). known_findings/C07.json holds one minimal replay per id.
AVOID = [
    # --- struct arrays
    ("C07-structarray-elem-whole", r"\|(decl|cp[ds]|retd?|addr|argptr)\|(PS|ES)\[\]|\|recv\|PS\[\]"),
    ("C07-structarray-elem-array-member-rejected", r"\|PS\[\]\.arr"),
    ("C07-structarray-param", r"\|argarr\|(PS|ES)|par<arr (PS|ES)>"),
    # --- pointers
    ("C07-pointer-to-member", r"\|(addr|argptr)\|(?!(P|In|Q|int|A3\[\])\|)"),
    ("C07-arrow-array-member-rejected", r"\*\([^)]*\)\.arr\[\]"),
    ("C07-arrow-nested-write-rejected", r"\|(w|retdi)\|\*\([^)]*\)\.inner\."),
    ("C07-deref-whole-struct", r"\|(decl|cp[ds]|argval|retd?)\|\*\("),
    # --- whole-struct copies (whole copies / declaration copies of P and `x.inner = y.inner`, `In c = x.inner` are in the main
    #     stream since the repairs 1608427, f1b3774 and
    #     6bf51ec; what is left of the nested-struct rule: results, arguments, receivers, pointers)
    ("C07-array-member-assign-noop", r"\|cp[ds]\|.*arr\|"),
    ("C07-nested-struct-whole", r"\|(retd?|argval|recv|addr|argptr)\|.*\.inner\|"),
    ("C07-callee-param-struct-copy", r"^[FSETU].\|(cp[ds]|retd)\|par<|\|ret\|par<(ref|arr)"),
    ("C07-decl-copy-of-ref-param-zeroed", r"\|decl\|par<ref"),
    # --- references / by-value parameters / self
    ("C07-ref-array-member-write-lost", r"\|(w|retdi)\|par<ref P>\.arr\[\]"),
    ("C07-ref-nested-write-rejected", r"\|(w|retdi)\|par<ref P>\.inner\."),
    ("C07-method-wipes-members", r"\|recv\|(P\||par<\w+ P>|\*\([^)]*=>P\))"),
    ("C07-method-on-ref-param-rejected", r"\|recv\|par<ref"),
    ("C07-self-by-value-arg-rejected", r"\|argval\|par<self"),
    ("C07-ref-param-passed-by-value-aliases", r"\|argval\|par<ref"),
    ("C07-self-passed-by-reference-no-writethrough", r"\|arg(ref|ptr)\|par<self"),
    ("C07-nested-member-dest-call-result-lost", r"\|retdi\|.*\.inner\."),
    ("C07-ref-member-dest-call-result-misplaced", r"\|retdi\|par<ref \w+>\."),
    ("C07-self-call-return-exit-write-lost", r"\|recv\|par<self [^|]*\|.*R"),
    ("C07-array-element-dest-call-evaluated-twice", r"\|retdi\|.*\[\]"),
    ("C07-self-writethrough-stale", r"^[STU].\|[^|]*\|(In|P|Q|PS|ES)|^[STU].\|[^|]*\|\*\("),
    # --- string members as destinations of call results
    ("C07-string-call-result-dest-lost", r"\|retdi\|(?!Q\.t\|)[^|]*\.t\|"),
    # --- members of floating type
    ("C07-double-member", r"\.d\|"),
    # --- NAMES (the implementation looks variables up by name through the whole dynamic scope chain)
    ("C07-arg-evaluated-in-callee-scope", r"/[^|]*@"),
    ("C07-ref-param-name-clash", r"\|par<ref [^|]*\|[^|/=]*(#(?![^|/]*=)[^|/]*?(?<=[gmc])(In|P|Q|ES|PS)\b|\^[^|/]*?(?<=[\^,])(In|P|Q|ES|PS)\b)"),
    ("C07-pointer-write-target-shadowed", r"\|(w|retdi?|cpd|recv)\|[^|]*\*\([^|]*\|[^|/]*\^[^|/]*?(?<=[\^,])(In|P|Q|ES|PS)\b"),
    ("C07-dynamic-scope-captures-global", r"\|[^|]*%[^|]*$"),
    ("C07-ptr-param-receiver-name-clash",
     r"\|recv\|\*\(par<p(tr|val) \*(In|Q)>[^|]*\|[^|/]*#(?![^|/]*=)[^|/]*?(?<=[gmc])(In|ES|Q)\b"),
    ("C07-self-write-receiver-shadowed", r"\|(w|retdi?)\|par<self [^|]*\|[^|/]*\^[^|/]*?(?<=[\^,])(In|P|Q|ES|PS)\b|\|decl\|[^|]*\|[^|]*!"),
    # --- documented / front-end restrictions (not defects): T& and T[n] arguments must be plain variables,
    #     a member expression cannot be passed to a struct parameter
    ("restriction-ref-arg-plain-variable", r"\|argref\|.*[.\[*]"),
    ("restriction-array-arg-plain-variable", r"\|argarr\|.*[.\[*]"),
    ("restriction-string-arg-plain-variable", r"\|argstr\|.*[.\[*]"),
]
_AVOID_RE = [(fid, re.compile(rx)) for fid, rx in AVOID]


def avoid_id(sig):
    for fid, rx in _AVOID_RE:
        if rx.search(sig):
            return fid
    return None


# Strings: after ANY evaluation of a string-typed expression, a later read of a non-string cell through a pointer
# (p->v, ( *p).v) returns that string (stale last_typed_result, evaluator/access/special.cpp) - recorded as
# C07-arrow-read-after-string-stale.  The state is global and survives statements, so a history is either
# string-free (no access to the string member Q.t at all: allow_main) or string-enabled (Q.t in play, but no READ of a
# non-string cell through a pointer: allow_str).
_STR_EXPR = re.compile(r"\.t\|[^|]*$")
_PTR_READ = re.compile(r"\|(r-[a-z]+|reti|argint|argstr)\|[^|]*\*\(")


def allow_main(sig):
    return avoid_id(sig) is None and not _STR_EXPR.search(sig)


def allow_str(sig):
    if avoid_id(sig) is not None:
        return False
    return not (_PTR_READ.search(sig) and not _STR_EXPR.search(sig))


# ------------------------------------------------------------------ hand-written cases (known findings, corpus)
class Build:
    """Small builder for hand-written histories: computes locations and form signatures like the generator."""

    def __init__(self, place="local"):
        self.g = Gen(random.Random(0), lambda s: True, place)
        self.sty = {"arrow": True, "ivar": False}

    def v(self, name):
        for i, (n, _) in enumerate(VARS):
            if n == name:
                return ("v", i)
        if name.startswith("c"):
            return ("v", int(name[1:]))
        raise KeyError(name)

    def path(self, text, pnames=None):
        """'a.inner.v' 'ps[1].s' '*pp' 'pp->s' 'q0.arr[1]' 'self.v' '(*q0).s' -> access expression"""
        t = text.replace("->", "~")
        m = re.match(r"^\(?\*([A-Za-z0-9_]+)\)?(.*)$", t)
        if m:
            base = ("d", self._root(m.group(1)))
            rest = m.group(2)
        else:
            m = re.match(r"^([A-Za-z0-9_]+)(.*)$", t)
            base = self._root(m.group(1))
            rest = m.group(2)
        env = TypeEnv(self.g.tyall, self._pt)
        for tok in re.findall(r"~[a-z]+|\.[a-z]+|\[\d\]", rest):
            if tok[0] == "~":
                base = ("d", base)
                tok = "." + tok[1:]
            ty = env.typeof(base)
            if tok[0] == "[":
                base = ("f", base, int(tok[1]))
            else:
                names = [n for n, _ in STRUCTS[ty]]
                base = ("f", base, names.index(tok[1:]))
        return base

    _pt = ()
    _pn = ()

    def _root(self, name):
        if name in self._pn:
            return ("par", list(self._pn).index(name))
        for loc, nm in self.g.lnames.items():
            if nm == name and loc in self.g.locals:
                return ("v", loc)
        return self.v(name)

    def _sig(self, ctx, role, a, fr=(), pmodes=None):
        return self.g.sig(ctx, role, a, TypeEnv(self.g.tyall, self._pt), list(fr), pmodes, self.sty)

    def _sop(self, ctx, spec, fr=(), pmodes=None):
        k = spec[0]
        if k == "w":
            a = self.path(spec[1])
            return {"k": "w", "a": a, "z": spec[2], "sty": self.sty, "sigs": [self._sig(ctx, "w", a, fr, pmodes)]}
        if k == "cp":
            d, s = self.path(spec[1]), self.path(spec[2])
            ty = TypeEnv(self.g.tyall, self._pt).typeof(d)
            return {"k": "cp", "d": d, "s": s, "ty": ty, "sty": self.sty, "sty2": self.sty,
                    "sigs": [self._sig(ctx, "cpd", d, fr, pmodes), self._sig(ctx, "cps", s, fr, pmodes)]}
        if k == "addr":
            p, t = self.path(spec[1]), self.path(spec[2])
            return {"k": "addr", "p": p, "t": t, "sty": self.sty, "sigs": [self._sig(ctx, "addr", t, fr, pmodes)]}
        if k == "rd":
            form = spec[2] if len(spec) > 2 else "plain"
            es = [self.path(x) for x in spec[1]]
            self.g.next_id += 1
            return {"k": "rd", "id": self.g.next_id, "as": es, "form": form, "stys": [self.sty] * len(es),
                    "sigs": [self._sig(ctx, "r-" + form, a, fr, pmodes) for a in es]}
        raise ValueError(k)

    def op(self, *spec):
        self.g.emit(self._sop("M", spec))
        return self

    def decl(self, src, ty):
        a = self.path(src)
        self.g.emit({"k": "decl", "s": a, "ty": ty, "sty": self.sty, "sigs": [self._sig("M", "decl", a)]})
        return self

    def _call(self, params, body, ret, exit_, frc, pmc, ctxc, depth, rec_fid=None):
        g = self.g
        outer_pt, outer_pn = self._pt, self._pn
        ps, pt, pm, pn = [], [], [], []
        named = any(len(x) > 3 for x in params)       # explicit parameter names: (mode, type, arg, name)
        for i, x in enumerate(params):
            mode, ty, arg = x[:3]
            a = self.path(arg)
            role = {"self": "recv", "pval": "argpval"}.get(mode, "arg" + ty if ty in SCALARS and mode == "val" else "arg" + mode)
            ps.append({"mode": mode, "ty": ty, "arg": a, "sty": self.sty, "sig": self._sig(ctxc, role, a, frc, pmc)})
            pt.append(("*" + ty) if mode in ("ptr", "pval") else ty)
            pm.append(mode)
            pn.append("self" if mode == "self" else x[3] if len(x) > 3 else ("r%d" if depth and named else "q%d") % i)
        knew = len(g.frames)
        for i, prm in enumerate(ps):
            if prm["mode"] == "self":
                continue
            if named:
                prm["name"] = pn[i]
            fl = "/"
            cl = g.clash(pn[i], knew) if named else ""
            if cl:
                fl += "#" + cl
            rn = g.root_name(prm["arg"])
            if named and rn in pn[:i]:
                fl += "@"
            elif named and rn in pn[i + 1:]:
                fl += "&"
            elif named and rn == pn[i]:
                fl += "="
            if fl != "/":
                prm["sig"] += fl
        call = {"k": "call", "fid": rec_fid if rec_fid is not None else g.next_fid, "params": ps, "body": [], "ret": None,
                "exit": exit_, "sigs": [p["sig"] for p in ps]}
        if rec_fid is not None:
            call["rec"] = True
        else:
            g.next_fid += 1
        saved, saved_pn, saved_locals = g.sh, g.cur_pn, g.locals
        n0 = len(g.sh.h)
        trial = copy.deepcopy(g.sh)
        fr, _, _ = trial.bind(ps, list(frc))
        # (unnamed parameters of a callee called from a callee are printed r<i>: the body specs still say q<i>)
        fn = pn if named or not depth else [("r" + nm[1:]) if nm != "self" else nm for nm in pn]
        g.sh, g.cur_pn, g.locals = trial, fn, {}
        g.frames.append({nm: ft for nm, ft in zip(fn, pt)})
        for i, nm in enumerate(fn):
            g.locname[n0 + i] = (nm, knew)
        self._pt, self._pn = pt, pn
        is_m = pm[0] == "self"
        ctx = (("T" if is_m else ("U" if ctxc in ("S", "T", "U") else "E")) if depth else ("S" if is_m else "F"))
        for spec in body:
            if spec[0] in ("call", "rec"):
                nc = self._call(spec[1], spec[2], spec[3] if len(spec) > 3 else None,
                                spec[4] if len(spec) > 4 else "fall", fr, pm, ctx, depth + 1,
                                rec_fid=call["fid"] if spec[0] == "rec" else None)
                self._pt, self._pn = pt, pn
                trial.call(nc, fr, ())
                if nc["ret"] and nc["ret"]["d"] is None:
                    rl = len(trial.h) - 1
                    nc["ret"]["loc"] = rl
                    g.tyall[rl] = g.locals[rl] = nc["ret"]["ty"]
                    lname = nc["ret"].get("name")
                    if lname:
                        g.lnames[rl] = lname
                    g.frames[-1][lname or "c%d" % rl] = nc["ret"]["ty"]
                    g.locname[rl] = (lname or "c%d" % rl, knew)
                call["body"].append(nc)
                call["sigs"] += nc["sigs"]
                continue
            if spec[0] == "decl":                  # ("decl", source path, type[, name])
                a = self.path(spec[1])
                rl = len(trial.h)
                lname = spec[3] if len(spec) > 3 else None
                cl = g.clash(lname, knew) if lname else ""
                s = {"k": "decl", "s": a, "ty": spec[2], "sty": self.sty, "loc": rl,
                     "sigs": [self._sig(ctx, "decl", a, fr, pm) + (("/#" + cl) if cl else "")]}
                if lname and pm and pm[0] == "self" and g.locname.get(trial.resolve(("par", 0), fr)[0], ("",))[0] == lname:
                    s["sigs"][0] += "!"
                trial.h.append(trial.read(trial.resolve(a, fr)))
                g.tyall[rl] = g.locals[rl] = spec[2]
                if lname:
                    s["name"] = lname
                    g.lnames[rl] = lname
                g.frames[-1][lname or "c%d" % rl] = spec[2]
                g.locname[rl] = (lname or "c%d" % rl, knew)
                call["body"].append(s)
                call["sigs"] += s["sigs"]
                continue
            s = self._sop(ctx, spec, fr, pm)
            trial.sop(s, fr)
            call["body"].append(s)
            call["sigs"] += s["sigs"]
        if ret or exit_ == "ret":
            for prm in ps:
                prm["sig"] += "R"
            call["sigs"] = [prm["sig"] for prm in ps] + call["sigs"][len(ps):]
        if ret:
            e = self.path(ret[0])
            role = "reti" if ret[2] in SCALARS else "ret"
            r = {"e": e, "d": None, "ty": ret[2], "sty": self.sty, "sigs": [self._sig(ctx, role, e, fr, pm)]}
            if len(ret) > 3:
                r["name"] = ret[3]              # pool name of the fresh local that receives the result
            self._pt, self._pn = outer_pt, outer_pn
            g.sh, g.cur_pn, g.locals = saved, saved_pn, saved_locals
            g.frames.pop()
            g.frames.append({})
            if ret[1] is not None:
                d = self.path(ret[1])
                r["d"] = d
                r["sty2"] = self.sty
                r["sigs"].append(self._sig(ctxc, role.replace("ret", "retd"), d, frc, pmc))
            call["ret"] = r
            call["sigs"] += r["sigs"]
        self._pt, self._pn = outer_pt, outer_pn
        g.sh, g.cur_pn, g.locals = saved, saved_pn, saved_locals
        g.frames.pop()
        return call

    def call(self, params, body, ret=None, exit_="fall"):
        """params: [(mode, type, 'arg path')]; body: statement specs using q0.. / self, or nested calls
        ("call", params, body[, ret[, exit]]) whose arguments use the enclosing callee's names;
        ret: (expr, dest|None, type); exit_: 'fall' | 'ret' (a void callee ending in `return;`)"""
        self.g.emit(self._call(params, body, ret, exit_, (), None, "M", 0))
        return self

    def case(self):
        return {"place": self.g.place, "ops": self.g.ops}


# ------------------------------------------------------------------ the check
META = {
    "category": "proof",
    "technique": "Coq proofs over a location+path store (frame, copy independence, alias visibility over arbitrary histories; "
                 "refinement copy-in/write-through/copy-back = aliasing under an executable exclusivity condition, refuted without it) "
                 "+ extracted-model differential run against the real interpreter on generated histories",
    "text": "Machine-checked theorems about a Gallina store in which struct members and array elements are children of a tree per "
            "location and &x, T&, array parameters and self denote location+path: a write changes exactly the addressed cell "
            "(also lifted to arbitrary histories of statements, declarations and calls through footprints), after b = a no history that "
            "stays out of b changes any read under b and vice versa, two access paths to one cell always read the same value, a write "
            "through any path (name, member path, element, dereference, arrow, T&, array parameter, self, T*) is read back through every "
            "other path once the statement/call completes. One mechanism of the code is mirrored: array parameters and self are "
            "copy-in / write-through / copy-back (call_impl.cpp, cleanup.cpp:155, statement_executor.cpp:720); it is PROVED equal to "
            "aliasing (same transcript, same caller-visible heap) for every heap, parameter list and deref-free callee body that "
            "satisfies the executable exclusivity condition call_ok, and REFUTED without it (three witnesses, confirmed on the binary). "
            "Also proved: the same visibility for EVERY receiver/argument expression (c.m(), p->m(), (*p).m()) and EVERY exit form of "
            "the callee (falls off the end, return into a fresh variable, return into a destination), for a method invoked by a "
            "function that received &c (calls made from inside a callee body are part of the model: exec_call_in / OCall2, a "
            "conservative extension), and the refinement copy-back = aliasing for arguments containing dereferences (normalisation). "
            "Calls nest to ANY depth in the model (rstmt / exec_rstmt / OCallR: recursion, callee-local declarations `T c = e;`), a "
            "conservative extension again; proved for it: the frame law (so write_frame_history / copy_independent range over such "
            "histories), BY-VALUE ISOLATION AT EVERY DEPTH (byval_calls_private: a call passing everything by value whose body - and "
            "the bodies of all calls it makes, to any depth, by-value recursion f(C v) -> f(v) included - write only through their own "
            "parameters and locals leaves EVERY location that existed before unchanged: the caller's variables and the copies owned by "
            "every outer level; a parameter is its location, names play no role) and BY-REFERENCE RECURSION (alias_visible_recursion: a "
            "write at the bottom of n levels of f(C& v){ f(v); } is visible in the caller through every path). "
            "Tie on every run: random histories (<= 60 ops quick) of scalar writes through random access paths, aggregate copies, "
            "pointer retargeting, declarations, calls of functions and methods with generated callee bodies (by value, T&, T*, array "
            "parameter, self; receivers by name, p->, (*p)., struct-array element, parameter, self; int/string extra parameters; "
            "calls from callee bodies nested 3 levels deep, RECURSION (the same function re-invoked with its own parameter passed on "
            "by value / T& / T* / as array; a write through the own parameters before and reads after the inner call at each level), "
            "callee-local struct declarations; PARAMETER AND CALLEE-LOCAL NAMES DRAWN FROM THE NAMES OF THE CALLER'S / GLOBAL VARIABLES "
            "(same type, other type) and of the enclosing callees' parameters, so that a name coincidence occurs in most programs (the "
            "implementation resolves names through the whole dynamic scope chain); "
            "exits: falling off the end, `return;`, `return e;` with int, string or struct results "
            "into a destination or a fresh variable) and reads of cells through every available path (plain, string interpolation, "
            "temporary; after calls: every cell the callee could reach) over an object graph (struct with scalar, nested-struct and "
            "array members, struct arrays, flat structs with int/string/double members, int arrays, four pointers), printed as Cb "
            "programs and run on main built from the current tree; the transcript must equal the extracted model's. A conflict stream "
            "(array parameters and self receivers by name / p-> / (*p). x three exits, callee also using the global name) makes "
            "main follow the modelled copy-back mechanism where it differs from aliasing. The generator stays inside the fragment "
            "where main and the model agree; every excluded family of forms is a recorded known finding (49 entries) that is "
            "replayed on every run; 5 findings were repaired in the code (nested members of by-value struct parameters, x.inner = "
            "y.inner, declaration copies and copies of copies of structs with nested / array members): their forms are in the "
            "main stream and their replays are regression tests (fixed_replays).",
    "note": "PARTIAL: the implementation's double representation of struct values (member map + flattened 'a.b.c' variables, "
            "managers/structs/*.cpp) is NOT modelled; the 34 avoidance rules cut away nested-struct members as results / arguments / "
            "receivers / pointer targets, array members as whole values, struct-array elements as whole values, pointers to members, "
            "methods on structs with nested / array members (all defects "
            "of that mechanism) and the name-sensitive forms on which dynamic name lookup goes wrong (7 rules on name-coincidence flags "
            "of the form signatures: argument naming an earlier parameter, T& parameter / pointer-parameter "
            "receiver named like another live struct, global captured by a caller's local, pointer / self write whose target's name is "
            "shadowed). Trusted: Coq kernel (vm_compute for the three witnesses), no axioms (Print Assumptions: closed); "
            "extraction ExtrOcamlBasic+ExtrOcamlString; hand-written model tied by differential testing only; the Python printer of "
            "histories to Cb text and the Python shadow heap (cross-checked against the extracted model on every case). The "
            "refinement theorems cover callee bodies without dereferences, without & and without nested calls (arguments may "
            "dereference); for nested / recursive calls copy-back = aliasing is tested only; a recursive function is printed as ONE "
            "function whose body switches on an extra literal level parameter (printer artefact outside the model); a receiver reached through a pointer is not written "
            "through by the code (model: written through; differs only for by-name reads inside the method, recorded finding); "
            "copy-back order = parameter-name order (std::map): the names of array parameters are assigned in sorted order; "
            "string members and pointer reads of non-string cells never share a history (recorded finding).",
}


def gen_history(seed, k, n, tier, strings=None):
    rng = rng_for(seed, "c07-hist", tier, k)
    place = "global" if rng.random() < 0.5 else "local"
    allow = allow_str if (k % 4 == 3 if strings is None else strings) else allow_main      # every 4th history: string-enabled
    g = Gen(rng, allow, place)
    # a prefix of plain member-wise initialisation (random subset, so that default-zero cells stay in play)
    env = TypeEnv(g.tyall)
    for loc, (_, t) in enumerate(VARS):
        if t.startswith("*"):
            continue
        for p in leaves(t):
            # struct arrays are always initialised member-wise first (known findings C07-uninit-structarray-*)
            # (string members too: an unassigned string prints as the empty string, not as a number);
            # the first member of a and b too: a whole copy FROM a struct that was never accessed leaves the copy's array member
            # without element storage (known finding C07-copy-of-untouched-struct-ref-array-read-crash)
            if t in ("PS", "ES", "Q") or (t == "P" and p == (0,)) or rng.random() < 0.7:
                a = ("v", loc)
                for i in p:
                    a = ("f", a, i)
                st = {"arrow": True, "ivar": False}
                sg = g.sig("M", "w", a, env, [], None, st)
                if allow(sg):
                    g.emit({"k": "w", "a": a, "z": g.val(), "sty": st, "sigs": [sg]})
    n0 = len(g.ops)
    g.history(n0 + n)
    for o in g.read_all(("plain", "plain", "interp")):
        g.emit(o)
    return {"place": place, "ops": g.ops, "origin": "random", "k": k, "strings": allow is allow_str}, g


def _gen_job(args):
    seed, k, ln, tier = args
    c, g = gen_history(seed, k, ln, tier)
    return c, g.avoided


def gen_conflict(seed, k):
    """the callee reaches a copy-in argument also by its global name (Spec != Mech: the *_refuted theorems); the
    implementation must follow Mech.  k % 3 == 0: an array parameter (as before); otherwise the receiver of a
    method - invoked by name, through p-> or through ( *p). - whose body writes/reads members both through self and
    through the receiver's global name, leaving by falling off the end, by `return;` or by `return e;`
    (the three self write-back blocks of call_impl.cpp, one per exit path)"""
    rng = rng_for(seed, "c07-conflict", k)
    b = Build("global")
    if k % 3 == 0:
        arr = rng.choice(["g", "h"])
        for i in range(3):
            b.op("w", "%s[%d]" % (arr, i), b.g.val())
        body = []
        for _ in range(rng.randint(2, 5)):
            r = rng.random()
            root = rng.choice(["q0", arr])
            if r < 0.6:
                body.append(("w", "%s[%d]" % (root, rng.randint(0, 2)), b.g.val()))
            else:
                body.append(("rd", ["q0[%d]" % rng.randint(0, 2), "%s[%d]" % (arr, rng.randint(0, 2))]))
        ex = rng.choice(["fall", "ret", "val"])
        if ex == "val":
            b.call([("arr", "A3", arr)], body, ("q0[%d]" % rng.randint(0, 2), "n", "int"))
        else:
            b.call([("arr", "A3", arr)], body, None, ex)
        b.op("rd", ["%s[0]" % arr, "%s[1]" % arr, "%s[2]" % arr, "n"])
    else:
        recv = rng.choice(["e", "f", "u", "x"])
        isq = recv in ("u", "x")             # Q: an int and a string member (no pointer form: C07-arrow-read-after-string-stale)
        mem = (STRUCTS["Q"][0][0], "t") if isq else ("v", "w")
        for mname in mem:
            b.op("w", "%s.%s" % (recv, mname), b.g.val())
        form = "name" if isq else rng.choice(["name", "arrow", "star"])
        if form != "name":
            b.op("addr", "pin", recv)
        b.sty = {"arrow": form != "star", "ivar": False}
        body = []
        for _ in range(rng.randint(2, 5)):
            r = rng.random()
            root = rng.choice(["self", recv])
            if r < 0.6:
                body.append(("w", "%s.%s" % (root, rng.choice(mem)), b.g.val()))
            elif form == "name":
                body.append(("rd", ["self.%s" % rng.choice(mem), "%s.%s" % (recv, rng.choice(mem))]))
            else:
                # a receiver reached through a pointer is copied in and back but NOT written through
                # (statement_executor.cpp:720 needs the receiver's name): the model's Mech differs from the code on
                # by-name READS inside such a method only (recorded: C07-ptr-receiver-no-writethrough); writes by
                # name and everything through self behave as modelled
                body.append(("rd", ["self.v", "self.w"]))
        ex = rng.choice(["fall", "ret", "val"])
        rpath = recv if form == "name" else "*pin"
        if ex == "val":
            b.call([("self", "Q" if isq else "In", rpath)], body, ("self.%s" % mem[0], "n", "int"))
        else:
            b.call([("self", "Q" if isq else "In", rpath)], body, None, ex)
        rd = ["%s.%s" % (recv, mem[0]), "%s.%s" % (recv, mem[1]), "n"]
        if form != "name":
            rd += ["pin->v", "pin->w"]
        b.op("rd", rd)
    c = b.case()
    c["origin"] = "conflict"
    c["k"] = k
    if k % 3 and isq:
        c["strings"] = True
    return c


def impl_transcript(impl_dir, case, timeout=15):
    rc, o, e = common.run_cb(impl_dir, to_cb(case), timeout=timeout)
    tr = parse_transcript(o)
    err = e.strip().split("\n")[0][:160] if e.strip() else ""
    if rc != 0:
        tr = tr + [["EXIT", rc, re.sub(r"/var/tmp/cbrun-[^/]*/", "", err)]]
    return tr


def nontrivial(case):
    """a history is non-trivial when some access goes through something else than a plain name in main:
    a pointer, a parameter of any mode, self, a whole-aggregate copy, a declaration or a return"""
    return any(("*(" in s) or ("par<" in s) or re.search(r"\|(cp[ds]|decl|retd?|recv|arg[a-z]+)\|", s) for s in case_sigs(case))


def strip(case):
    out = {"place": case["place"], "ops": case["ops"]}
    for flag in ("same_names", "strings"):
        if case.get(flag):
            out[flag] = True
    return out


def run(rep):
    seed, tier = rep.seed, rep.tier
    cq = common.coq_check_props(PROP)
    common.proof_coverage(rep, cq)
    if not cq["ok"]:
        rep.violation("proof", {"theorem": cq["failed_theorem"], "log": cq["log"][-3000:]},
                      "proof obligation %s no longer checks" % cq["failed_theorem"], True)
    common.ensure_model(PROP)
    impl = common.build_impl("plain")

    cases = []
    corpus = os.path.join(common.VERIF, "corpus", "c07.json")
    if os.path.exists(corpus):
        for c in json.load(open(corpus)):
            c = load_case(c)
            c["origin"] = "corpus"
            cases.append(c)
    n_rand = 1600 if tier == "quick" else 60000
    maxlen = 60 if tier == "quick" else 90
    avoided = {}
    n_avoid_total = 0

    jobs = [(seed, k, 8 + (k * 7) % (maxlen - 7), tier) for k in range(n_rand)]
    import concurrent.futures
    with concurrent.futures.ProcessPoolExecutor(max_workers=common.NCPU) as ex:
        for c, av in ex.map(_gen_job, jobs, chunksize=50):
            cases.append(c)
            n_avoid_total += av
    n_conf = 210 if tier == "quick" else 6000
    for k in range(n_conf):
        cases.append(gen_conflict(seed, k))

    # model (extracted from Coq) on every case; Python shadow as a cross-check of the encoding
    mres = model_run([strip(c) for c in cases])
    enc_bad = 0
    for c, (sp, me) in zip(cases, mres):
        if sp != norm_shadow(shadow_run(c, False)) or me != norm_shadow(shadow_run(c, True)):
            enc_bad += 1
            if enc_bad <= 2:
                rep.violation("model-vs-shadow", {"case": strip(c), "model": [sp, me]},
                              "extracted model and Python shadow heap disagree (harness defect, correspondence not established)", True)
        if c["origin"] in ("random", "corpus") and (sp != me or (me and me[-1] == ["ERR"])):
            rep.violation("generator", {"case": strip(c), "spec": sp, "mech": me},
                          "generator left the fragment (Spec != Mech or not executable) - harness defect", True)
    itr = common.pmap(lambda c: impl_transcript(impl, c), cases)

    bad = [(c, m, i) for c, (s_, m), i in zip(cases, mres, itr) if i != m]
    # the interpreter is deterministic: a disagreement that does not persist when the program is run again, alone,
    # was a timeout / truncated pipe under machine load, not a property of the code
    retried = []
    for c, m, i in bad[:200]:
        i2 = impl_transcript(impl, c, timeout=40)
        if i2 == m:
            rep.notes.append("a program disagreed once under load and agreed when re-run alone (first: %s)" % (i[-1:],))
            continue
        retried.append((c, m, i2))
    bad = retried + bad[200:]
    distinct = {}
    hist_roles, hist_origin = {}, {}
    for c in cases:
        key = common.hashlib.sha256(json.dumps(strip(c)["ops"], sort_keys=True, default=list).encode()).hexdigest()
        hist_origin[c["origin"]] = hist_origin.get(c["origin"], 0) + 1
        if key in distinct:
            continue
        distinct[key] = nontrivial(c)
        for s in case_sigs(c):
            ctx, role, ex, fl = s.split("|")
            fam = role + ("*" if "*(" in ex else "") + (":" + re.findall(r"par<(\w+)", ex)[0] if "par<" in ex else "")
            hist_roles[fam] = hist_roles.get(fam, 0) + 1
    nops = sum(len(c["ops"]) for c in cases)
    # calls by receiver/argument form x exit form (the self / array write-back code is triplicated per exit path)
    call_matrix, n_nested = {}, 0
    for c in cases:
        top = [o for o in c["ops"] if o["k"] == "call"]
        for o in walk_calls(c["ops"]):
            if not any(o is t for t in top):
                n_nested += 1
            ex = ("return-value" if o["ret"] else ("return;" if o.get("exit") == "ret" else "falls-off-end"))
            for prm in o["params"]:
                if prm["mode"] == "val":
                    continue
                a = prm["arg"]
                form = {"self": "recv", "arr": "array", "ref": "T&", "ptr": "&arg->T*", "pval": "ptr->T*"}[prm["mode"]]
                if prm["mode"] == "self":
                    form += ":" + ("p->" if a[0] == "d" and prm["sty"].get("arrow", True) else "(*p)." if a[0] == "d"
                                   else "self" if a[0] == "par" and prm["sig"].split("|")[2].startswith("par<self") else
                                   "param" if a[0] == "par" else "name")
                key = "%s / %s" % (form, ex)
                call_matrix[key] = call_matrix.get(key, 0) + 1
    # names and recursion: parameter / callee-local names that coincide with a live variable of a caller / the globals,
    # re-invocations of the enclosing function, nesting depth
    names_cov = {"parameters_named_like_a_live_variable": 0, "of_the_same_type": 0, "named_like_their_own_argument": 0,
                 "named_like_a_parameter_of_an_enclosing_callee": 0, "callee_locals_named_like_a_live_variable": 0,
                 "programs_with_a_name_coincidence": 0, "by_mode": {}}
    rec_cov = {"recursive_invocations": 0, "by_value_struct_or_array_passed_down": 0, "chains_by_depth": {}, "calls_by_depth": {}}

    def depth_walk(o, d, chain):
        rec_cov["calls_by_depth"][str(d)] = rec_cov["calls_by_depth"].get(str(d), 0) + 1
        if o.get("rec"):
            rec_cov["recursive_invocations"] += 1
            if any(p_["mode"] in ("val", "arr") and p_["ty"] in ("P", "In", "Q", "A3") and root_of(p_["arg"])[0] == "par"
                   for p_ in o["params"]):
                rec_cov["by_value_struct_or_array_passed_down"] += 1
        kids = [x for x in o["body"] if x["k"] == "call"]
        rk = [x for x in kids if x.get("rec")]
        if chain and not rk:
            rec_cov["chains_by_depth"][str(chain + 1)] = rec_cov["chains_by_depth"].get(str(chain + 1), 0) + 1
        for x in kids:
            depth_walk(x, d + 1, (chain + 1) if x.get("rec") else 0)
    for c in cases:
        anyc = False
        for o in c["ops"]:
            if o["k"] == "call":
                depth_walk(o, 1, 0)
        for o in walk_calls(c["ops"]):
            for p_ in o["params"]:
                m_ = re.search(r"/#([^|@&=R]*)", p_.get("sig", ""))
                if m_:
                    anyc = True
                    names_cov["parameters_named_like_a_live_variable"] += 1
                    pty = (("p" + p_["ty"]) if p_["mode"] in ("ptr", "pval") else p_["ty"])
                    if any(x[1:] == pty for x in m_.group(1).split(",")):
                        names_cov["of_the_same_type"] += 1
                    if any(x[0] == "c" for x in m_.group(1).split(",")):
                        names_cov["named_like_a_parameter_of_an_enclosing_callee"] += 1
                    if "=" in p_["sig"].split("/")[-1]:
                        names_cov["named_like_their_own_argument"] += 1
                    names_cov["by_mode"][p_["mode"]] = names_cov["by_mode"].get(p_["mode"], 0) + 1
            if o["ret"] and o["ret"].get("name"):
                names_cov["callee_locals_named_like_a_live_variable"] += 1
                anyc = True
        names_cov["programs_with_a_name_coincidence"] += anyc
    sample = cases[len(cases) // 3]
    rep.coverage.update({
        "evaluations": len(cases),
        "distinct_nontrivial": sum(1 for v in distinct.values() if v),
        "rule": "each case = one generated history printed as a Cb program and run on main (current tree) and on the extracted Coq "
                "model; distinct = distinct op lists; non-trivial = some access goes through a pointer, a parameter (by value, T&, T*, "
                "array, self), a whole-aggregate copy, a declaration-copy or a by-value return",
        "operations_total": nops,
        "transcript_lines_compared": sum(len(m) for _, (s_, m) in zip(cases, mres)),
        "input_distribution": {"origin": hist_origin, "forms_by_role": dict(sorted(hist_roles.items())),
                               "max_history_length": maxlen, "placement": "objects global or local to main, 50/50"},
        "avoided_candidate_forms": n_avoid_total,
        "calls_by_argument_form_and_exit": dict(sorted(call_matrix.items())),
        "nested_calls": n_nested,
        "name_coincidences": names_cov,
        "recursion": rec_cov,
        "string_enabled_histories": sum(1 for c in cases if c.get("strings")),
        "fragment": fragment_size(),
        "samples": [{"source": to_cb(sample), "model_transcript": mres[cases.index(sample)][1][:12]},
                    {"ops": [o["k"] for o in cases[-1]["ops"]], "source": to_cb(cases[-1]),
                     "model_spec": mres[-1][0], "model_mech": mres[-1][1], "impl": itr[-1]}],
        "disagreements": len(bad),
    })

    # disagreements that also contradict the aliasing semantics (a concrete failing input of the property) first
    # (main-stream histories have Spec = Mech: every disagreement there contradicts the property's own reading)
    spec_of = {id(c): s_ for c, (s_, m_) in zip(cases, mres)}
    bad.sort(key=lambda b: (b[0].get("origin") == "conflict", b[2] == spec_of.get(id(b[0])), len(b[0]["ops"])))
    for c, m, i in bad[:4]:
        report_disagreement(rep, impl, c)

    # known findings: replay each stored case
    for f in common.known_findings(PROP):
        case = load_case(f["replay"]["case"])
        exp = f["replay"]["expected"]
        (sp, me), = model_run([case])
        got = impl_transcript(impl, case)
        if sp != exp:
            rep.violation("known-" + f["id"], {"case": case, "expected": exp, "model_spec": sp},
                          "stored expectation of known finding %s is not what the proved model computes" % f["id"], True)
        if got != sp:
            rep.known(f["id"], f["what_fails"])
        else:
            rep.notes.append("known finding %s no longer reproduces (fixed?)" % f["id"])
        if f.get("mech_modelled") and got != me:
            rep.violation("known-mech-" + f["id"], {"case": case, "source": to_cb(case), "model_mech": me, "impl": got},
                          "implementation no longer follows the modelled copy-in/write-through/copy-back convention on %s "
                          "(and does not alias either)" % f["id"], no_failing_input=(got == sp))
        if not f.get("mech_modelled") and f["kind"] != "restriction" and \
                not any(avoid_id(s) == f["signature"]["avoid_rule"] for s in case_sigs(case)):
            rep.notes.append("finding %s is not covered by its avoidance rule" % f["id"])
    if tier == "thorough" and hasattr(common, "coqchk"):
        okc, summ = common.coqchk(PROP)
        rep.coverage["coqchk"] = {"ok": okc, "context_summary": summ[:1500]}
        if not okc:
            rep.violation("coqchk", {"output": summ[-3000:]}, "coqchk rejects the compiled C07 development", True)
    rep.assumptions += [
        "the double representation of struct values (member map + flattened variables) is not modelled; the main stream avoids "
        "the forms on which it misbehaves (34 rules, props/c07.py AVOID), each documented by a replayed known finding",
        "the C++ behaves like the model on the fragment: differential testing on generated histories, not proof",
        "Python printer (history -> Cb text) and transcript parser are trusted; the Python shadow heap is cross-checked against the "
        "extracted Coq model on every case",
    ]


def fragment_size():
    """size of the agreeing fragment vs the universe of access-form signatures (measured by enumeration on a
    fixed probe state, not on this run's random stream)"""
    rng = random.Random(12345)
    seen = set()
    for place in ("global", "local"):
        for rep_ in range(60):
            g = Gen(rng, lambda s: (seen.add(s), True)[1], place)
            g.spec_eq_mech = lambda c: True
            g.history(25)
    allowed = sum(1 for s in seen if avoid_id(s) is None)
    by_rule = {}
    for s in seen:
        a = avoid_id(s)
        if a:
            by_rule[a] = by_rule.get(a, 0) + 1
    return {"form_signatures_enumerated": len(seen), "allowed": allowed, "excluded": len(seen) - allowed,
            "excluded_by_rule": dict(sorted(by_rule.items()))}


def load_case(c):
    """normalise a case read back from JSON (access expressions as tuples)"""
    def fix_sop(s):
        s = dict(s)
        for key in ("a", "d", "s", "p", "t"):
            if key in s and isinstance(s[key], list):
                s[key] = tup(s[key])
        if "as" in s:
            s["as"] = [tup(a) for a in s["as"]]
        return s

    def fix_call(o):
        o = dict(o)
        o["params"] = [dict(p, arg=tup(p["arg"])) for p in o["params"]]
        o["body"] = [(fix_call(s) if s["k"] == "call" else fix_sop(s)) for s in o["body"]]      # (decl: key "s" is fixed by fix_sop)
        if o.get("ret"):
            r = dict(o["ret"])
            r["e"] = tup(r["e"])
            r["d"] = tup(r["d"]) if r.get("d") is not None else None
            o["ret"] = r
        else:
            o["ret"] = None
        return o
    out = {"place": c.get("place", "local"), "ops": []}
    for flag in ("same_names", "strings"):
        if c.get(flag):
            out[flag] = True
    for o in c["ops"]:
        out["ops"].append(fix_call(o) if o["k"] == "call" else fix_sop(o))
    return out


def report_disagreement(rep, impl, case):
    (sp0, me0), = model_run([strip(case)])
    i0 = impl_transcript(impl, case)

    def kind(c):
        (sp, me), = model_run([strip(c)])
        i = impl_transcript(impl, c)
        if i == me:
            return None
        ex = [l for l in i if l and l[0] == "EXIT"]
        return ("exit", ex[0][1]) if ex else ("diff",)
    k0 = kind(case)
    small = shrink_case(strip(case), lambda c: kind(c) == k0, budget=250) if k0 else strip(case)
    (sp, me), = model_run([small])
    i = impl_transcript(impl, small)
    concrete = (i != sp)
    known = sorted(set(avoid_id(s) for s in case_sigs(small)) - {None})
    text = ("main and the proved model disagree on a %d-statement history (%s); %s" % (
        len([o for o in small["ops"] if o["k"] != "nop"]), case.get("origin"),
        "the transcript also differs from the aliasing semantics the property demands" if concrete else
        "main agrees with the aliasing semantics but not with the modelled copy-back convention"))
    rep.violation("corr", {"case": small, "source": to_cb(small), "model_mech": me, "model_spec": sp, "impl": i,
                           "forms": case_sigs(small), "avoid_rules_matching": known,
                           "broken": "correspondence model = main (carrier of every C07 theorem)"},
                  text, no_failing_input=not concrete)


def replay(path):
    data = json.load(open(path))
    c = data["case"]
    inner = c["case"] if isinstance(c, dict) and "case" in c else c
    if not (isinstance(inner, dict) and "ops" in inner):
        print(json.dumps(data, indent=1)[:4000])       # a broken proof obligation / build problem: no program to run
        return 1
    case = load_case(inner)
    common.ensure_model(PROP)
    impl = common.build_impl("plain")
    (sp, me), = model_run([case])
    i = impl_transcript(impl, case)
    print(to_cb(case))
    print("model (aliasing):  ", sp)
    print("model (copy-back): ", me)
    print("implementation:    ", i)
    return 0 if i == me else 1
