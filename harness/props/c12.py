"""C12 - interface calls dispatch on the receiver's actual type with self bound to it; impl statics.

Theorems: coq/C12/Properties_C12.v (dispatch through the T::m function table equals the impl registered
for (interface, dynamic type) for every registration order; rebinding; self copy-in / write-back for
every receiver form, in main and inside method bodies; the impl-context stack (enter / exit) restores the
caller's context after calls nested to ANY depth and every body keeps resolving its statics in the pair that
declares it; impl-static key injectivity, separation (closed type sets) and persistence; no-impl rejection;
the pinned defects as `_refuted` theorems).
Tie: generated programs (k<=4 interfaces x n<=4 types incl. typedef'd primitives, shared method / field /
static names, int and void methods, every receiver form, method bodies that declare objects of other types and
call their methods through variable / interface copy / pointer / array element / helper-function parameter /
self, call chains 1-5+ deep across different (interface, type) pairs with the statics touched before and after
each nested call, guarded recursion, random histories of binding / mutating / observing operations) are
printed as Cb source and run on /repo's `main`; the same program is run by the extracted Coq model
(bin/c12_model); stdout lines and the error class must agree.  Each program is also re-run with its
impl blocks permuted (registration-order independence).
"""
import json
import os
import re

import common
from common import rng_for

PROP = "C12"
LEVEL = "proof"
META = {
    "category": "proof",
    "technique": "Coq proofs about a Gallina model of impl registration, T::m dispatch, self copy-in/write-back, the impl-context stack "
                 "and the impl-static namespace + extracted-model differential run of generated interface programs against main",
    "text": "Machine-checked theorems about a hand-written model of register_impl_definition / find_impl_for_struct / "
            "assign_interface_view / the method-call path of call_impl.cpp / enter_impl_context + exit_impl_context and the "
            "impl-static namespace of static.cpp: for every conflict-free impl list and every registration order the body found for a "
            "receiver of dynamic type T is the one registered for (interface, T); re-binding an interface variable switches the impl; "
            "self is the receiver's current payload and its writes are in the receiver after the call for variable, interface-copy, "
            "parameter, pointer and array-element receivers, in main and inside method bodies (nothing else changes); calls nest to "
            "any depth (fuel-indexed semantics, every theorem for every fuel): exit after enter restores the impl context and the "
            "saved stack, every well-nested enter/exit history does, so after a call nested arbitrarily deep through other pairs or "
            "recursion a body still resolves its statics in the pair that declares it; impl-static keys are injective, a call "
            "touches only statics of types in the closed set of types its bodies can reach, a call-free method only its own pair's, "
            "statics are never lost; binding a type without an impl is rejected. The defects still in the code (a method of "
            "another interface callable through an interface variable; writes of a nested int-returning self.m() lost) are "
            "`_refuted` theorems and known findings; three further defects found on nested calls (a void call on another object of "
            "the enclosing self's type overwrites that self; a callee's local shadows the caller's receiver variable; struct-array "
            "locals of recursive frames alias) are known findings avoided by the generator. The model is tied to the code on every "
            "run by executing generated programs on main and on the extracted model.",
    "note": "Trusted: Coq 8.16.1 kernel (vm_compute for the witnesses), no axioms (Print Assumptions: closed); extraction "
            "via ExtrOcamlBasic+ExtrOcamlString; the model is hand-written and abstracts a struct value to one field list, all "
            "values are int, every method is `int|void m(int d)`; methods with interface- / struct- / pointer-typed parameters, "
            "interface variables mixing struct and primitive payloads, references and generic impls are not modelled (tested by "
            "fixed source replays only).",
}

POOL_M = ["m0", "m1", "m2", "m3", "m4", "m5"]
FIELDS = ["f0", "f1", "f2"]
STATICS = ["s0", "s1"]


# ------------------------------------------------------------------ expressions / statements
def e_c(z): return ["c", z]
def e_add(a, b): return ["+", a, b]
def e_sub(a, b): return ["-", a, b]
def e_mul(a, b): return ["*", a, b]


def expr_cb(e):
    k = e[0]
    if k == "c":
        return str(e[1]) if e[1] >= 0 else "(0 - %d)" % (-e[1])
    if k == "a":
        return "d"
    if k == "s":
        return "self"
    if k == "f":
        return "self." + e[1]
    if k == "t":
        return e[1]
    return "(%s %s %s)" % (expr_cb(e[1]), k, expr_cb(e[2]))


def expr_tok(e):
    k = e[0]
    if k == "c":
        return ["c", str(e[1])]
    if k in ("a", "s"):
        return [k]
    if k in ("f", "t"):
        return [k, e[1]]
    return [k] + expr_tok(e[1]) + expr_tok(e[2])


def expr_uses_static(e):
    return e[0] == "t" or (e[0] in "+-*" and (expr_uses_static(e[1]) or expr_uses_static(e[2])))


def m_void(m):
    return bool(m.get("void"))


def m_locals(m):
    return m.get("locals", [])


def stmt_uses_static(s):
    if s[0] == "G":
        return expr_uses_static(s[1]) or stmt_uses_static(s[2])
    if s[0] == "C":
        return expr_uses_static(s[3])
    if s[0] == "S":
        return True
    if s[0] == "F":
        return expr_uses_static(s[2])
    if s[0] == "P":
        return any(expr_uses_static(x) for x in s[2])
    return False


def method_uses_statics(m):
    return any(stmt_uses_static(s) for s in m["body"]) or (not m_void(m) and expr_uses_static(m["ret"]))


class Info:
    """static facts the printers need: which (type, method) / (interface, method) is void"""

    def __init__(self, p):
        self.types = {t["name"]: t for t in p["types"]}
        self.ifaces = {i: ms for i, ms in p["ifaces"]}
        self.tm, self.im = {}, {}
        for d in p["impls"]:
            for m in d["methods"]:
                self.tm.setdefault((d["type"], m["name"]), m)
                self.im[(d["iface"], m["name"])] = self.im.get((d["iface"], m["name"]), False) or m_void(m)

    def void_t(self, t, m):
        mm = self.tm.get((t, m))
        return bool(mm is not None and m_void(mm))

    def void_i(self, i, m):
        return bool(self.im.get((i, m)))


# ------------------------------------------------------------------ printers
def type_decl_cb(t):
    if t["kind"] == "prim":
        return "typedef int %s;" % t["name"]
    parts, seen = [], set()
    for f in t["fields"]:
        if "[" in f:                    # the flat fields g[0], g[1], .. are one array member  int[n] g;
            base = f[:f.index("[")]
            if base not in seen:
                seen.add(base)
                parts.append("int[%d] %s;" % (sum(1 for x in t["fields"] if x.startswith(base + "[")), base))
        else:
            parts.append("int %s;" % f)
    return "struct %s { %s };" % (t["name"], " ".join(parts))


def recv_cb(r):
    if r[0] == "V":
        return r[1] + "."
    if r[0] == "P":
        return r[1] + "->"
    return "%s[%d]." % (r[1], r[2])


def decl_cb(info, v):
    """declaration (+ initialisation) of one concrete variable / array of structs"""
    t = info.types[v["type"]]
    if v["kind"] == "conc":
        if t["kind"] == "prim":
            return ["%s %s = %d;" % (t["name"], v["name"], v["init"])]
        return ["%s %s; %s" % (t["name"], v["name"], " ".join("%s.%s = %d;" % (v["name"], f, z) for f, z in zip(t["fields"], v["init"])))]
    out = ["%s[%d] %s;" % (t["name"], len(v["init"]), v["name"])]
    for k, el in enumerate(v["init"]):
        out.append(" ".join("%s[%d].%s = %d;" % (v["name"], k, f, z) for f, z in zip(t["fields"], el)))
    return out


class Scope:
    """prints the operations acting on one scope (main, or the objects a method body declares)"""

    def __init__(self, info, vars_):
        self.info = info
        self.vt = {v["name"]: v for v in vars_}
        self.declared = set()
        self.iv = {}        # interface variable -> its interface
        self.pt = {}        # pointer -> declared pointee type

    def is_void(self, r, m):
        if r[0] == "V":
            if r[1] in self.iv:
                return self.info.void_i(self.iv[r[1]], m)
            if r[1] in self.vt:
                return self.info.void_t(self.vt[r[1]]["type"], m)
            return False
        if r[0] == "P":
            pty = self.pt.get(r[1])
            return self.info.void_i(pty, m) if pty in self.info.ifaces else self.info.void_t(pty, m)
        return r[1] in self.vt and self.info.void_t(self.vt[r[1]]["type"], m)

    def op(self, o):
        k = o[0]
        info = self.info
        if k == "b":
            _, x, i, src = o
            self.iv[x] = i
            if x in self.declared:
                return "%s = %s;" % (x, src)
            self.declared.add(x)
            return "%s %s = %s;" % (i, x, src)
        if k == "p":
            _, q, x, pty = o
            self.pt[q] = pty
            if q in self.declared:
                return "%s = &%s;" % (q, x)
            self.declared.add(q)
            return "%s* %s = &%s;" % (pty, q, x)
        if k == "c":
            _, r, m, z = o
            if self.is_void(r, m):
                return "%s%s(%d); println(0);" % (recv_cb(r), m, z)
            return "println(%s%s(%d));" % (recv_cb(r), m, z)
        if k == "v":
            _, h, src, z = o
            return "%s(%s, %d);" % (h, src, z)
        if k == "s":
            _, x, f, z = o
            if x in self.vt and info.types[self.vt[x]["type"]]["kind"] == "prim":
                return "%s = %d;" % (x, z)
            return "%s.%s = %d;" % (x, f, z)
        if k == "e":
            _, a, i, f, z = o
            return "%s[%d].%s = %d;" % (a, i, f, z)
        if k == "w":
            x = o[1]
            v = self.vt.get(x)
            if v is None:
                return 'println("%s", %s);' % (x, x)
            t = info.types[v["type"]]
            if v["kind"] == "arr":
                parts = ["%s[%d].%s" % (x, k2, f) for k2 in range(len(v["init"])) for f in t["fields"]]
            elif t["kind"] == "prim":
                parts = [x]
            else:
                parts = ["%s.%s" % (x, f) for f in t["fields"]]
            return 'println("%s", %s);' % (x, ", ".join(parts))
        raise ValueError("op " + repr(o))


def stmt_cb(info, sc, tname, s, k=0):
    if s[0] == "C":
        if info.void_t(tname, s[2]):
            return 'self.%s(%s); println("%s", 0);' % (s[2], expr_cb(s[3]), s[1])
        return 'int r%d = self.%s(%s); println("%s", r%d);' % (k, s[2], expr_cb(s[3]), s[1], k)
    if s[0] == "F":
        return "self.%s = %s;" % (s[1], expr_cb(s[2]))
    if s[0] == "S":
        return "%s = %s;" % (s[1], expr_cb(s[2]))
    if s[0] == "O":
        return sc.op(s[1])
    if s[0] == "G":
        return "if (%s > 0) { %s }" % (expr_cb(s[1]), stmt_cb(info, sc, tname, s[2], k))
    return "println(%s);" % ", ".join(['"%s"' % s[1]] + [expr_cb(x) for x in s[2]])


def impl_cb(info, d):
    out = ["impl %s for %s {" % (d["iface"], d["type"])]
    for n, z in d["statics"]:
        if z == 0 and n in d.get("noinit", ()):
            out.append("  static int %s;" % n)       # no initialiser: starts at 0
        else:
            out.append("  static int %s = %d;" % (n, z))
    for m in d["methods"]:
        sc = Scope(info, m_locals(m))
        parts = []
        for v in m_locals(m):
            parts += decl_cb(info, v)
        parts += [stmt_cb(info, sc, d["type"], s, k) for k, s in enumerate(m["body"])]
        body = " ".join(parts)
        if m_void(m):
            out.append("  void %s(int d) { %s }" % (m["name"], body))
        else:
            out.append("  int %s(int d) { %s return %s; }" % (m["name"], body, expr_cb(m["ret"])))
    out.append("};")
    return "\n".join(out)


def to_cb(p, impl_order=None):
    info = Info(p)
    L = []
    for i, ms in p["ifaces"]:
        L.append("interface %s { %s };" % (i, " ".join("%s %s(int d);" % ("void" if info.void_i(i, m) else "int", m) for m in ms)))
    for t in p["types"]:
        L.append(type_decl_cb(t))
    impls = p["impls"] if impl_order is None else [p["impls"][k] for k in impl_order]
    for d in impls:
        L.append(impl_cb(info, d))
    for h in p["helpers"]:
        pt = h["iface"] if h["iface"] else h["ptype"]
        parts = []
        for k, (m, c) in enumerate(h["calls"]):
            void = info.void_i(h["iface"], m) if h["iface"] else info.void_t(h["ptype"], m)
            if void:
                parts.append('%s.%s(d + %d); println("%s", 0);' % (h["param"], m, c, h["name"]))
            else:
                parts.append('int r%d = %s.%s(d + %d); println("%s", r%d);' % (k, h["param"], m, c, h["name"], k))
        L.append("int %s(%s %s, int d) { %s return 0; }" % (h["name"], pt, h["param"], " ".join(parts)))
    L.append("int main() {")
    sc = Scope(info, p["vars"])
    for v in p["vars"]:
        for ln in decl_cb(info, v):
            L.append("  " + ln)
    for o in p["ops"]:
        L.append("  " + sc.op(o))
    L.append("  return 0;")
    L.append("}")
    return "\n".join(L) + "\n"


def payload_tok(t, init):
    if t["kind"] == "prim":
        return ["P", str(init)]
    out = ["S", str(len(t["fields"]))]
    for f, z in zip(t["fields"], init):
        out += [f, str(z)]
    return out


def var_tok(types, v):
    t = types[v["type"]]
    if v["kind"] == "conc":
        return [v["name"], "C", t["name"]] + payload_tok(t, v["init"])
    out = [v["name"], "A", t["name"], str(len(v["init"]))]
    for el in v["init"]:
        out += payload_tok(t, el)
    return out


def op_tok(o):
    k = o[0]
    if k == "b":
        return ["b", o[1], o[2], o[3]]
    if k == "p":
        return ["p", o[1], o[2]]
    if k == "c":
        r = o[1]
        return ["c"] + ([r[0], r[1]] if r[0] != "E" else ["E", r[1], str(r[2])]) + [o[2], str(o[3])]
    if k == "v":
        return ["v", o[1], o[2], str(o[3])]
    if k == "s":
        return ["s", o[1], o[2], str(o[3])]
    if k == "e":
        return ["e", o[1], str(o[2]), o[3], str(o[4])]
    if k == "w":
        return ["w", o[1]]
    raise ValueError("op " + repr(o))


def stmt_tok(s):
    if s[0] == "C":
        return ["C", s[1], s[2]] + expr_tok(s[3])
    if s[0] in ("F", "S"):
        return [s[0], s[1]] + expr_tok(s[2])
    if s[0] == "O":
        return ["O"] + op_tok(s[1])
    if s[0] == "G":
        return ["G"] + expr_tok(s[1]) + stmt_tok(s[2])
    out = ["P", s[1], str(len(s[2]))]
    for x in s[2]:
        out += expr_tok(x)
    return out


def to_model(p, impl_order=None):
    types = {t["name"]: t for t in p["types"]}
    T = [str(len(p["ifaces"]))]
    for i, ms in p["ifaces"]:
        T += [i, str(len(ms))] + list(ms)
    impls = p["impls"] if impl_order is None else [p["impls"][k] for k in impl_order]
    T.append(str(len(impls)))
    for d in impls:
        T += [d["iface"], d["type"], str(len(d["statics"]))]
        for n, z in d["statics"]:
            T += [n, str(z)]
        T.append(str(len(d["methods"])))
        for m in d["methods"]:
            T += [m["name"], "v" if m_void(m) else "i", str(len(m_locals(m)))]
            for v in m_locals(m):
                T += var_tok(types, v)
            T.append(str(len(m["body"])))
            for s in m["body"]:
                T += stmt_tok(s)
            T += expr_tok(m["ret"])
    T.append(str(len(p["vars"])))
    for v in p["vars"]:
        T += var_tok(types, v)
    T.append(str(len(p["helpers"])))
    for h in p["helpers"]:
        T += [h["name"], h["param"], h["iface"] or "-", str(len(h["calls"]))]
        for m, c in h["calls"]:
            T += [m, str(c)]
    T.append(str(len(p["ops"])))
    for o in p["ops"]:
        T += op_tok(o)
    return " ".join(T)


# ------------------------------------------------------------------ generator
def gen_expr(rng, fields, statics, prim, depth=0, allow_mul=True):
    """small int expression over self's fields / self, the argument d, the impl's statics"""
    atoms = [["a"], e_c(rng.randint(-9, 9)), e_c(rng.randint(0, 3))]
    atoms += [["f", f] for f in fields] * 2
    atoms += [["t", s] for s in statics] * 2
    if prim:
        atoms += [["s"]] * 3
    if depth >= 2 or rng.random() < 0.4:
        return rng.choice(atoms)
    op = rng.choice(["+", "+", "-", "*"] if allow_mul else ["+", "+", "-"])
    a = gen_expr(rng, fields, statics, prim, depth + 1, allow_mul)
    if op == "*":
        return e_mul(a, e_c(rng.randint(0, 3)))
    return [op, a, gen_expr(rng, fields, statics, prim, depth + 1, allow_mul)]


def gen_update(rng, target_atom, fields, statics, prim):
    """additive update keeping magnitudes small: x = x + small | small - x | y + small"""
    small = rng.choice([["a"], e_c(rng.randint(-9, 9)), e_c(1)])
    r = rng.random()
    others = [["f", f] for f in fields] + [["t", s] for s in statics]
    if r < 0.6 or not others:
        return e_add(target_atom, small)
    if r < 0.75:
        return e_sub(small, target_atom)
    if r < 0.9:
        return e_add(rng.choice(others), small)
    return e_add(target_atom, rng.choice(others))


def gen_method(rng, name, iface, t, statics, use_statics, void=False):
    prim = t["kind"] == "prim"
    fields = [] if prim else t["fields"]
    st = [n for n, _ in statics] if use_statics else []
    tag = "%s.%s.%s" % (iface, t["name"], name)
    body = []
    for _ in range(rng.randint(1, 4)):
        r = rng.random()
        if r < 0.5 and fields:
            f = rng.choice(fields)
            body.append(["F", f, gen_update(rng, ["f", f], fields, st, prim)])
        elif r < 0.85 and st:
            s = rng.choice(st)
            body.append(["S", s, gen_update(rng, ["t", s], fields, st, prim)])
        else:
            body.append(["P", tag + "#", [gen_expr(rng, fields, st, prim) for _ in range(rng.randint(1, 2))]])
    if rng.random() < 0.9 or not body:
        obs = [["f", f] for f in fields] + [["t", s] for s in st] + ([["s"]] if prim else []) + [["a"]]
        body.insert(rng.randint(0, len(body)) if rng.random() < 0.3 else len(body), ["P", tag, obs])
    ret = ["c", 0] if void else gen_expr(rng, fields, st, prim)
    m = {"name": name, "body": body, "ret": ret}
    if void:
        m["void"] = True
    return m


def gen_world(rng, small=False):
    """interfaces, types, impls (method names shared across types and, where legal, across interfaces), helpers,
    and the call structure between the methods (add_call_structure)"""
    k = rng.randint(1, 2 if small else 4)
    n = rng.randint(1, 2 if small else 4)
    ifaces = []
    voids = set()
    for i in range(k):
        ms = sorted(rng.sample(POOL_M, rng.randint(1, 3)))
        ifaces.append(("I%d" % i, ms))
        for m in ms:
            if rng.random() < 0.3:
                voids.add(("I%d" % i, m))
    types = []
    nprim = 0
    for j in range(n):
        if rng.random() < 0.25 and nprim < 2:
            types.append({"name": "P%d" % j, "kind": "prim"})
            nprim += 1
        else:
            fields = FIELDS[:rng.randint(1, 3)]
            if rng.random() < 0.3:       # an array member  int[n] g;  (model: the flat fields g[0] .. g[n-1])
                fields = fields[:2] + ["g[%d]" % i for i in range(rng.randint(1, 3))]
            types.append({"name": "T%d" % j, "kind": "struct", "fields": fields})
    impls = []
    for t in types:
        used = set()
        order = list(range(k))
        rng.shuffle(order)
        for ii in order:
            iname, ms = ifaces[ii]
            if used & set(ms):
                continue                        # would be a "Method name conflict" (avoided; see malformed stream)
            if rng.random() < 0.2:
                continue                        # leave the pair without an impl
            used |= set(ms)
            statics = [(s, rng.randint(0, 50) if rng.random() < 0.75 else 0) for s in STATICS if rng.random() < 0.6]
            meths = []
            for m in ms:
                use = bool(statics) and rng.random() < 0.65
                meths.append(gen_method(rng, m, iname, t, statics, use, (iname, m) in voids))
            rng.shuffle(meths)
            impls.append({"iface": iname, "type": t["name"], "statics": statics, "methods": meths})
            noinit = [s for s, z in statics if z == 0 and rng.random() < 0.7]
            if noinit:
                impls[-1]["noinit"] = noinit
    helpers = gen_helpers(rng, ifaces, types, impls)
    add_call_structure(rng, ifaces, types, impls, helpers, small)
    rng.shuffle(impls)
    return ifaces, types, impls, helpers


def gen_helpers(rng, ifaces, types, impls):
    helpers = []
    for i, ms in ifaces:
        if rng.random() < 0.7:
            helpers.append({"name": "h" + i, "param": "p" + i, "iface": i, "ptype": None,
                            "calls": [(rng.choice(ms), rng.randint(0, 5)) for _ in range(rng.randint(1, 3))]})
    for t in types:
        ms = [m["name"] for d in impls if d["type"] == t["name"] for m in d["methods"]]
        if t["kind"] == "struct" and ms and rng.random() < 0.5:
            helpers.append({"name": "g" + t["name"], "param": "q" + t["name"], "iface": None, "ptype": t["name"],
                            "calls": [(rng.choice(ms), rng.randint(0, 5)) for _ in range(rng.randint(1, 3))]})
    return helpers


def has_array_member(t):
    return any("[" in f for f in t.get("fields", []))


def stmts_flat(body):
    """every statement of a body, guards opened"""
    for s in body:
        while s[0] == "G":
            s = s[2]
        yield s


def writes_self(m):
    return any(s[0] == "F" for s in stmts_flat(m["body"]))


def has_calls(m):
    return any(s[0] == "C" or (s[0] == "O" and s[1][0] in ("c", "v")) for s in stmts_flat(m["body"]))


def may_change_self(m, tm, tname, seen=()):
    """the method can end with a self different from the one it started with: a direct member write, or a
    self-call of a VOID method that can (what an int-returning self-callee writes is dropped by the pinned code)"""
    if writes_self(m):
        return True
    for s in stmts_flat(m["body"]):
        if s[0] == "C":
            mm = tm.get((tname, s[2]))
            if mm is not None and mm is not m and id(mm) not in seen and m_void(mm) and may_change_self(mm, tm, tname, seen + (id(m),)):
                return True
    return False


def add_call_structure(rng, ifaces, types, impls, helpers, small=False):
    """Calls between methods, nested up to ~5 deep across different (interface, type) pairs.

    The methods are put in a random order and a method only calls methods after it (plus guarded self-recursion
    `if (d > 0) { self.m(d - 1) }`), so every program terminates.  A call is made through: self (callee of the
    same type, any of its impl blocks); an object the body declares - struct / typedef'd-primitive variable,
    interface copy of it, pointer to the variable or to the copy, array element; a helper function taking the
    object as interface- or struct-typed parameter.  With a good probability the caller touches its impl statics
    before AND after the nested call and shows the object afterwards.  About half of the worlds get a `spine`
    m1 -> m2 -> ... of 3-5 methods wired this way.
    Avoided: C12-nested-self-writes-lost (an int-returning self-callee that changes self),
    C12-void-call-clobbers-enclosing-self (a void method called on another object of the enclosing self's type),
    C12-callee-local-shadows-receiver (object names are unique per method, recursion only through self)."""
    tdict = {t["name"]: t for t in types}
    meths = [(d, m) for d in impls for m in d["methods"]]
    if not meths:
        return
    rng.shuffle(meths)
    uid = {id(m): k for k, (d, m) in enumerate(meths)}
    tm = {(d["type"], m["name"]): m for d, m in meths}
    pair_of = {id(m): d for d, m in meths}
    recursive = set()
    nrec = 0
    for d, m in meths:
        if nrec < 2 and rng.random() < 0.12:
            recursive.add(id(m))
            nrec += 1
    spine = min(len(meths), rng.randint(3, 5)) if (len(meths) >= 3 and rng.random() < (0.3 if small else 0.55)) else 0

    def arg_for(mm):
        return rng.randint(0, 3) if id(mm) in recursive else rng.randint(-5, 9)

    def helper_ok(h, tname, k):
        """every method the helper calls on an object of type tname exists and comes later in the order"""
        for mn, _ in h["calls"]:
            mm = tm.get((tname, mn))
            if mm is None or uid[id(mm)] <= k:
                return False
            if h["iface"] and mn not in dict(ifaces)[h["iface"]]:
                return False
        return True

    # callers are completed from the last method backwards, so a callee's body is final when it is chosen
    for k in range(len(meths) - 1, -1, -1):
        d, m = meths[k]
        t = tdict[d["type"]]
        prim = t["kind"] == "prim"
        fields = [] if prim else t["fields"]
        st = [n for n, _ in d["statics"]]
        later = meths[k + 1:]
        locs = {"n": 0, "objs": []}      # objs: (name, type, kind)
        m.setdefault("locals", [])

        def new_obj(tn, want_arr=False):
            tt = tdict[tn]
            olds = [o for o in locs["objs"] if o[1] == tn and (o[2] == "arr") == want_arr]
            if olds and rng.random() < 0.5:
                return olds[0]
            nm = "%s%d_%d" % ("la" if want_arr else "lx", uid[id(m)], locs["n"])
            locs["n"] += 1
            if want_arr:
                init = [[rng.randint(-20, 20) for _ in tt["fields"]] for _ in range(rng.randint(1, 3))]
                m["locals"].append({"name": nm, "type": tn, "kind": "arr", "init": init})
                o = (nm, tn, "arr", len(init))
            else:
                init = rng.randint(-40, 40) if tt["kind"] == "prim" else [rng.randint(-20, 20) for _ in tt["fields"]]
                m["locals"].append({"name": nm, "type": tn, "kind": "conc", "init": init})
                o = (nm, tn, "conc", 0)
            locs["objs"].append(o)
            return o

        def make_call(dd, mm):
            """statements that call mm (declared by block dd) from m"""
            tn = dd["type"]
            tt = tdict[tn]
            same = tn == d["type"]
            tag = "%s.%s.%s>%s" % (d["iface"], d["type"], m["name"], mm["name"])
            forms = []
            if same and (m_void(mm) or not may_change_self(mm, tm, tn)):
                forms += ["self"] * 5
            if not (same and m_void(mm)):
                forms += ["var", "var", "iface", "iface", "pif"]
                if tt["kind"] == "struct" and not has_array_member(tt):   # avoided: C12-array-member-stale-through-pointer
                    forms += ["pvar"]
                    if id(m) not in recursive:      # avoided: C12-recursive-local-array-aliased
                        forms += ["elem"]
                hs = [h for h in helpers if (h["iface"] == dd["iface"] or (h["iface"] is None and h["ptype"] == tn)) and
                      helper_ok(h, tn, k)]
                if hs:
                    forms += ["helper", "helper"]
            if not forms:
                return []
            f = rng.choice(forms)
            z = arg_for(mm)
            if f == "self":
                e = ["c", z] if id(mm) in recursive else gen_expr(rng, fields, st, prim, 1)
                return [["C", tag, mm["name"], e]]
            out = []
            if f == "elem":
                o = new_obj(tn, True)
                out.append(["O", ["c", ["E", o[0], rng.randrange(o[3])], mm["name"], z]])
                if rng.random() < 0.6:
                    out.append(["O", ["w", o[0]]])
                return out
            o = new_obj(tn)
            if f == "var":
                out.append(["O", ["c", ["V", o[0]], mm["name"], z]])
            elif f == "pvar":
                q = "lq%d_%d" % (uid[id(m)], locs["n"])
                locs["n"] += 1
                out += [["O", ["p", q, o[0], tn]], ["O", ["c", ["P", q], mm["name"], z]]]
            elif f in ("iface", "pif"):
                w = "lw%d_%d" % (uid[id(m)], locs["n"])
                locs["n"] += 1
                out.append(["O", ["b", w, dd["iface"], o[0]]])
                if f == "iface":
                    out.append(["O", ["c", ["V", w], mm["name"], z]])
                else:
                    q = "lq%d_%d" % (uid[id(m)], locs["n"])
                    locs["n"] += 1
                    out += [["O", ["p", q, w, dd["iface"]]], ["O", ["c", ["P", q], mm["name"], z]]]
                if rng.random() < 0.4:      # a second call on the same copy: it keeps what the first one wrote
                    out.append(["O", ["c", ["V", w], mm["name"], arg_for(mm)]])
            else:
                h = rng.choice(hs)
                src = o[0]
                if h["iface"] and rng.random() < 0.4:
                    w = "lw%d_%d" % (uid[id(m)], locs["n"])
                    locs["n"] += 1
                    out.append(["O", ["b", w, h["iface"], o[0]]])
                    src = w
                out.append(["O", ["v", h["name"], src, rng.randint(0, 3)]])
            if rng.random() < 0.6:
                out.append(["O", ["w", o[0]]])
            return out

        ncalls = rng.choice([0, 0, 0, 1, 1, 2]) if not (spine and k < spine - 1) else rng.choice([1, 1, 2])
        targets = []
        if spine and k < spine - 1:
            targets.append(meths[k + 1])
        while len(targets) < ncalls and later:
            targets.append(rng.choice(later))
        for dd, mm in targets:
            stm = make_call(dd, mm)
            if not stm:
                continue
            pos = rng.randint(0, len(m["body"]))
            pre, post = [], []
            if st and rng.random() < 0.7:
                s1, s2 = rng.choice(st), rng.choice(st)
                pre = [["S", s1, gen_update(rng, ["t", s1], fields, [], prim)]]
                post = [["S", s2, gen_update(rng, ["t", s2], fields, [], prim)],
                        ["P", "%s.%s.%s@" % (d["iface"], d["type"], m["name"]), [["t", x] for x in st] + [["f", x] for x in fields]]]
            if rng.random() < 0.15 and all(x[0] == "C" or (x[0] == "O" and x[1][0] in ("c", "v", "w")) for x in stm):
                stm = [["G", rng.choice([["a"], ["-", ["a"], ["c", 2]], ["c", 1]]), x] for x in stm]
            m["body"][pos:pos] = pre + stm + post
        if id(m) in recursive:
            tag = "%s.%s.%s>%s" % (d["iface"], d["type"], m["name"], m["name"])
            if not may_change_self(m, tm, d["type"]) or m_void(m):
                pos = rng.randint(0, len(m["body"]))
                m["body"].insert(pos, ["G", ["a"], ["C", tag, m["name"], ["-", ["a"], ["c", 1]]]])
            else:
                recursive.discard(id(m))
        if not m["locals"]:
            del m["locals"]


class Sim:
    """light static bookkeeping used while generating operations (validity + avoidance predicates)"""

    def __init__(self, ifaces, types, impls):
        self.ifaces = dict(ifaces)
        self.types = {t["name"]: t for t in types}
        self.impl = {(d["iface"], d["type"]): d for d in impls}
        self.by_type = {}
        for d in impls:
            self.by_type.setdefault(d["type"], []).append(d)
        self.conc = {}      # name -> type
        self.arr = {}       # name -> (type, len)
        self.iv = {}        # iface var -> [iface, dyn type]
        self.ptr = {}       # pointer -> [static pointee type, target]

    def implements(self, i, t):
        return (i, t) in self.impl

    def dyn(self, x):
        return self.conc[x] if x in self.conc else self.iv[x][1]

    def methods_struct_recv(self, t):
        """every method any impl block gives the type (statics are reachable through every receiver since ffeef7f)"""
        return [m["name"] for d in self.by_type.get(t, []) for m in d["methods"]]

    def methods_iface_recv(self, i, t):
        return [m["name"] for m in self.impl[(i, t)]["methods"] if m["name"] in self.ifaces[i]]


def gen_program(rng, nops, small=False, malformed=None):
    ifaces, types, impls, helpers = gen_world(rng, small)
    sim = Sim(ifaces, types, impls)
    vars_ = []
    # concrete variables: 1-2 per type, arrays of some struct types
    for t in types:
        for c in range(rng.randint(1, 2)):
            nm = "x%s%d" % (t["name"], c)
            init = rng.randint(-40, 40) if t["kind"] == "prim" else [rng.randint(-20, 20) for _ in t["fields"]]
            vars_.append({"name": nm, "type": t["name"], "kind": "conc", "init": init})
            sim.conc[nm] = t["name"]
        if t["kind"] == "struct" and not has_array_member(t) and rng.random() < 0.5:
            nm = "a%s" % t["name"]
            ln = rng.randint(1, 3)
            vars_.append({"name": nm, "type": t["name"], "kind": "arr",
                          "init": [[rng.randint(-20, 20) for _ in t["fields"]] for _ in range(ln)]})
            sim.arr[nm] = (t["name"], ln)
    ops = []
    niv = 0
    nptr = 0
    guard = 0
    while len(ops) < nops and guard < nops * 20:
        guard += 1
        r = rng.random()
        if r < 0.18 or not sim.iv:
            # bind / rebind an interface variable
            i = rng.choice(ifaces)[0]
            srcs = [x for x in list(sim.conc) + list(sim.iv) if sim.implements(i, sim.dyn(x))]
            if not srcs:
                continue
            src = rng.choice(srcs)
            kind = sim.types[sim.dyn(src)]["kind"]
            olds = [x for x, (ii, tt) in sim.iv.items() if ii == i and sim.types[tt]["kind"] == kind and x != src]
            if olds and rng.random() < 0.6:
                x = rng.choice(olds)
            else:
                x = "v%d" % niv
                niv += 1
            ops.append(["b", x, i, src])
            sim.iv[x] = [i, sim.dyn(src)]
        elif r < 0.25:
            # pointer to an interface variable or to a struct variable
            # avoided: C12-array-member-stale-through-pointer (no pointer to a struct variable whose type has an array member)
            cands = [(x, sim.iv[x][0]) for x in sim.iv] + [(x, t) for x, t in sim.conc.items()
                                                            if sim.types[t]["kind"] == "struct" and not has_array_member(sim.types[t])]
            if not cands:
                continue
            x, pty = rng.choice(cands)
            olds = [q for q, (ty, _) in sim.ptr.items() if ty == pty]
            if olds and rng.random() < 0.5:
                q = rng.choice(olds)
            else:
                q = "q%d" % nptr
                nptr += 1
            ops.append(["p", q, x, pty])
            sim.ptr[q] = [pty, x]
        elif r < 0.70:
            # a method call through some receiver form
            forms = []
            if sim.iv:
                forms += ["iv"] * 4
            if sim.ptr:
                forms += ["ptr"] * 2
            forms += ["conc"] * 2
            if sim.arr:
                forms += ["elem"] * 2
            f = rng.choice(forms)
            if f == "iv":
                x = rng.choice(list(sim.iv))
                i, t = sim.iv[x]
                ms = sim.methods_iface_recv(i, t)
                recv = ["V", x]
            elif f == "ptr":
                q = rng.choice(list(sim.ptr))
                pty, x = sim.ptr[q]
                if x in sim.iv:
                    i, t = sim.iv[x]
                    ms = sim.methods_iface_recv(i, t)
                else:
                    ms = sim.methods_struct_recv(sim.conc[x])
                recv = ["P", q]
            elif f == "conc":
                x = rng.choice(list(sim.conc))
                ms = sim.methods_struct_recv(sim.conc[x])
                recv = ["V", x]
            else:
                a = rng.choice(list(sim.arr))
                t, ln = sim.arr[a]
                ms = sim.methods_struct_recv(t)
                recv = ["E", a, rng.randrange(ln)]
            if not ms:
                continue
            ops.append(["c", recv, rng.choice(ms), rng.randint(-5, 9)])
        elif r < 0.80 and helpers:
            h = rng.choice(helpers)
            if h["iface"]:
                srcs = [x for x in list(sim.conc) + list(sim.iv) if sim.implements(h["iface"], sim.dyn(x))]
            else:
                srcs = [x for x, t in sim.conc.items() if t == h["ptype"]]
            if not srcs:
                continue
            ops.append(["v", h["name"], rng.choice(srcs), rng.randint(-5, 9)])
        elif r < 0.89:
            x = rng.choice(list(sim.conc))
            t = sim.types[sim.conc[x]]
            f = "-" if t["kind"] == "prim" else rng.choice(t["fields"])
            ops.append(["s", x, f, rng.randint(-40, 40) if t["kind"] == "prim" else rng.randint(-30, 30)])
        elif r < 0.93 and sim.arr:
            a = rng.choice(list(sim.arr))
            t, ln = sim.arr[a]
            ops.append(["e", a, rng.randrange(ln), rng.choice(sim.types[t]["fields"]), rng.randint(-30, 30)])
        else:
            x = rng.choice(list(sim.conc) + list(sim.arr))
            ops.append(["w", x])
    # always finish by showing every concrete variable (value semantics of the copies)
    for x in list(sim.conc) + list(sim.arr):
        ops.append(["w", x])
    p = {"ifaces": ifaces, "types": types, "impls": impls, "vars": vars_, "helpers": helpers, "ops": ops}
    if malformed:
        p = make_malformed(rng, p, sim, malformed)
    return p


def make_malformed(rng, p, sim, what):
    """the mostly-valid stream's counterpart: programs the property says must be rejected"""
    p = json.loads(json.dumps(p))
    ifaces = [(i, ms) for i, ms in p["ifaces"]]
    if what == "noimpl":
        # bind a value whose type has no impl for the interface (declaration, assignment or parameter)
        pairs = [(i, x) for i, _ in ifaces for x in list(sim.conc) + list(sim.iv) if not sim.implements(i, sim.dyn(x))]
        if not pairs:
            return None
        i, src = rng.choice(pairs)
        pos = rng.randint(0, len(p["ops"]))
        # the source must already be bound at pos if it is an interface variable
        if src in sim.iv:
            first = [k for k, o in enumerate(p["ops"]) if o[0] == "b" and o[1] == src]
            pos = max(pos, first[0] + 1)
        hs = [h for h in p["helpers"] if h["iface"] == i]
        if hs and rng.random() < 0.4:
            bad = ["v", hs[0]["name"], src, 1]
        else:
            olds = [o[1] for o in p["ops"][:pos] if o[0] == "b" and o[2] == i]
            bad = ["b", rng.choice(olds) if olds and rng.random() < 0.5 else "vbad", i, src]
        p["ops"] = p["ops"][:pos] + [bad] + p["ops"][pos:]
        return p
    if what == "conflict":
        # two interfaces give one type the same method name
        for d in p["impls"]:
            others = [e for e in p["impls"] if e["type"] == d["type"] and e["iface"] != d["iface"]]
            if others:
                e = others[0]
                nm = e["methods"][0]["name"]
                # add the method to d's interface and to every impl of that interface
                for k, (i, ms) in enumerate(p["ifaces"]):
                    if i == d["iface"] and nm not in ms:
                        p["ifaces"][k] = (i, ms + [nm])
                for dd in p["impls"]:
                    if dd["iface"] == d["iface"] and nm not in [m["name"] for m in dd["methods"]]:
                        dd["methods"].append(gen_method(rng, nm, dd["iface"], sim.types[dd["type"]], [], False))
                # if the program is (wrongly) accepted, the same method name is called through both interfaces
                xs = [x for x, t in sim.conc.items() if t == d["type"]]
                if xs:
                    p["ops"] = [["b", "vc1", d["iface"], xs[0]], ["c", ["V", "vc1"], nm, 1],
                                ["b", "vc2", e["iface"], xs[0]], ["c", ["V", "vc2"], nm, 2]] + p["ops"]
                return p
        return None
    if what == "duplicate":
        if not p["impls"]:
            return None
        d = rng.choice(p["impls"])
        p["impls"].insert(rng.randint(0, len(p["impls"])), json.loads(json.dumps(d)))
        return p
    if what == "incomplete":
        cands = [d for d in p["impls"] if len(d["methods"]) >= 2]
        if not cands:
            return None
        d = rng.choice(cands)
        d["methods"].pop(rng.randrange(len(d["methods"])))
        return p
    if what == "undeffunc":
        # a method of an interface the receiver's type does not implement at all
        allm = set(POOL_M)
        for x, t in sim.conc.items():
            have = {m["name"] for d in sim.by_type.get(t, []) for m in d["methods"]}
            miss = sorted(allm - have)
            if miss and sim.types[t]["kind"] == "struct":
                pos = rng.randint(0, len(p["ops"]))
                p["ops"] = p["ops"][:pos] + [["c", ["V", x], rng.choice(miss), 1]] + p["ops"][pos:]
                return p
        return None
    return None


# ------------------------------------------------------------------ exhaustive small scope
def small_world():
    """a fixed world: 2 interfaces x 2 struct types, method / field / static names shared across types"""
    f0, f1, s0, d = ["f", "f0"], ["f", "f1"], ["t", "s0"], ["a"]

    def impl(i, t, fields, init, k):
        tag = "%s.%s." % (i, t)
        obs = [["f", f] for f in fields]
        return {"iface": i, "type": t, "statics": [("s0", init)], "methods": [
            {"name": "m0", "locals": [{"name": "lt" + t, "type": "T0", "kind": "conc", "init": [2, 3]}],
             "body": [["F", "f0", e_add(f0, d)], ["S", "s0", e_add(s0, e_c(k))], ["C", tag + "m0>m3", "m3", e_add(d, s0)],
                      # three deep across pairs: (I0,t).m0 -> (I1,T0).m2 through an interface copy of an own object -> (I0,T0).m1
                      ["O", ["b", "lw" + t, "I1", "lt" + t]], ["O", ["c", ["V", "lw" + t], "m2", 1]],
                      ["S", "s0", e_add(s0, e_c(k))], ["O", ["w", "lt" + t]],
                      ["P", tag + "m0", obs + [s0]]],
             "ret": e_add(f0, s0)},
            {"name": "m1", "body": [["P", tag + "m1", obs + [d]]], "ret": e_mul(f0, e_c(k))},
            {"name": "m3", "body": [["P", tag + "m3", obs + [s0]]], "ret": s0}]}
    ifaces = [("I0", ["m0", "m1", "m3"]), ("I1", ["m2"])]
    types = [{"name": "T0", "kind": "struct", "fields": ["f0", "f1"]}, {"name": "T1", "kind": "struct", "fields": ["f0"]}]
    impls = [impl("I0", "T0", ["f0", "f1"], 10, 1), impl("I0", "T1", ["f0"], 50, 2),
             {"iface": "I1", "type": "T0", "statics": [("s0", 90)], "methods": [
                 {"name": "m2", "body": [["F", "f1", e_add(f1, d)], ["C", "I1.T0.m2>m1", "m1", f1], ["S", "s0", e_add(s0, e_c(3))],
                                         ["P", "I1.T0.m2", [f0, f1, d, s0]]], "ret": e_add(f1, s0)}]}]
    vars_ = [{"name": "xT00", "type": "T0", "kind": "conc", "init": [1, 2]},
             {"name": "xT10", "type": "T1", "kind": "conc", "init": [5]},
             {"name": "aT0", "type": "T0", "kind": "arr", "init": [[3, 4], [6, 7]]}]
    helpers = [{"name": "hI0", "param": "pI0", "iface": "I0", "ptype": None, "calls": [("m0", 1), ("m3", 0)]},
               {"name": "gT0", "param": "qT0", "iface": None, "ptype": "T0", "calls": [("m2", 1), ("m1", 0)]}]
    prefix = [["b", "v0", "I0", "xT00"], ["b", "v1", "I1", "xT00"], ["b", "v2", "I0", "v0"],
              ["p", "q0", "v0", "I0"], ["p", "q1", "xT00", "T0"]]
    alphabet = [["b", "v0", "I0", "xT10"], ["b", "v0", "I0", "xT00"], ["b", "v2", "I0", "v0"], ["b", "v0", "I0", "v2"],
                ["c", ["V", "v0"], "m0", 2], ["c", ["V", "v2"], "m0", 3], ["c", ["P", "q0"], "m0", 4], ["c", ["V", "v1"], "m2", 1],
                ["c", ["V", "xT00"], "m2", 2], ["c", ["P", "q1"], "m2", 3], ["c", ["E", "aT0", 1], "m2", 4],
                ["s", "xT00", "f0", 8], ["v", "hI0", "xT00", 1], ["v", "hI0", "v0", 2], ["v", "gT0", "xT00", 1],
                ["p", "q0", "v2", "I0"]]
    suffix = [["c", ["V", "v0"], "m3", 0], ["c", ["V", "v2"], "m3", 0], ["c", ["P", "q0"], "m1", 0], ["c", ["V", "v1"], "m2", 0],
              ["c", ["E", "aT0", 1], "m1", 0], ["w", "xT00"], ["w", "xT10"], ["w", "aT0"]]
    base = {"ifaces": ifaces, "types": types, "impls": impls, "vars": vars_, "helpers": helpers}
    return base, prefix, alphabet, suffix


def exhaustive_programs(maxlen):
    import itertools
    base, prefix, alphabet, suffix = small_world()
    for n in range(0, maxlen + 1):
        for seq in itertools.product(alphabet, repeat=n):
            p = dict(base)
            p["ops"] = prefix + [list(o) for o in seq] + suffix
            yield p


# ------------------------------------------------------------------ running both sides
ERR_PATTERNS = [
    ("incomplete", "Incomplete implementation"),
    ("duplicate", "Duplicate implementation"),
    ("conflict", "Method name conflict"),
    ("noimpl", "No impl found for interface"),
    ("undefvar", "Undefined variable"),
    ("undeffunc", "Undefined function"),
    ("range", "range"),
]


def classify(rc, err):
    if rc == 0:
        return "ok"
    if rc == 124:
        return "timeout"
    if rc != 1:
        return "crash-%d" % rc
    for cls, pat in ERR_PATTERNS:
        if pat in err:
            return cls
    first = [l for l in err.split("\n") if l.strip()]
    return "other:" + (first[-1][:80] if first else "")


def run_impl(impl_dir, p, impl_order=None, retry=True):
    rc, o, e = common.run_cb(impl_dir, to_cb(p, impl_order), timeout=10)
    if rc == 124 and retry:
        rc, o, e = common.run_cb(impl_dir, to_cb(p, impl_order), timeout=60)
    return [l for l in o.split("\n") if l != ""], classify(rc, e)


MAX_TIMEOUTS = 24


def run_impl_many(impl_dir, jobs):
    """jobs: list of (program, impl_order). Every generated program ends within milliseconds on a healthy tree, so
    a time-out is a hang of the implementation.  To keep the run bounded when a change makes MANY programs hang:
    first pass with 10 s each, in chunks; once more than MAX_TIMEOUTS programs have timed out the remaining ones
    are not run (result None: not evaluated, counted).  Up to MAX_TIMEOUTS time-outs are retried with 60 s (a
    loaded machine); a program that times out again is a disagreement with the model like any other."""
    res = [None] * len(jobs)
    timed = []
    CH = 320
    for a in range(0, len(jobs), CH):
        idx = list(range(a, min(a + CH, len(jobs))))
        part = common.pmap(lambda k: run_impl(impl_dir, jobs[k][0], jobs[k][1], retry=False), idx)
        for k, r in zip(idx, part):
            res[k] = r
            if r[1] == "timeout":
                timed.append(k)
        if len(timed) > MAX_TIMEOUTS:
            break
    if len(timed) <= MAX_TIMEOUTS:
        again = common.pmap(lambda k: run_impl(impl_dir, jobs[k][0], jobs[k][1], retry=True), timed)
        for k, r in zip(timed, again):
            res[k] = r
    return res


def run_model(progs, orders=None):
    if not progs:
        return []
    lines = [to_model(p, None if orders is None else orders[k]) for k, p in enumerate(progs)]
    out = common.run_model(PROP, "run", lines, timeout=900)
    res, cur = [], []
    for l in out:
        if l == "END":
            res.append(cur)
            cur = []
        else:
            cur.append(l)
    if len(res) != len(progs):
        raise RuntimeError("model result count %d != %d" % (len(res), len(progs)))
    fin = []
    for r in res:
        outl = [x[2:] for x in r if x.startswith("O ")]
        cls = [x[2:] for x in r if x.startswith("R ")]
        fin.append((outl, cls[-1] if cls else "missing"))
    return fin


def agree(m, i):
    return m[0] == i[0] and m[1] == i[1]


# model answers that put a program outside the modelled domain (dropped, counted)
OUTSIDE = ("range", "bad", "unmodelled", "fuel")


# ------------------------------------------------------------------ property's own oracle (independent, Python)
def spec_run(p, stats=None):
    """The property's own reading, independent of the Coq model: dispatch on (interface, dynamic type),
    self = receiver (the same object: every write visible at once), one statics cell per (interface, type, name)
    for the whole run - a method body always reads the cell of the pair that declares it, however deep the call
    is nested -, no-impl rejected. Returns (lines, class). Differs from the pinned code exactly where the known
    findings are. `stats` (a dict) receives the measured nesting facts of the run."""
    types = {t["name"]: t for t in p["types"]}
    impl = {}
    seen = []
    ifm = dict(p["ifaces"])
    for d in p["impls"]:
        have = [m["name"] for m in d["methods"]]
        for m in ifm.get(d["iface"], []):
            if m not in have:
                return [], "incomplete"
        if (d["iface"], d["type"]) in seen:
            return [], "duplicate"
        seen.append((d["iface"], d["type"]))
    for d in p["impls"]:
        # (two interfaces giving one type the same method name is not something the property forbids:
        #  through an interface value the pair decides; only a struct-typed receiver is then ambiguous)
        impl[(d["iface"], d["type"])] = d
    statics = {(d["iface"], d["type"], n): z for d in p["impls"] for n, z in d["statics"]}
    out = []
    st = stats if stats is not None else {}
    st.update({"max_depth": 0, "max_pairs_on_stack": 0, "static_after_nested_at_depth2plus": 0, "calls": 0,
               "void_calls": 0, "body_recv": {}, "recursion": 0, "pair_reentered": 0})

    def mkcell(v):
        t = types[v["type"]]
        if v["kind"] == "conc":
            return {"k": "conc", "t": t["name"], "p": v["init"] if t["kind"] == "prim" else dict(zip(t["fields"], v["init"]))}
        return {"k": "arr", "t": t["name"], "es": [dict(zip(t["fields"], el)) for el in v["init"]]}

    mstack = []

    class Stop(Exception):
        pass

    def ev(e, self_, d, pair):
        k = e[0]
        if k == "c":
            return e[1]
        if k == "a":
            return d
        if k == "s":
            return self_["p"]
        if k == "f":
            return self_["p"][e[1]]
        if k == "t":
            return statics[(pair[0], pair[1], e[1])]
        a, b = ev(e[1], self_, d, pair), ev(e[2], self_, d, pair)
        return a + b if k == "+" else a - b if k == "-" else a * b

    def find_method(t, m, via_iface):
        cands = [dd for (i, tt), dd in impl.items() if tt == t and (via_iface is None or i == via_iface)]
        hits = [(dd, mm) for dd in cands for mm in dd["methods"] if mm["name"] == m]
        if len(hits) > 1:
            raise Stop("ambiguous")
        if hits:
            return hits[0]
        raise Stop("undeffunc")

    def call(cell, m, d, chain):
        if len(chain) > 200:
            raise Stop("fuel")
        via = cell.get("i")
        dd, mm = find_method(cell["t"], m, via)
        pair = (dd["iface"], dd["type"])
        chain = chain + [pair]
        st["calls"] += 1
        st["void_calls"] += 1 if m_void(mm) else 0
        st["max_depth"] = max(st["max_depth"], len(chain))
        st["max_pairs_on_stack"] = max(st["max_pairs_on_stack"], len(set(chain)))
        if chain.count(pair) > 1:
            st["pair_reentered"] = 1
        if mstack.count(id(mm)) >= 1:
            st["recursion"] = 1
        mstack.append(id(mm))
        L = {v["name"]: mkcell(v) for v in m_locals(mm)}
        nested = [False]

        def ex(s):
            if s[0] == "G":
                if ev(s[1], cell, d, pair) > 0:
                    ex(s[2])
                return
            if nested[0] and len(chain) >= 2 and len(set(chain)) >= 2 and stmt_uses_static(s):
                st["static_after_nested_at_depth2plus"] += 1
            if s[0] == "C":
                inner = {"k": "conc", "t": cell["t"], "p": cell["p"]}     # the same object: writes stay visible
                r = call(inner, s[2], ev(s[3], cell, d, pair), chain)
                cell["p"] = inner["p"]
                nested[0] = True
                out.append("%s %d" % (s[1], r))
            elif s[0] == "O":
                if s[1][0] in ("c", "v"):
                    if s[1][0] == "c":
                        kind = {"V": "var", "P": "ptr", "E": "elem"}[s[1][1][0]]
                        if s[1][1][0] == "V" and L.get(s[1][1][1], {}).get("k") == "iface":
                            kind = "iface"
                        st["body_recv"][kind] = st["body_recv"].get(kind, 0) + 1
                    else:
                        st["body_recv"]["helper"] = st["body_recv"].get("helper", 0) + 1
                do_op(L, s[1], chain)
                if s[1][0] in ("c", "v"):
                    nested[0] = True
            elif s[0] == "F":
                cell["p"][s[1]] = ev(s[2], cell, d, pair)
            elif s[0] == "S":
                key = (pair[0], pair[1], s[1])
                if key not in statics:
                    raise KeyError(key)
                statics[key] = ev(s[2], cell, d, pair)
            else:
                out.append(" ".join([s[1]] + [str(ev(x, cell, d, pair)) for x in s[2]]))
        try:
            for s in mm["body"]:
                ex(s)
        finally:
            mstack.pop()
        return 0 if m_void(mm) else ev(mm["ret"], cell, d, pair)

    def copy_payload(c):
        return dict(c["p"]) if isinstance(c["p"], dict) else c["p"]

    def bind(V, x, i, src):
        s = V[src]
        if (i, s["t"]) not in impl:
            raise Stop("noimpl")
        V[x] = {"k": "iface", "i": i, "t": s["t"], "p": copy_payload(s)}
    helpers = {h["name"]: h for h in p["helpers"]}

    def do_op(V, o, chain):
        k = o[0]
        if k == "b":
            bind(V, o[1], o[2], o[3])
        elif k == "p":
            V[o[1]] = {"k": "ptr", "x": o[2]}
        elif k == "c":
            r = o[1]
            if r[0] == "V":
                cell = V[r[1]]
            elif r[0] == "P":
                cell = V[V[r[1]]["x"]]
            else:
                a = V[r[1]]
                cell = {"k": "conc", "t": a["t"], "p": a["es"][r[2]]}
            out.append(str(call(cell, o[2], o[3], chain)))
        elif k == "v":
            h = helpers[o[1]]
            if h["iface"]:
                bind(V, "$p", h["iface"], o[2])
            else:
                V["$p"] = {"k": "conc", "t": V[o[2]]["t"], "p": copy_payload(V[o[2]])}
            for m, c in h["calls"]:
                out.append("%s %d" % (h["name"], call(V["$p"], m, o[3] + c, chain)))
            del V["$p"]
        elif k == "s":
            if isinstance(V[o[1]]["p"], dict):
                V[o[1]]["p"][o[2]] = o[3]
            else:
                V[o[1]]["p"] = o[3]
        elif k == "e":
            V[o[1]]["es"][o[2]][o[3]] = o[4]
        elif k == "w":
            v = V[o[1]]
            if v["k"] == "arr":
                vals = [z for el in v["es"] for z in el.values()]
            elif isinstance(v["p"], dict):
                vals = list(v["p"].values())
            else:
                vals = [v["p"]]
            out.append(" ".join([o[1]] + [str(z) for z in vals]))
    V = {v["name"]: mkcell(v) for v in p["vars"]}
    try:
        for o in p["ops"]:
            do_op(V, o, [])
    except Stop as s:
        return out, str(s)
    except KeyError:
        return out, "undefvar"
    return out, "ok"


# ------------------------------------------------------------------ shrinking
def well_scoped(p):
    """every name an operation mentions is declared before it (shrinking must not invent scope errors)"""
    known = {v["name"] for v in p["vars"]}
    arrs = {v["name"]: len(v["init"]) for v in p["vars"] if v["kind"] == "arr"}
    helpers = {h["name"] for h in p["helpers"]}
    types = {t["name"] for t in p["types"]}
    if any(d["type"] not in types for d in p["impls"]) or any(v["type"] not in types for v in p["vars"]):
        return False
    for o in p["ops"]:
        k = o[0]
        if k == "b":
            if o[3] not in known:
                return False
            known.add(o[1])
        elif k == "p":
            if o[2] not in known:
                return False
            known.add(o[1])
        elif k == "c":
            r = o[1]
            if r[1] not in known or (r[0] == "E" and (r[1] not in arrs or r[2] >= arrs[r[1]])):
                return False
        elif k == "v":
            if o[1] not in helpers or o[2] not in known:
                return False
        elif k in ("s", "w"):
            if o[1] not in known:
                return False
        elif k == "e":
            if o[1] not in arrs or o[2] >= arrs[o[1]]:
                return False
    return True


def shrink(p, bad, budget=400, seconds=60):
    """greedy deletion of operations, helpers' calls, statements, impls, variables while `bad(p)` holds
    (at most `budget` evaluations and `seconds` of wall time)"""
    import time
    p = json.loads(json.dumps(p))
    n = [0]
    t_end = time.time() + seconds

    def ok(q):
        n[0] += 1
        if n[0] > budget or time.time() > t_end or not well_scoped(q):
            return False
        try:
            return bad(q)
        except Exception:
            return False
    changed = True
    while changed and n[0] <= budget:
        changed = False
        for k in range(len(p["ops"]) - 1, -1, -1):
            q = json.loads(json.dumps(p))
            del q["ops"][k]
            if ok(q):
                p = q
                changed = True
        for di in range(len(p["impls"])):
            for mi in range(len(p["impls"][di]["methods"])):
                body = p["impls"][di]["methods"][mi]["body"]
                for k in range(len(body) - 1, -1, -1):
                    q = json.loads(json.dumps(p))
                    del q["impls"][di]["methods"][mi]["body"][k]
                    if ok(q):
                        p = q
                        changed = True
        for di in range(len(p["impls"])):
            for mi in range(len(p["impls"][di]["methods"])):
                m = p["impls"][di]["methods"][mi]
                for k in range(len(m["body"])):          # open a guard
                    if m["body"][k][0] == "G":
                        q = json.loads(json.dumps(p))
                        q["impls"][di]["methods"][mi]["body"][k] = m["body"][k][2]
                        if ok(q):
                            p = q
                            changed = True
                            m = p["impls"][di]["methods"][mi]
                for k in range(len(m_locals(m)) - 1, -1, -1):
                    q = json.loads(json.dumps(p))
                    del q["impls"][di]["methods"][mi]["locals"][k]
                    if ok(q):
                        p = q
                        changed = True
        for hi in range(len(p["helpers"]) - 1, -1, -1):
            q = json.loads(json.dumps(p))
            del q["helpers"][hi]
            if ok(q):
                p = q
                changed = True
                continue
            for k in range(len(p["helpers"][hi]["calls"]) - 1, -1, -1):
                if len(p["helpers"][hi]["calls"]) > 1:
                    q = json.loads(json.dumps(p))
                    del q["helpers"][hi]["calls"][k]
                    if ok(q):
                        p = q
                        changed = True
        for di in range(len(p["impls"]) - 1, -1, -1):
            q = json.loads(json.dumps(p))
            del q["impls"][di]
            if ok(q):
                p = q
                changed = True
        for vi in range(len(p["vars"]) - 1, -1, -1):
            q = json.loads(json.dumps(p))
            del q["vars"][vi]
            if ok(q):
                p = q
                changed = True
    return p


def prog_features(p):
    f = set()
    types = {t["name"]: t["kind"] for t in p["types"]}
    for o in p["ops"]:
        if o[0] == "c":
            f.add("recv-" + {"V": "var", "P": "ptr", "E": "elem"}[o[1][0]])
        else:
            f.add("op-" + o[0])
    if any(k == "prim" for k in types.values()):
        f.add("prim-type")
    meths = {(d["type"], m["name"]): m for d in p["impls"] for m in d["methods"]}
    if any(s[0] == "C" for m in meths.values() for s in stmts_flat(m["body"])):
        f.add("nested-self-call")
    if any(s[0] == "G" for m in meths.values() for s in m["body"]):
        f.add("guarded-call")
    if any(m_locals(m) for m in meths.values()):
        f.add("method-declares-objects")
    if any(m_void(m) for m in meths.values()):
        f.add("void-method")
    if any(m["ret"] == ["s"] for m in meths.values()):
        f.add("return-self")
    vt = {v["name"]: v for v in p["vars"]}
    if any(v["kind"] == "conc" and types[v["type"]] == "prim" and v["init"] < 0 for v in p["vars"]):
        f.add("negative-primitive")
    for o in p["ops"]:
        if o[0] == "c" and o[1][0] in ("V", "E") and o[1][1] in vt:
            m = meths.get((vt[o[1][1]]["type"], o[2]))
            if m is not None and method_uses_statics(m):
                f.add("statics-through-concrete-receiver")
    if any(d["statics"] for d in p["impls"]):
        f.add("statics")
    # measured on a run of the property's own oracle: how deep the calls really nest, what they go through
    st = {}
    try:
        spec_run(p, st)
    except Exception:
        return f
    dp = st.get("max_depth", 0)
    f.add("depth-%s" % (dp if dp < 5 else "5+"))
    if dp >= 3:
        f.add("depth>=3")
    if st.get("max_pairs_on_stack", 0) >= 2:
        f.add("pairs-on-stack>=2")
    if st.get("max_pairs_on_stack", 0) >= 3:
        f.add("pairs-on-stack>=3")
    if st.get("static_after_nested_at_depth2plus"):
        f.add("static-touched-after-nested-call-at-depth>=2")
    if st.get("recursion"):
        f.add("recursion-executed")
    if st.get("void_calls"):
        f.add("void-call-executed")
    for k in st.get("body_recv", {}):
        f.add("body-call-through-" + k)
    return f


# ------------------------------------------------------------------ known findings
def finding_trips(entry, impl_dir):
    """run the stored source; returns (still_failing, observed)"""
    rc, o, e = common.run_cb(impl_dir, entry["replay"]["source"], timeout=10)
    got = [l for l in o.split("\n") if l != ""]
    cls = classify(rc, e)
    want = entry["replay"]["expected_stdout"]
    want_cls = entry["replay"].get("expected_class", "ok")
    return (got != want or cls != want_cls), {"stdout": got, "class": cls}


# ------------------------------------------------------------------ main
def run(rep):
    seed, tier = rep.seed, rep.tier
    cq = common.coq_check_props(PROP)
    common.proof_coverage(rep, cq)
    if tier == "thorough" and cq["ok"]:
        okc, summ = common.coqchk(PROP)
        rep.coverage["coqchk"] = {"ok": okc, "context_summary": summ[:1500]}
        if not okc:
            rep.violation("coqchk", {"output": summ[-3000:]}, "coqchk rejects the compiled C12 development", True)
    if not cq["ok"]:
        rep.violation("proof", {"theorem": cq["failed_theorem"], "log": cq["log"][-3000:]},
                      "proof obligation %s no longer checks" % cq["failed_theorem"], True)
    common.ensure_model(PROP)
    impl = common.build_impl("plain")

    progs, origin = [], []
    corpus = os.path.join(common.VERIF, "corpus", "c12.json")
    regress = []
    if os.path.exists(corpus):
        for c in json.load(open(corpus)):
            if "source" in c:
                regress.append(c)      # repaired defect outside the model's language: source + demanded output
            else:
                progs.append(c)
                origin.append("corpus")
    for c in regress:
        rc, o, e = common.run_cb(impl, c["source"], timeout=10)
        got = ([l for l in o.split("\n") if l != ""], classify(rc, e))
        if got[0] != c["expected_stdout"] or got[1] != c.get("expected_class", "ok"):
            rep.violation("regress", {"source": c["source"], "impl": got, "expected": [c["expected_stdout"], c.get("expected_class", "ok")],
                                      "former_finding": c.get("former_finding")},
                          "a repaired C12 defect is back (%s): main prints %r, demanded %r" % (
                              c.get("former_finding"), got[0][:4], c["expected_stdout"][:4]))
    n_main = 2500 if tier == "quick" else 50000
    n_small = 1000 if tier == "quick" else 15000
    n_mal = 500 if tier == "quick" else 8000
    exh_len = 2 if tier == "quick" else 4
    n_exh = 0
    for p in exhaustive_programs(exh_len):
        progs.append(p)
        origin.append("exhaustive")
        n_exh += 1
    for k in range(n_small):
        rng = rng_for(seed, "c12-small", k)
        progs.append(gen_program(rng, rng.randint(2, 7), small=True))
        origin.append("small")
    for k in range(n_main):
        rng = rng_for(seed, "c12-main", k)
        progs.append(gen_program(rng, rng.randint(6, 26 if tier == "quick" else 40)))
        origin.append("main")
    kinds = ["noimpl", "noimpl", "noimpl", "conflict", "duplicate", "incomplete", "undeffunc"]
    for k in range(n_mal):
        rng = rng_for(seed, "c12-mal", k)
        what = kinds[k % len(kinds)]
        p = gen_program(rng, rng.randint(3, 14), malformed=what)
        if p is not None:
            progs.append(p)
            origin.append("malformed-" + what)

    models = run_model(progs)
    # programs outside the modelled domain (value outside int, unmodelled mixing) are dropped, counted
    keep = [k for k, m in enumerate(models) if m[1] not in OUTSIDE]
    dropped = len(progs) - len(keep)
    for cls in ("bad", "fuel"):
        if any(m[1] == cls for m in models):
            rep.notes.append("generator produced %d programs the model answers %r on" % (sum(1 for m in models if m[1] == cls), cls))
    progs = [progs[k] for k in keep]
    origin = [origin[k] for k in keep]
    models = [models[k] for k in keep]
    impls = run_impl_many(impl, [(p, None) for p in progs])
    not_run = sum(1 for i in impls if i is None)
    if not_run:
        rep.notes.append("%d programs not run: more than %d programs hang on this tree (time-outs are reported as disagreements)" % (not_run, MAX_TIMEOUTS))

    # registration-order independence: the same programs with their impl blocks permuted
    perm_idx = [k for k in range(len(progs)) if len(progs[k]["impls"]) >= 2 and
                (k % 3 == 0 if origin[k] != "exhaustive" else k % 40 == 0)]
    orders = []
    for k in perm_idx:
        rng = rng_for(seed, "c12-perm", k)
        od = list(range(len(progs[k]["impls"])))
        while od == list(range(len(od))):
            rng.shuffle(od)
        orders.append(od)
    if not_run:
        perm_idx, orders = [], []          # the tree hangs: the order-independence re-runs are skipped
    perm_impl = run_impl_many(impl, [(progs[k], od) for k, od in zip(perm_idx, orders)])
    perm_model = run_model([progs[k] for k in perm_idx], orders)

    hist, feats = {}, {}
    distinct, nontrivial = set(), 0
    for p, o, m in zip(progs, origin, models):
        hist[o] = hist.get(o, 0) + 1
        key = to_model(p)
        if key in distinct:
            continue
        distinct.add(key)
        fs = prog_features(p)
        for f in fs:
            feats[f] = feats.get(f, 0) + 1
        # non-trivial: at least one dispatched call printed something or the program is rejected
        if len(m[0]) > 0 or m[1] != "ok":
            nontrivial += 1
    bad = [(k, "corr") for k in range(len(progs)) if impls[k] is not None and not agree(models[k], impls[k])]
    badp = []
    for j, k in enumerate(perm_idx):
        if perm_model[j] != models[k]:
            continue        # rejected programs may name another first error in another order (the model does too)
        if perm_impl[j] is not None and impls[k] is not None and perm_impl[j] != impls[k]:
            badp.append(j)  # same program, same model answer, main prints something else: order dependence
    rep.coverage.update({
        "evaluations": len(progs) - not_run + len(perm_idx), "distinct_nontrivial": nontrivial, "not_run_after_timeouts": not_run,
        "rule": "generated Cb program run on main (stdout lines + error class) vs the extracted Coq model on the same program; "
                "distinct = distinct serialised programs; non-trivial = prints at least one line or is rejected",
        "input_distribution": hist, "feature_histogram": feats,
        "permuted_impl_order_runs": len(perm_idx), "dropped_outside_model_domain": dropped,
        "fixed_defect_source_replays": len(regress),
        "disagreements": len(bad) + len(badp),
        "samples": [{"program": to_cb(progs[k]), "model": models[k], "impl": impls[k]} for k in ([0, len(progs) // 2] if progs else [])],
        "exhaustive": True,
        "exhaustive_space": "fixed world (2 interfaces x 2 types, shared method/field/static names, m0 nests three deep across three "
                            "pairs through an interface copy of an object it declares and touches its static before and after): every "
                            "sequence of length <= %d over 16 operations (re-binding, calls through variable / copy / pointer / array "
                            "element / parameter, direct write, pointer re-targeting) between a fixed prefix and an observing suffix "
                            "(%d programs)" % (exh_len, n_exh),
    })

    def contradicts_spec(q, i):
        s = spec_run(q)
        return s[1] != "ambiguous" and (s[0] != i[0] or s[1] != i[1])

    def bad_fn(q, need_concrete=False):
        (m,) = run_model([q])
        if m[1] in OUTSIDE:
            return False
        i = run_impl(impl, q, retry=False)
        return (not agree(m, i)) and (not need_concrete or contradicts_spec(q, i))
    # disagreements on which main also contradicts the property's own oracle first, then the shortest
    bad.sort(key=lambda b: (not contradicts_spec(progs[b[0]], impls[b[0]]), len(progs[b[0]]["ops"])))
    for k, _ in bad[:4]:
        c0 = contradicts_spec(progs[k], impls[k])
        q = shrink(progs[k], lambda q2: bad_fn(q2, c0))
        (m,) = run_model([q])
        i = run_impl(impl, q, retry=False)
        if agree(m, i):                 # (a time-out that does not repeat: keep the unshrunk program)
            q, m, i = progs[k], models[k], impls[k]
        s = spec_run(q)
        concrete = contradicts_spec(q, i)
        firstdiff = next((("line %d: model %r / main %r" % (n + 1, a, b)) for n, (a, b) in
                          enumerate(zip(m[0] + ["<end>"] * 99, i[0] + ["<end>"] * 99)) if a != b), "same lines")
        rep.violation("corr", {"program": q, "source": to_cb(q), "model": m, "impl": i, "spec": s, "origin": origin[k],
                               "first_difference": firstdiff,
                               "broken": "correspondence Model.run_program = main (carrier of every C12 theorem)"},
                      "main and the proved model disagree on a generated interface program "
                      "(outcome model %s / main %s; %s; property oracle %s)" % (
                          m[1], i[1], firstdiff, "also disagrees with main" if concrete else "agrees with main"),
                      no_failing_input=not concrete)
    for j in badp[:3]:
        k = perm_idx[j]
        rep.violation("perm", {"program": progs[k], "source": to_cb(progs[k]), "permuted_source": to_cb(progs[k], orders[j]),
                               "order": orders[j], "impl": impls[k], "impl_permuted": perm_impl[j], "model_permuted": perm_model[j]},
                      "permuting the impl blocks of a program changes what main prints (the result depends on the registration order of the impl blocks)")

    # known findings: replay each stored program
    for f in common.known_findings(PROP):
        still, obs = finding_trips(f, impl)
        if still:
            rep.known(f["id"], f["what_fails"])
        else:
            rep.notes.append("known finding %s no longer reproduces (fixed?)" % f["id"])
        mp = f["replay"].get("model_program")
        if mp:
            (m,) = run_model([mp])
            if m[0] != obs["stdout"] or m[1] != obs["class"]:
                if still:
                    rep.violation("corr-known", {"finding": f["id"], "model": m, "impl": obs, "source": f["replay"]["source"]},
                                  "model and main disagree on known-finding replay " + f["id"], True)
    rep.assumptions += [
        "the model abstracts a struct value to one field list (Variable::struct_members and the flattened x.f variables are one thing)",
        "all fields, arguments, statics and results are int and stay inside int (programs leaving the range are dropped, counted)",
        "method bodies: assignments to self fields / impl statics, println, self.m(e), operations on objects the body declares (binding, "
        "pointers, calls through variable / interface copy / pointer / array element, helper calls), `if (e > 0)` guards, one return or "
        "none (void); every method is `int|void m(int d)`; calls nest to any depth (fuel 64 in the extracted run, never reached)",
        "methods with interface- / struct- / pointer-typed parameters (fixed source replays only), references, generic impls and "
        "interface variables mixing struct and primitive payloads are outside the model",
    ]


def replay(path):
    data = json.load(open(path))
    c = data["case"]
    common.ensure_model(PROP)
    impl = common.build_impl("plain")
    if "program" in c:
        (m,) = run_model([c["program"]])
        i = run_impl(impl, c["program"])
        print(to_cb(c["program"]))
        print("model:", m)
        print("impl: ", i)
        print("spec: ", spec_run(c["program"]))
        ok = agree(m, i)
        if "order" in c:
            ip = run_impl(impl, c["program"], c["order"])
            print("impl, impl blocks permuted %s: %s" % (c["order"], ip))
            ok = ok and ip == i
        return 0 if ok else 1
    if "source" in c:
        rc, o, e = common.run_cb(impl, c["source"])
        print(o, e[-500:], rc)
        return 1
    print(json.dumps(c, indent=1))
    return 1
