"""C09 - const objects and pointees are never modified after initialisation.

Theorems: coq/C09/Properties_C09.v.
  Part 1 (about the shared reference interpreter coq/Lang): every mutation form on a const entry is
  refused with the state unchanged; const globals / locals / statics keep their entry through every
  evaluation (generic state-relation induction).
  Part 2 (coq/C09/ConstPtr.v, a machine for pointers, references and array parameters with one const test per
  executor): handles are derived from objects and from other handles, locally or as the parameter of a further callee
  (derivation chains across call boundaries). Under the policy that makes all 46 tests const slots are immutable,
  const pointers / references keep their referent, no store is ever carried out through a const view or a handle
  derived from something const (ghost flag), the address of a const object needs a pointer to const; every test is
  necessary; the 13 x 12 matrix of the property and all derivation chains of up to 3 links (references, pointers;
  array parameters up to 4) are refused cell by cell, chains from a const object for ANY number of links.
  The policy of the current code (`mech`) makes 29 of the 46 tests: `_refuted` theorems for the 17 missing ones,
  confirmed here on the real binary and recorded as known findings.
  Part 3 (coq/C09/Paths.v, Properties_C09_paths.v): ACCESS PATHS into nested objects. A variable is a tree (scalars, arrays,
  structs, arrays of structs, any depth) with const on the variable and on struct members; a store names its target by an
  l-value x / e.m / e[i] in any mix. The walk that finds the variable to test reaches the root of every path (and a walk
  that strips members and then at most one subscript is characterised: it misses exactly the paths with a subscript after
  the first step); under the policy with all 79 tests (one per path shape x store form x reason) every protected cell keeps
  its value for every script; each test is necessary; the policy of the code lacks 19 (refuted, recorded as findings).
Tie (every run, against /repo's current sources built by common.build_impl):
  * the full matrix as hand-written Cb templates (gen_c09.cell), const version and control twin,
    against the extracted verdicts of spec and mech;
  * the same cells and one witness per check site rendered generically from the Coq scripts;
  * every derivation chain (object kind x links local/parameter x const/non-const x final store form), object local and
    global, full transcript against spec and mech;
  * template cells for object kinds / paths outside the machine (strings, floats, 2-D arrays, nested members, methods,
    reference-returning functions, double pointers ...), const version and control twin;
  * random scripts of the machine incl. callees (a stream that stays off the known holes: main = spec = mech; a free
    stream: main = mech, or = spec when a hole was repaired);
  * random CbCore programs around const objects against the extracted Ref (langrun.differential);
  * access paths (harness/c09_paths.py): one witness + control twin per path check site, the whole universe of
    coq/C09/PathModel.v (8 object graphs x const on nothing / the variable / one member x every scalar cell x =, op=, ++ and
    every inner node x variable / literal source; the const-variable cases in every way of creating the variable, with every
    scalar type and every right-hand-side form), random multi-variable path scripts with full transcripts.
"""
import collections
import json
import os
import time

import c09_paths
import common
import gen_c09
import langrun
from common import rng_for

PROP = "C09"
LEVEL = "proof"
META = {
    "category": "proof",
    "technique": "Coq: generic state-relation induction over the shared reference interpreter (const entries immutable for every program/fuel) + "
                 "invariant proof on a pointer/reference/array-parameter machine with one const test per executor and handles derived from handles "
                 "across call boundaries (sufficiency incl. a ghost 'no store through a const view', necessity of each test, exhaustive 13x12 matrix, "
                 "exhaustive derivation chains up to depth 3 and any-depth induction) + a tree-valued access-path machine (nested structs / arrays, const on "
                 "variables and members, l-values as expressions: root-walk totality, immutability of every protected cell for every script by induction, "
                 "necessity of each of 79 tests) + extracted-model differential runs against main",
    "text": "Machine-checked for all programs, states and fuels of the reference interpreter coq/Lang: a store to a const entry (=, op=, ++/--, element "
            "store) fails with the const error and leaves the state unchanged, and every const global, local and static is literally the same entry "
            "after any expression or statement. Pointers, references and array parameters are a separate Gallina machine (objects with const flags, "
            "handles with declared const / pointer-const flags, derived from objects or from other handles by local declaration, assignment or as the "
            "parameter of a further callee; 46 check sites mirroring the executors of the implementation): with every test in place const slots never "
            "change, `T* const` pointers and references keep their referent, no store is carried out through a const view or through a handle derived "
            "- over any number of copies, re-bindings and calls - from something const, and the address of a const object is only given to pointers "
            "to const, for every script; each test is shown necessary; all expressible cells of the object-kind x mutation-path matrix and all "
            "derivation chains of 1..3 links (x const/non-const x local/parameter x final store form; array parameters 1..4) are refused exactly "
            "when the object or any link is const, and chains from a const object are refused at any depth. The policy of the current code makes 29 "
            "of the 46 tests (proved for the model, confirmed on main); the 17 missing tests are refuted with witnesses. On every run the matrix "
            "(hand-written Cb templates with a control twin per cell), one witness per check site, every derivation chain, template cells outside "
            "the machine, random machine scripts with callees and random CbCore programs are executed on /repo's main and compared with the "
            "extracted models; the missing tests are reported as known findings. Access paths into nested objects are a third machine (variables are "
            "trees of scalars, arrays, structs and struct arrays of any depth, const on the variable and on members, targets named by l-values "
            "x / e.m / e[i] in any mix): the walk that finds the variable whose const is tested reaches the root of every path (a walk that strips "
            "members and then at most one subscript misses exactly the paths with a subscript after the first step); with all 79 tests (path shape x "
            "=, op=, ++ x reason: const variable, const last member, const member further up; whole-sub-object stores x source x reason) every "
            "scalar store and every whole-sub-object store on something protected is refused, every protected cell keeps its value and its "
            "protection through every script, each test is necessary; the code's policy makes 60 of them, the 19 missing are refuted with "
            "witnesses. On every run the witnesses, the complete universe of 8 object graphs x const placements x cells / nodes x store forms "
            "(const-variable cases in every way of creating the variable, every scalar type, every right-hand-side form) and random path scripts "
            "are compared with main.",
    "note": "Trusted: Coq kernel incl. vm_compute (finite sweeps: 156 cells, 46 sites, ~6000 chains), no axioms (Print Assumptions closed); extraction "
            "(ExtrOcamlBasic, ExtrOcamlString) + OCaml drivers (lang_driver, c09_driver); the machine ConstPtr.v and its `mech` policy are "
            "hand-written from the C++ (site list in ConstPtr.v); the tie is differential testing. Not modelled (template cells only): strings, "
            "floats, 2-D arrays, methods, reference-returning functions, double pointers; the history on which "
            "`r.m = v` through a reference to a const struct depends is modelled for two histories only (nothing read / read through this reference). "
            "Path machine: coq/C09/Paths.v `pmech`, `exec_set`, `exec_sub` (what the interpreter can execute at all on non-const objects) are "
            "hand-written from measurements and tied by the witnesses and control twins on every run; the implementation's const tests on members of "
            "struct-array elements and below const struct-typed members depend on read / is_assigned history the machine does not have (those sites "
            "are `missing`, a refusal through them is tolerated); pointers / references / methods combined with nested paths are not executable by "
            "the interpreter and outside the comparison.",
}

CH_CHAINS = 4000
MAIN2MODEL = {"rejected": "rejected", "accepted-changed": "changed", "accepted-unchanged": "unchanged"}


def load_findings():
    return common.known_findings(PROP)


def site_to_finding(findings):
    m = {}
    for f in findings:
        for s in f["signature"].get("sites", []):
            m[s] = f
    return m


def model_cmd(sub, lines=None):
    common.ensure_model(PROP)
    data = ("\n".join(lines) + "\n").encode() if lines is not None else None
    rc, o, e = common.sh([common.model_bin(PROP), sub], input=data, timeout=900)
    if rc != 0:
        raise RuntimeError("c09_model %s failed rc=%d: %s" % (sub, rc, e[-800:]))
    return o


OBS = {"arg": None}     # the policy observed on the implementation's site witnesses (set by run())
ERRS = collections.Counter()     # first error line of every implementation run that ended with an error (which guards fired)


def note_error(rc, err):
    if rc == 0:
        return
    ls = [l for l in err.split("\n") if l.strip()]
    for l in ([l for l in ls if l.startswith("Error:")] + [l for l in ls if "Cannot" in l] + ls):
        if l:
            import re
            ERRS[re.sub(r"'[^']*'", "'_'", re.sub(r"\b[opr]+\d+(\.m\d+)?\b|\bcf?\d+\b", "_", l.strip()))[:110]] += 1
            return
    ERRS["(rc=%d, no message)" % rc] += 1


def model_cmd_args(args, lines):
    common.ensure_model(PROP)
    rc, o, e = common.sh([common.model_bin(PROP)] + args, input=("\n".join(lines) + "\n").encode(), timeout=900)
    if rc != 0:
        raise RuntimeError("c09_model %s failed rc=%d: %s" % (args, rc, e[-800:]))
    return o


def model_runs(scripts):
    res = gen_c09.parse_model_output(model_cmd_args(["run"] + ([OBS["arg"]] if OBS["arg"] else []), scripts))
    if len(res) != len(scripts):
        raise RuntimeError("c09_model returned %d results for %d scripts" % (len(res), len(scripts)))
    return res


def divergence_site(r):
    """the check site at which the runs of spec and mech part: the first operation spec refuses and mech carries
    out, or - when both carry it out with different results - the one executor that does not write (s.m++)"""
    ss, ms = r["spec"][1], r["mech"][1]
    d = 0
    while d < len(ss) and d < len(ms) and ss[d] == ms[d]:
        d += 1
    if d == len(ss) and r["spec"][0].startswith("rej"):
        return r["spec"][0].split(":")[-1]
    return "MemberIncDec"


def judge_script(r, out, plan):
    """-> (class, detail): ok | hole:<site> | fixed:<site> | mismatch | skip"""
    if "error" in r or plan is None or r["free"][0].startswith("stuck") or r["spec"][0].startswith("stuck") or r["mech"][0].startswith("stuck"):
        return "skip", "ill-formed script"
    es = gen_c09.expected_transcript(r["spec"], r["init"], plan)
    em = gen_c09.expected_transcript(r["mech"], r["init"], plan)
    rc, o, e = out
    got = (o, rc != 0)
    if rc not in (0, 1):
        return "mismatch", "implementation ended with status %d" % rc
    site = divergence_site(r)
    if got[1] and got in (es, em) and "const" not in e.lower():
        # every const guard of the implementation names the reason; a run that stops where a refusal is due but for another
        # reason (unsupported construct, type error, crash message) says nothing about the guard
        return "mismatch", "main stops where a refusal is due, but its message does not mention const: %s" % (e.strip().split("\n")[-1][:160])
    if es == em:
        return ("ok", "") if got == es else ("mismatch", "spec and mech agree, main differs")
    if got == em:
        return "hole:" + site, ""
    if got == es:
        return "fixed:" + site, ""
    if "obs" in r and got == gen_c09.expected_transcript(r["obs"], r["init"], plan):
        # the machine under the tests actually observed on this binary (some recorded holes repaired, others not)
        return "fixed:" + site, ""
    return "mismatch", "main equals neither mech nor spec"


def run_scripts(impl, scripts, globs):
    """-> list of (script, program, model result, (rc,out,err), class, detail, plan)"""
    res = model_runs(scripts)
    progs, plans = [], []
    for s, g, r in zip(scripts, globs, res):
        p, pl = None, None
        if "error" not in r and not r["free"][0].startswith("stuck"):
            try:
                p, pl = gen_c09.render_script(s, r["free"][1], g)
            except gen_c09.RenderError:
                p, pl = None, None
        progs.append(p)
        plans.append(pl)
    outs = common.pmap(lambda p: common.run_cb(impl, p) if p else (0, "", ""), progs)
    rows = []
    for s, p, r, o, pl in zip(scripts, progs, res, outs, plans):
        if p:
            note_error(o[0], o[2])
        c, d = judge_script(r, o, pl)
        rows.append((s, p, r, o, c, d, pl))
    return rows


def shrink_script(impl, script, glob, want):
    """delete operations while the judgement stays `want` (a class prefix)"""
    head, ops = script.rsplit("|", 1)
    ops = [x for x in ops.split(";") if x.strip()]
    changed = True
    budget = 40
    while changed and budget > 0:
        changed = False
        for k in range(len(ops) - 1, -1, -1):
            cand = ops[:k] + ops[k + 1:]
            s2 = head + "|" + ";".join(cand)
            budget -= 1
            try:
                row = run_scripts(impl, [s2], [glob])[0]
            except Exception:
                continue
            if row[4].startswith(want):
                ops = cand
                changed = True
                break
            if budget <= 0:
                break
    return head + "|" + ";".join(ops)


def report_script(rep, impl, row, glob, origin, fmap, stats, strict):
    s, p, r, o, c, d, pl = row
    stats[c.split(":")[0] if not c.startswith("hole") else c] += 1
    if c == "ok" or c == "skip":
        return
    if c.startswith("hole:") and not strict:
        site = c[5:]
        f = fmap.get(site)
        if f:
            rep.known(f["id"], f["what_fails"])
            return
        d = "implementation follows mech through check site %s for which no finding is recorded" % site
    elif c.startswith("hole:"):
        d = "stream built to avoid the recorded findings reached check site %s" % c[5:]
    elif c.startswith("fixed:"):
        msg = "check site %s: main now refuses what the model of the code accepts (finding repaired? update mech_chk in coq/C09/ConstPtr.v); first seen on %s" % (c[6:], s)
        if not any(n.startswith("check site %s:" % c[6:]) for n in rep.notes):
            rep.notes.append(msg)
        return
    small = s
    try:
        small = shrink_script(impl, s, glob, c.split(":")[0])
    except Exception:
        pass
    row2 = run_scripts(impl, [small], [glob])[0]
    s2, p2, r2, o2, c2, d2, pl2 = row2
    es = gen_c09.expected_transcript(r2["spec"], r2["init"], pl2)
    # the property's own oracle: a protected value changed / an attempt was not refused <=> main's transcript goes beyond spec's
    spec_fails = not (o2[1] == es[0] and (o2[0] != 0) == es[1])
    rep.violation("script", {"script": small, "globals": list(glob), "program": p2, "origin": origin, "why": d or d2,
                             "spec": {"outcome": r2["spec"][0], "stdout": es[0]},
                             "mech": {"outcome": r2["mech"][0], "stdout": gen_c09.expected_transcript(r2["mech"], r2["init"], pl2)[0]},
                             "impl_rc": o2[0], "impl_stdout": o2[1], "impl_stderr": o2[2][-500:]},
                  "main disagrees with the const machine (%s; %s)" % (origin, d or d2), no_failing_input=not spec_fails)


def run(rep):
    seed, tier = rep.seed, rep.tier
    phase, t_last = {}, [time.time()]

    def lap(name):
        phase[name] = round(time.time() - t_last[0], 1)
        t_last[0] = time.time()
    cq = common.coq_check_props(PROP)
    common.proof_coverage(rep, cq)
    if tier == "thorough" and cq["ok"]:
        ok, axioms = common.coqchk(PROP)
        rep.coverage["coqchk"] = {"ok": ok, "context_summary": axioms[:1500]}
        if not ok:
            rep.violation("coqchk", {"output": axioms[-3000:]}, "coqchk rejects the compiled development", True)
    if not cq["ok"]:
        rep.violation("proof", {"theorem": cq["failed_theorem"], "log": cq["log"][-3000:]},
                      "proof obligation %s no longer checks" % cq["failed_theorem"], True)
    lap("coq")
    impl = common.build_impl("plain")
    lap("build")
    findings = load_findings()
    fmap = site_to_finding(findings)
    ERRS.clear()
    stats = collections.Counter()
    evaluations = 0
    nontrivial = set()
    samples = []

    # ---------------------------------------------------------------- check sites (policy table of the model)
    sites = []
    for l in model_cmd("sites").split("\n"):
        w = l.split("\t")
        if w[0] == "SITE":
            sites.append({"name": w[1], "chk": w[2] == "chk=1", "eff": w[3] == "eff=1", "script": w[4],
                          "spec": w[5][5:], "mech": w[6][5:]})
    holes = [s["name"] for s in sites if not s["chk"]]
    # executors that accept but do not write (s.m++ loses its result for every struct - not a const matter): never generated
    noeff = [s["name"] for s in sites if not s["eff"]]
    for h in holes:
        if h not in fmap:
            rep.violation("site", {"site": h}, "model policy lacks test %s but no finding records it" % h, True)
    OBS["arg"] = None
    rows = run_scripts(impl, [s["script"] for s in sites], [()] * len(sites))
    evaluations += len(rows)
    site_stats = collections.Counter()
    obs_chk, obs_noeff = [], []
    for st, row in zip(sites, rows):
        report_script(rep, impl, row, (), "witness of check site " + st["name"], fmap, site_stats, strict=False)
        nontrivial.add(row[1])
        # which tests does THIS binary make? (the witness is refused <=> the test is there)
        refused = row[3][0] == 1 and row[3][1] == gen_c09.expected_transcript(row[2]["spec"], row[2]["init"], row[6])[0]
        if refused if row[4] != "mismatch" else st["chk"]:
            obs_chk.append(st["name"])
        if not st["eff"]:            # (whether an accepted s.m++ writes cannot be seen on a refused witness: keep the model's entry)
            obs_noeff.append(st["name"])
    if sorted(obs_chk) != sorted(s["name"] for s in sites if s["chk"]):
        # some recorded hole was repaired: multi-step scripts are judged against the machine with the observed tests too
        OBS["arg"] = ",".join(obs_chk) + ";" + ",".join(obs_noeff)
        rep.notes.append("tests observed on this binary differ from coq/C09/ConstPtr.v mech_chk: additionally present %s"
                         % sorted(set(obs_chk) - set(s["name"] for s in sites if s["chk"])))
    samples.append({"site": sites[2]["name"], "script": sites[2]["script"], "program": rows[2][1], "judgement": rows[2][4]})

    lap("sites")
    # ---------------------------------------------------------------- the matrix: hand-written templates + generic rendering
    cells = []
    for l in model_cmd("matrix").split("\n"):
        w = l.split("\t")
        if w[0] == "CELL":
            cells.append({"kind": w[1], "path": w[2], "script": w[3], "spec": w[4][5:], "mech": w[5][5:],
                          "twin": w[6], "twin_spec": w[7][10:], "twin_mech": w[8][10:]})
    assert [c["kind"] for c in cells[::len(gen_c09.PATHS)]] == gen_c09.KINDS and [c["path"] for c in cells[:len(gen_c09.PATHS)]] == gen_c09.PATHS
    jobs = []
    for c in cells:
        for cst in (True, False):
            src = gen_c09.cell(c["kind"], c["path"], cst)
            if src:
                jobs.append((c, cst, src))
    outs = common.pmap(lambda j: common.run_cb(impl, j[2]), jobs)
    evaluations += len(jobs)
    got = {}
    for (c, cst, src), (rc, o, e) in zip(jobs, outs):
        got[(c["kind"], c["path"], cst)] = (gen_c09.classify(rc, o, e), src, rc, o, e)
    applicable = [c for c in cells if c["script"] != "-"]
    # the site at which spec refuses each cell (for the finding lookup)
    cell_runs = model_runs([c["script"] for c in applicable])
    mstat = collections.Counter()
    table = {}
    for c, r in zip(applicable, cell_runs):
        key = (c["kind"], c["path"])
        site = r["spec"][0].split(":")[-1]
        g1 = got.get(key + (True,))
        g0 = got.get(key + (False,))
        if g1 is None or g0 is None:
            rep.violation("matrix", {"cell": key}, "matrix cell %s/%s has a scenario in the model but no Cb template" % key, True)
            continue
        nontrivial.add(g1[1])
        m1 = MAIN2MODEL.get(g1[0], g1[0])
        m0 = MAIN2MODEL.get(g0[0], g0[0])
        table["%s/%s" % key] = m1
        if m0 != c["twin_mech"]:
            mstat["twin-mismatch"] += 1
            if mstat["twin-mismatch"] <= 4:
                rep.violation("matrix-twin", {"cell": key, "program": g0[1], "expected": c["twin_mech"], "observed": g0[0],
                                          "impl_stdout": g0[3], "impl_stderr": g0[4][-400:]},
                          "control twin of matrix cell %s/%s: model says %s, main %s" % (key + (c["twin_mech"], g0[0])), True)
        if m1 == c["mech"]:
            if c["mech"] == c["spec"]:
                mstat["refused"] += 1
            else:
                mstat["hole:" + site] += 1
                f = fmap.get(site)
                if f:
                    rep.known(f["id"], f["what_fails"])
                else:
                    rep.violation("matrix", {"cell": key, "program": g1[1], "site": site, "observed": g1[0], "impl_stdout": g1[3]},
                                  "matrix cell %s/%s is not refused and no finding covers check site %s" % (key + (site,)))
        elif m1 == c["spec"]:
            mstat["fixed:" + site] += 1
            if not any(n.startswith("matrix: check site %s " % site) for n in rep.notes):
                rep.notes.append("matrix: check site %s now refuses (first cell %s/%s; repaired? update mech_chk)" % ((site,) + key))
        else:
            mstat["mismatch"] += 1
            if mstat["mismatch"] > 8:          # the first eight are reported with a replay each, the rest are counted
                continue
            rep.violation("matrix", {"cell": key, "program": g1[1], "spec": c["spec"], "mech": c["mech"], "observed": g1[0],
                                     "impl_rc": g1[2], "impl_stdout": g1[3], "impl_stderr": g1[4][-400:], "site": site},
                          "matrix cell %s/%s (%s): the property demands %s, the model of the code says %s, main: %s"
                          % (key + (site, c["spec"], c["mech"], g1[0])),
                          no_failing_input=(g1[0] in ("rejected", "rejected-early")))
    # cells the model has no scenario for (construct not supported by the implementation): the const value must still not change
    for c in cells:
        if c["script"] == "-":
            g1 = got.get((c["kind"], c["path"], True))
            g0 = got.get((c["kind"], c["path"], False))
            if g1 is None:
                mstat["not-expressible"] += 1
                continue
            mstat["unsupported-construct"] += 1
            if g1[0] in ("accepted-changed", "late-error-changed"):
                rep.violation("matrix", {"cell": (c["kind"], c["path"]), "program": g1[1], "observed": g1[0], "impl_stdout": g1[3]},
                              "matrix cell %s/%s outside the model: the const value changed" % (c["kind"], c["path"]))
            elif g0 and g0[0] == "accepted-changed":
                rep.notes.append("matrix cell %s/%s: the control twin now runs; the model has no scenario for it" % (c["kind"], c["path"]))
    # generic rendering of the same scenarios
    rows = run_scripts(impl, [c["script"] for c in applicable], [()] * len(applicable))
    evaluations += len(rows)
    gen_stats = collections.Counter()
    for c, row in zip(applicable, rows):
        report_script(rep, impl, row, (), "matrix cell %s/%s rendered from the Coq scenario" % (c["kind"], c["path"]), fmap, gen_stats, strict=False)
        nontrivial.add(row[1])
    k0 = ("int", "postinc", True)
    samples.append({"matrix_cell": "int/postinc", "program": got[k0][1], "spec": "rejected", "main": got[k0][0]})
    k0 = ("struct", "memberst", True)
    samples.append({"matrix_cell": "struct/memberst", "program": got[k0][1], "spec": "rejected", "main": got[k0][0]})

    lap("matrix")
    # ---------------------------------------------------------------- derivation chains (object -> handle -> handle ... -> store)
    depths = ["3", "3", "2"] if tier == "quick" else ["3", "4", "3"]
    chains = []
    for l in model_cmd_args(["chains"] + depths, []).split("\n"):
        w = l.split("\t")
        if w[0] == "CHAIN":
            chains.append({"family": w[1], "name": w[2], "script": w[3], "spec": w[4][5:], "mech": w[5][5:], "expect": w[6][7:]})
    cstat = collections.Counter()
    cjobs = []
    for c in chains:
        if c["spec"] != c["expect"]:
            rep.violation("chain", {"chain": c}, "chain %s %s: the extracted model says %s where the theorem says %s" % (c["family"], c["name"], c["spec"], c["expect"]), True)
        why = gen_c09.chain_unsupported(c["family"], c["name"])
        if why:
            cstat["unsupported-construct: " + why] += 1
            continue
        for g in ((), (0,)):            # the object a local of main / a global
            cjobs.append((c, g))
    nviol = 0
    for i in range(0, len(cjobs), CH_CHAINS):
        part = cjobs[i:i + CH_CHAINS]
        rows = run_scripts(impl, [c["script"] for c, _ in part], [g for _, g in part])
        evaluations += len(rows)
        for (c, g), row in zip(part, rows):
            if c["expect"] == "rejected":
                nontrivial.add(row[1])
            before = len(rep.violations)
            key = "%s:%s" % (c["family"], row[4].split(":")[0]) if not row[4].startswith("hole") else "%s:%s" % (c["family"], row[4])
            if nviol < 8 or row[4] in ("ok", "skip") or row[4].startswith("hole"):
                st_tmp = collections.Counter()
                report_script(rep, impl, row, g, "derivation chain %s %s%s" % (c["family"], c["name"], " (global object)" if g else ""),
                              fmap, st_tmp, strict=False)
            cstat[key] += 1
            nviol += len(rep.violations) - before
    j = next((j for j, (c, g) in enumerate(cjobs) if c["name"] == "cscalar:Pc-Ln:a" and not g), 0)
    if cjobs:
        row = run_scripts(impl, [cjobs[j][0]["script"]], [cjobs[j][1]])[0]
        samples.append({"chain": cjobs[j][0]["name"], "script": row[0], "program": row[1], "spec": row[2]["spec"][0], "mech": row[2]["mech"][0], "judgement": row[4]})

    lap("chains")
    # ---------------------------------------------------------------- cells outside the machine (tested only): const version + control twin
    xstat = collections.Counter()
    xmap = {}
    for f in findings:
        for x in f["signature"].get("extras", []):
            xmap[x] = f
    xcells = gen_c09.extra_cells()
    xouts = common.pmap(lambda p: common.run_cb(impl, p), [p for _, c, t in xcells for p in (c, t)])
    evaluations += len(xouts)
    for k, (name, cp, tp) in enumerate(xcells):
        (rc1, o1, e1), (rc0, o0, e0) = xouts[2 * k], xouts[2 * k + 1]
        c1, c0 = gen_c09.classify(rc1, o1, e1), gen_c09.classify(rc0, o0, e0)
        nontrivial.add(cp)
        note_error(rc1, e1)
        if c0 != "accepted-changed":
            xstat["twin-mismatch"] += 1
            rep.violation("extra-twin", {"cell": name, "program": tp, "expected": "changed", "observed": c0, "impl_stdout": o0, "impl_stderr": e0[-400:]},
                          "control twin of cell %s (outside the machine) no longer runs and changes the value: %s" % (name, c0), True)
        if c1 in ("rejected", "rejected-early") and "const" in e1.lower():
            if name in xmap:
                xstat["fixed"] += 1
                rep.notes.append("cell %s is refused now (finding %s repaired?)" % (name, xmap[name]["id"]))
            else:
                xstat["refused"] += 1
        elif name in xmap and c1 == "accepted-changed":
            xstat["hole:" + name] += 1
            rep.known(xmap[name]["id"], xmap[name]["what_fails"])
        else:
            xstat["mismatch"] += 1
            rep.violation("extra", {"cell": name, "program": cp, "spec": "rejected", "observed": c1, "impl_rc": rc1, "impl_stdout": o1, "impl_stderr": e1[-400:]},
                          "cell %s (outside the machine): the property demands rejected, main: %s" % (name, c1),
                          no_failing_input=(c1 in ("rejected", "rejected-early", "accepted-unchanged", "late-error-unchanged")))
    samples.append({"extra_cell": xcells[1][0], "program": xcells[1][1], "spec": "rejected"})

    lap("extras")
    # ---------------------------------------------------------------- access paths into nested objects (coq/C09/Paths.v)
    pcov, pev, pnt, psamples, pdist = c09_paths.run(rep, impl, seed, tier, findings)
    evaluations += pev
    nontrivial |= pnt
    samples += psamples
    for k, v in pcov["implementation_error_messages"].items():
        ERRS[k] += v

    lap("paths")
    # ---------------------------------------------------------------- random scripts
    n_strict = 1500 if tier == "quick" else 20000
    n_free = 1200 if tier == "quick" else 15000
    corpus = os.path.join(common.VERIF, "corpus", "c09.json")
    strict, free = [], []
    if os.path.exists(corpus):
        for it in json.load(open(corpus)):
            strict.append((it["script"], tuple(it.get("globals", ()))))
    for k in range(n_strict):
        strict.append(gen_c09.random_script(rng_for(seed, "c09-strict", k), avoid=holes + noeff))
    for k in range(n_free):
        free.append(gen_c09.random_script(rng_for(seed, "c09-free", k), avoid=noeff))
    sstat, fstat = collections.Counter(), collections.Counter()
    rejecting_sites = collections.Counter()
    CH = 3000
    for name, lst, st, is_strict in (("strict", strict, sstat, True), ("free", free, fstat, False)):
        nviol = 0
        for i in range(0, len(lst), CH):
            part = lst[i:i + CH]
            rows = run_scripts(impl, [s for s, _ in part], [g for _, g in part])
            evaluations += len(rows)
            for (s, g), row in zip(part, rows):
                if row[2].get("spec", ("",))[0].startswith("rej"):
                    nontrivial.add(row[1])
                    rejecting_sites[row[2]["spec"][0].split(":")[-1]] += 1
                before = len(rep.violations)
                if nviol < 4 or row[4] in ("ok", "skip") or row[4].startswith("hole") and not is_strict:
                    report_script(rep, impl, row, g, "random script (%s stream)" % name, fmap, st, strict=is_strict)
                else:
                    st[row[4]] += 1
                nviol += len(rep.violations) - before
            if i == 0 and rows:
                j = min(7, len(rows) - 1)
                samples.append({"stream": name, "script": rows[j][0], "program": rows[j][1], "spec": rows[j][2]["spec"][0],
                                "mech": rows[j][2]["mech"][0], "judgement": rows[j][4]})

    lap("scripts")
    # ---------------------------------------------------------------- Ref differential around const objects
    n_ref = 2500 if tier == "quick" else 30000
    progs, infos = [], []
    for k in range(n_ref):
        sx, inf = gen_c09.ref_program(rng_for(seed, "c09-ref", k), avoid_incdec=False)
        progs.append(sx)
        infos.append(inf)
    res, bad = [], []
    for i in range(0, len(progs), 4000):
        r, b = langrun.differential(impl, progs[i:i + 4000])
        res += r
        bad += [(k + i, w) for k, w in b]
    evaluations += len(progs)
    ref_out = collections.Counter(r["model"]["expect"] for r in res)
    ref_att = collections.Counter("%s/%s" % inf["attack"] for inf, r in zip(infos, res) if inf["attack"] and r["model"]["expect"] == "const")
    for p, r in zip(progs, res):
        if r["model"]["expect"] == "const":
            nontrivial.add(p)
    for k, why in bad[:4]:
        def still_bad(sx, why=why):
            r, b = langrun.differential(impl, [sx], fuel=1500, model_timeout=20)
            return bool(b) and b[0][1] == why and "Undefined" not in r[0]["impl"]["err"] and r[0]["model"]["expect"] != "unbound"
        try:
            small = langrun.shrink(progs[k], still_bad, budget=60 if tier == "quick" else 200)
        except Exception:
            small = progs[k]
        r, b = langrun.differential(impl, [small])
        m, i = r[0]["model"], r[0]["impl"]
        # property oracle: Ref says the store is refused (const) but main goes on, or main prints something else
        rep.violation("ref", {"sexpr": small, "program": m["src"], "expected_stdout": m["out"], "expected_outcome": m["expect"],
                              "impl_stdout": i["out"] if i else None, "impl_rc": i["rc"] if i else None,
                              "impl_stderr": (i["err"][-600:] if i else None), "why": why},
                      "main disagrees with the reference semantics on a program around const objects (%s)" % why)
    if res:
        j = next((j for j, r in enumerate(res) if r["model"]["expect"] == "const"), 0)
        samples.append({"ref_program": res[j]["model"]["src"], "expect": res[j]["model"]["expect"], "stdout": res[j]["model"]["out"]})

    lap("ref")
    # ---------------------------------------------------------------- known findings: replay each recorded program
    for f in findings:
        rc, o, e = common.run_cb(impl, f["replay"]["program"])
        evaluations += 1
        ok = (o == f["replay"]["expected_stdout"]) and (rc == 1)
        if not ok:
            rep.known(f["id"], f["what_fails"])
        else:
            rep.notes.append("known finding %s no longer reproduces (fixed?)" % f["id"])

    rep.coverage.update({
        "evaluations": evaluations, "distinct_nontrivial": len(nontrivial),
        "rule": "programs run on main: 13x12 matrix templates (const + control twin), the same cells and one witness per check site rendered from "
                "the Coq scripts, every derivation chain (object local / global), template cells outside the machine (const + twin), random machine "
                "scripts incl. callees (strict stream avoiding the recorded holes, free stream), random CbCore programs around const objects; "
                "non-trivial = distinct program text in which the property demands a rejection (a mutation of something protected is attempted)",
        "exhaustive": True,
        "exhaustive_part": "the object-kind x mutation-path matrix (13 x 12 = 156 cells; %d expressible), the %d check sites and the derivation chains "
                           "(references 1..%s links, array parameters 1..%s, pointers 1..%s; every link local/parameter x const/non-const, every final "
                           "store form) are enumerated completely; scripts and programs are sampled" % (len(applicable), len(sites), depths[0], depths[1], depths[2]),
        "matrix": dict(mstat), "matrix_main_verdicts": table, "matrix_generic_rendering": dict(gen_stats),
        "check_sites": {"total": len(sites), "missing_in_implementation": holes, "witness_runs": dict(site_stats)},
        "chains": dict(cstat), "chain_depths_ref_alias_ptr": depths, "extra_cells": dict(xstat),
        "scripts_strict": dict(sstat), "scripts_free": dict(fstat), "spec_rejecting_sites": dict(rejecting_sites),
        "implementation_error_messages": dict(ERRS.most_common(60)),
        "ref_outcomes": dict(ref_out), "ref_const_rejections_by_form_and_place": dict(ref_att), "ref_disagreements": len(bad),
        "input_distribution": {"matrix_templates": len(jobs), "matrix_generic": len(applicable), "site_witnesses": len(sites), "derivation_chains": len(cjobs), "extra_cells": 2 * len(xcells),
                               "scripts_strict": len(strict), "scripts_free": len(free), "ref_programs": len(progs),
                               "finding_replays": len(findings)},
        "samples": samples, "phase_wall_s": phase,
        "paths": {k: v for k, v in pcov.items() if k != "implementation_error_messages"},
    })
    rep.coverage["input_distribution"].update(pdist)
    rep.assumptions += [
        "access paths: only what the interpreter can execute on NON-const objects is compared verdict by verdict (coq/C09/Paths.v exec_set / exec_sub: x.m with =, op=, ++; x.a[i] with =; member chains x.a.b.c, x[i].a.b, x.a[i].b.c with =, op=; whole stores x = .., x.m = t, x.a[i] = t / {..}, x[i] = t / {..}); outside it (a subscript after two or more steps, two subscripts, ++ / op= on nested cells, array-typed members as a whole, nested paths behind pointers / references / self) the check demands only that no protected cell changes",
        "access paths: a script ends with the first store on which the property and the model of the code part (such a store sets is_assigned and changes later verdicts); scripts reaching Last.RootIdx are rendered without a read before the store (finding C09-const-member-in-element); a refusal through a test the model lists as missing is counted, not reported (only the site's own witness decides `repaired`)",
        "access paths, ways of creating the variable: const MEMBERS only with ways that initialise every cell (literal, global, static); whole-sub-object stores not on const declared without initialiser (first whole assignment = initialisation) nor on copy-initialised / parameter consts (finding C09-copy-init-const-element-literal); by-value struct parameters only for const variables (nested stores into non-const by-value parameters are lost); `x[i] = x[j];` on struct-array variables only after the elements have been read (from a never-touched element the store is lost, also without const); values of whole-sub-object stores from a struct VARIABLE and of string / floating array members are not compared (copies are incomplete - not a const matter)",
        "the strict stream never attacks through a check site the implementation is known to lack (gen_c09.random_script(avoid=...)); each such site has a recorded finding, a witness and matrix cells that are run separately",
        "Ref programs: operands of the mutation attempt are literals (the implementation tests the target before evaluating the right-hand side, Ref after); programs on which Ref reports undef are discarded",
        "machine scripts use int slots only; scalar types tiny..bool, globals and parameters are covered by the matrix templates",
        "a `T* const` variable passed to a `T*` parameter is rejected by the implementation (stricter than the property needs) and is not generated",
        "`const T*` parameters: the implementation records no pointee const for them, so it refuses a `const T*` VARIABLE as their argument and `p = &c` in the callee (stricter than needed; not generated) and does not know `const S*` parameters at all (chains through them are counted as unsupported-construct)",
        "`r.m = v` through a reference to a CONST struct is refused by the implementation only once the member entry has been read through some reference or pointer: scripts stay on the two histories the machine has (nothing read; read through this very reference), gen_c09.random_script `touched`",
        "inside a callee only global objects and the callee's own handles are observed; elements of an array aliased by an array parameter are observed through the innermost parameter only (the implementation copies back on return)",
        "r++ / r.m++ through a reference are not implemented by the interpreter (Type range error / Undefined struct variable) and `&r` crashes it: not in the machine",
    ]


def replay(path):
    data = json.load(open(path))
    c = data["case"]
    impl = common.build_impl("plain")
    if "pscript" in c:
        return c09_paths.replay(c, impl)
    if "script" in c:
        row = run_scripts(impl, [c["script"]], [tuple(c.get("globals", ()))])[0]
        print(row[1])
        print("spec:", row[2]["spec"][0], repr(gen_c09.expected_transcript(row[2]["spec"], row[2]["init"], row[6])[0]))
        print("mech:", row[2]["mech"][0], repr(gen_c09.expected_transcript(row[2]["mech"], row[2]["init"], row[6])[0]))
        print("main:", row[3][0], repr(row[3][1]), row[3][2][-300:])
        print("judgement:", row[4], row[5])
        return 0 if row[4] in ("ok",) or row[4].startswith("hole") else 1
    if "sexpr" in c:
        r, b = langrun.differential(impl, [c["sexpr"]])
        print(r[0]["model"]["src"])
        print("reference:", r[0]["model"]["expect"], repr(r[0]["model"]["out"]))
        print("main:     ", r[0]["impl"]["rc"], repr(r[0]["impl"]["out"]), r[0]["impl"]["err"][-300:])
        return 1 if b else 0
    if "program" in c:
        rc, o, e = common.run_cb(impl, c["program"])
        print(c["program"])
        print("demanded:", c.get("spec") or c.get("expected"), "| model of the code:", c.get("mech"))
        print("main:", rc, repr(o), e[-300:])
        cl = gen_c09.classify(rc, o, e)
        print("class:", cl)
        want = c.get("spec") or c.get("expected")
        return 0 if MAIN2MODEL.get(cl, cl) == want else 1
    print(json.dumps(c, indent=1)[:3000])
    return 1
