"""C08 - calls get private frames and positional arguments; statics persist; no leakage.

Theorems: coq/C08/Properties_C08.v - about the shared reference interpreter coq/Lang (Ref: lexical
lookup, private frames, per-function statics) and about Mech (coq/C08/Frames.v: the implementation's
find_variable walking every scope of every activation, arguments evaluated inside the callee's scope,
statics looked up last and re-initialised), incl. the refinement Mech = Ref under the name side
condition and the `_refuted` witnesses without it.

Tie (every run): the extracted Ref and Mech (bin/c08_model) and /repo's `main` run the same generated
programs (harness/gen_c08.py), printed from the same AST by the extracted printer:
  * lexical family (side condition holds): main == Ref, and Mech == Ref (the refinement, observed);
  * reuse family (names deliberately confused): main == Mech - the model predicts the implementation's
    wrong answers exactly; where Ref differs the known findings are the reason;
  * directed clause programs (positional, every argument count, interleaved statics, recursion and
    mutual recursion to depth 50, returned values at the type boundaries);
  * a stream of gen_core programs (Ref vs main through harness/langrun.py);
  * CbCall family (coq/C08/Kinds.v, harness/gen_c08k.py): results, parameters, locals and statics of every kind (long int
    bool string double float quad struct array reference void), plain functions, methods and calls through function
    pointers, every exit of evaluate_function_call_impl (end of body, int64 return, re-thrown return, runtime error under
    `try`): main == Ref(K); the extracted Mech(K) (statics under the current_function_name register) == Ref(K) as proved.
"""
import collections
import json
import os
import re
import time

import common
import gen_c08
import gen_c08k
import gen_core
import langrun
from common import rng_for

PROP = "C08"
LEVEL = "proof"
META = {
    "category": "proof",
    "technique": "Coq: theorems about the shared reference interpreter (generic state-relation induction, bracketed frame relation) + "
                 "a Mech model of find_variable / the call protocol with a simulation proof Mech = Ref under the name side condition and "
                 "vm_compute witnesses without it + a second language (CbCall) with result / parameter kinds and the current_function_name "
                 "register, whose restore policy is proved exact; extracted Ref and Mech of both run differentially against main",
    "text": "Ref (coq/Lang) gives every call a fresh frame: machine-checked for all programs, states and fuel are that every expression - hence "
            "every call, to any recursion depth, returning, failing or running out of fuel - restores the caller's frame stack exactly, that a "
            "running body never changes a frame below its own nor another function's statics and reads only its own frame, its statics and the "
            "globals; arguments bind positionally, omitted trailing arguments equal the written-out defaults, a wrong count is rejected before "
            "anything is evaluated, the returned value arrives unchanged; a static is initialised once, stays known for ever and is per function. "
            "Mech mirrors the C++ (find_variable walks every activation's scope, then globals, then statics; arguments are evaluated inside the "
            "callee's scope; static initialisers are re-evaluated): it is proved equal to Ref for every program whose local names are disjoint "
            "from the global/static names, whose arguments mention neither an earlier parameter of the callee nor a static and whose static "
            "initialisers are literals (unless Ref itself reports an unbound name), and refuted by concrete programs otherwise. Both models are "
            "extracted and run against /repo's main on generated call graphs; Mech must predict main's deviations exactly. "
            "CbCall (Kinds.v) adds results, parameters, locals and statics of every kind, methods, pointer calls and `try`: a call saves the "
            "current-function register, sets it, and restores it on each of the four exits of evaluate_function_call_impl (end of body, int64 "
            "return, re-thrown non-integer return, runtime error). Machine-checked: every expression - a call of any kind through any exit, to "
            "any depth - leaves the activation stack and the register exactly as they were; statics looked up under the register are the statics "
            "of the running activation's function (Mech = Ref on all programs) if and only if no exit forgets its restore (each unsound policy, "
            "the filed change C08-1 among them, is separated by a concrete program); statics are private, persistent and initialised once; the "
            "returned value and positional binding hold for every kind.",
    "note": "Trusted: Coq kernel, no axioms (Print Assumptions closed); extraction + OCaml driver; Ref is the hand-written formal reading of the "
            "property; Mech is a hand-written model of manager.cpp:find_variable, static.cpp and call_impl.cpp's parameter loop, tied to the code by "
            "differential testing only. The refinement theorem is stated for Mech with lexical block scopes (blk=true); the extracted Mech run "
            "against main has one scope per activation (blk=false) - the two agree on the generated programs (checked), block scoping itself is "
            "C01's finding. The core-language streams use long variables only; the CbCall stream treats a non-integer value as its payload "
            "(string s<z>, <z>.5, struct member a / array element 0 = z) - that the surface forms printed by ocaml/c08_driver.ml mean these payloads "
            "is trusted; CbCall has lexical lookup and is generated inside the name side condition (dynamic lookup is modelled on the core language "
            "only). Reference / pointer parameters, function-pointer parameters, interface-typed parameters, impl statics, async, generics and "
            "constructors are outside the C08 generators.",
}


# ------------------------------------------------------------------------------------------------
def _bool_headed_ternary_store(node):
    """a stored top-level ?: with a branch `L op R` whose LEFT operand is a comparison or a `!` (probed on the binary:
    `v = c ? ((v >= 2) - v) : v` stores 1; `(..) + 0`, `v - (v >= 2)`, `(a && b) - v` are fine)"""
    if not isinstance(node, list) or not node:
        return False
    if node[0] in ("asg", "decl", "ret") and isinstance(node[-1], list) and node[-1] and node[-1][0] == "cond":
        for b in node[-1][2:4]:
            if isinstance(b, list) and len(b) == 4 and b[0] == "bin" and isinstance(b[2], list) and b[2] and (
                    (b[2][0] == "bin" and b[2][1] in ("<", "<=", ">", ">=", "==", "!=")) or (b[2][0] == "un" and b[2][1] == "!")):
                return True
    return any(_bool_headed_ternary_store(c) for c in node if isinstance(c, list))


_MODEL_READY = []
_TOP_TERNARY_STORE = re.compile(r"\((?:asg \(v \d+\)|asg \(idx [^()]*(?:\([^()]*\)[^()]*)*\)|decl \d \d \w+ \d+|ret) \(cond ")


def model_run(sexprs, fuel=1500, timeout=600):
    """-> list of {src, ref:{expect,out}, mech:{...}, mechb:{...}} (bin/c08_model), chunked over the cores"""
    if not _MODEL_READY:
        common.ensure_model(PROP)
        _MODEL_READY.append(True)
    exe = common.model_bin(PROP)

    def parse_out(o):
        res = []
        for blk in o.split("===BEGIN\n")[1:]:
            src, rest = blk.split("===REF ", 1)
            d = {"src": src}
            parts = rest.rsplit("\n===END", 1)[0]
            ref, rest2 = parts.split("\n===MECH ", 1)
            mech, mechb = rest2.split("\n===MECHB ", 1)
            for key, txt in (("ref", ref), ("mech", mech), ("mechb", mechb)):
                cls, out = txt.split("\n", 1)
                d[key] = {"expect": cls.strip(), "out": out, "src": src}
            res.append(d)
        return res

    def one(chunk):
        if not chunk:
            return []
        rc, o, e = common.sh([exe, str(fuel)], input=("\n".join(chunk) + "\n").encode(), timeout=min(timeout, 150))
        if rc == 124 and len(chunk) > 1:
            # one program of the chunk does not end in time (an activation tree too large to be a useful test): run them one
            # by one and discard that one like a program that runs out of fuel
            res = []
            for sx in chunk:
                rc1, o1, e1 = common.sh([exe, str(fuel)], input=(sx + "\n").encode(), timeout=10)
                if rc1 == 0:
                    res += parse_out(o1)
                elif rc1 == 124:
                    dead = {"expect": "nofuel", "out": "", "src": ""}
                    res.append({"src": "", "ref": dict(dead), "mech": dict(dead), "mechb": dict(dead)})
                else:
                    raise RuntimeError("c08_model failed rc=%d: %s" % (rc1, e1[-800:]))
            return res
        if rc != 0:
            raise RuntimeError("c08_model failed rc=%d: %s" % (rc, e[-800:]))
        res = parse_out(o)
        if len(res) != len(chunk):
            raise RuntimeError("c08_model returned %d results for %d programs" % (len(res), len(chunk)))
        return res
    n = max(1, min(common.NCPU, (len(sexprs) + 49) // 50))
    size = (len(sexprs) + n - 1) // n
    chunks = [sexprs[i:i + size] for i in range(0, len(sexprs), size)]
    out = []
    for r in common.pmap(one, chunks):
        out += r
    return out


def judge(family, m, i):
    """-> list of (kind, why). kind: 'ref' = main differs from Ref, 'mech' = main differs from Mech,
    'refine' = Mech differs from Ref although the side condition holds, 'blocks' = the two Mech variants differ."""
    bad = []
    if family == "kinds":
        # CbCall: main == Ref; Mech (register discipline) == Ref is a theorem - a difference means the extracted code / driver is broken
        why = langrun.compare(m["ref"], i) if i is not None else None
        if why:
            bad.append(("ref", why))
        if (m["mech"]["expect"], m["mech"]["out"]) != (m["ref"]["expect"], m["ref"]["out"]):
            bad.append(("refine", "extracted Mech (register) differs from extracted Ref (stack) on a CbCall program: contradicts kinds_mech_equals_ref"))
        return bad
    if family == "reuse":
        why = langrun.compare(m["mech"], i) if i is not None else None
        if why:
            bad.append(("mech", why))
    else:
        why = langrun.compare(m["ref"], i) if i is not None else None
        if why:
            bad.append(("ref", why))
        if m["ref"]["expect"] not in ("undef", "nofuel", "unbound"):
            if (m["mech"]["expect"], m["mech"]["out"]) != (m["ref"]["expect"], m["ref"]["out"]):
                bad.append(("refine", "Mech differs from Ref on a program satisfying the side condition"))
            elif (m["mechb"]["expect"], m["mechb"]["out"]) != (m["ref"]["expect"], m["ref"]["out"]):
                bad.append(("refine", "Mech (lexical blocks) differs from Ref on a program satisfying the side condition"))
    return bad


def run_family(impl, family, progs):
    ms = model_run(progs)
    key = "mech" if family == "reuse" else "ref"
    idx = [k for k, m in enumerate(ms) if m[key]["expect"] not in ("undef", "nofuel")]
    irs = langrun.impl_run(impl, [ms[k]["src"] for k in idx])
    imp = [None] * len(ms)
    for k, ir in zip(idx, irs):
        imp[k] = ir
    bad = []
    for k, m in enumerate(ms):
        for kind, why in judge(family, m, imp[k]):
            bad.append((k, kind, why))
    return ms, imp, bad


def check_one(impl, family, sx):
    ms, imp, bad = run_family(impl, family, [sx])
    return ms[0], imp[0], bad


def replay_finding(impl, f):
    rc, o, e = common.run_cb(impl, f["replay"]["program"])
    ok = (o == f["replay"]["expected_stdout"]) and ((rc != 0) == bool(f["replay"].get("expected_error")))
    return ok, rc, o, e


def run(rep):
    seed, tier = rep.seed, rep.tier
    timing = {}
    t0 = time.time()
    cq = common.coq_check_props(PROP)
    timing["coq"] = round(time.time() - t0, 1)
    common.proof_coverage(rep, cq)
    if not cq["ok"]:
        rep.violation("proof", {"theorem": cq["failed_theorem"], "log": cq["log"][-3000:]},
                      "proof obligation %s no longer checks" % cq["failed_theorem"], True)
    t0 = time.time()
    impl = common.build_impl("plain")
    timing["build"] = round(time.time() - t0, 1)
    quick = tier == "quick"
    t_gen = time.time()
    n_dir = 600 if quick else 6000
    n_lex = 1500 if quick else 20000
    n_reuse = 1200 if quick else 16000
    n_core = 500 if quick else 6000
    n_kdir = 660 if quick else 6600          # CbCall directed: 6 shapes x 11 result kinds x 10 (100)
    n_kinds = 1500 if quick else 20000       # CbCall random call graphs

    fams = collections.OrderedDict()
    feats = collections.Counter()
    tags = collections.Counter()
    corpus = os.path.join(common.VERIF, "corpus", "c08.json")
    lex, reuse = [], []
    if os.path.exists(corpus):
        for ent in json.load(open(corpus)):
            (reuse if ent.get("family") == "reuse" else lex).append(ent["sexpr"])
            tags["corpus"] += 1
    for k in range(n_dir):
        sx, tag = gen_c08.directed(rng_for(seed, "c08-dir", k), k)
        lex.append(sx); tags["directed-" + tag.split("-depth")[0].split("-recursion-")[0]] += 1
    for k in range(n_lex):
        sx, f = gen_c08.gen_program(rng_for(seed, "c08-lex", k))
        lex.append(sx); feats.update(f); tags["lexical"] += 1
    for k in range(n_reuse):
        sx, f = gen_c08.gen_program(rng_for(seed, "c08-reuse", k), gen_c08.Opts(reuse=True))
        reuse.append(sx); feats.update("reuse:" + x for x in f); tags["reuse"] += 1
    kinds = []
    kfeats = collections.Counter()
    for k in range(n_kdir):
        sx, tag = gen_c08k.directed(rng_for(seed, "c08k-dir", k), k)
        kinds.append(sx); tags["kinds-directed-" + tag.split(":")[0]] += 1; kfeats["directed:" + tag] += 1
    for k in range(n_kinds):
        sx, f = gen_c08k.gen_program(rng_for(seed, "c08k-gen", k))
        kinds.append(sx); kfeats.update(f); tags["kinds-random"] += 1
    fams["kinds"] = kinds
    fams["lexical"] = lex
    fams["reuse"] = reuse
    timing["generate"] = round(time.time() - t_gen, 1)

    evaluations = 0
    distinct, nontriv = set(), 0
    outcomes = collections.Counter()
    samples = []
    reuse_ref_differs = 0
    allbad = []
    for fam, progs in fams.items():
        t0 = time.time()
        ms, imp, bad = run_family(impl, fam, progs)
        timing[fam] = round(time.time() - t0, 1)
        evaluations += len(progs)
        key = "mech" if fam == "reuse" else "ref"
        for p, m, i in zip(progs, ms, imp):
            outcomes[fam + ":" + m[key]["expect"]] += 1
            if p in distinct or m[key]["expect"] in ("undef", "nofuel"):
                continue
            distinct.add(p)
            if m[key]["out"].strip() or m[key]["expect"] != "finished":
                nontriv += 1
            if fam == "reuse" and (m["mech"]["expect"], m["mech"]["out"]) != (m["ref"]["expect"], m["ref"]["out"]):
                reuse_ref_differs += 1
        for j in (0, len(progs) // 2, len(progs) - 1):
            if 0 <= j < len(ms):
                samples.append({"family": fam, "program": ms[j]["src"], "expect": ms[j][key]["expect"], "stdout": ms[j][key]["out"][:400]})
        allbad += [(fam, progs[k], kind, why) for k, kind, why in bad]

    # gen_core programs with calls: Ref vs main through langrun
    core = []
    skipped_ternary = 0
    for k in range(n_core):
        g = gen_core.Gen(rng_for(seed, "c08-core", k), gen_core.Opts(funcs=4, arrays=False, max_stmts=6))
        p = g.program()
        if _TOP_TERNARY_STORE.search(p) and _bool_headed_ternary_store(langrun.parse(p)):
            # finding C01-ternary-assign-bool-branch (a stored top-level ?: whose chosen branch is typed bool, e.g.
            # `(a >= 2) - v`, is normalised to 0/1): C01's business, gen_core's own avoidance covers unary branches only;
            # this stream is about calls and does without such statements
            skipped_ternary += 1
            continue
        core.append(p)
    t0 = time.time()
    res, cbad = langrun.differential(impl, core)
    timing["core"] = round(time.time() - t0, 1)
    evaluations += len(core)
    for p, r in zip(core, res):
        outcomes["core:" + r["model"]["expect"]] += 1
        if p not in distinct and r["model"]["expect"] not in ("undef", "nofuel"):
            distinct.add(p)
            if r["model"]["out"].strip() or r["model"]["expect"] != "finished":
                nontriv += 1
    tags["gen_core"] = len(core)
    tags["gen_core_skipped_top_level_ternary_store"] = skipped_ternary

    rep.coverage.update({
        "evaluations": evaluations, "distinct_nontrivial": nontriv,
        "rule": "generated call-graph programs printed by the extracted printer and run on main, on the extracted Ref and on the extracted Mech; "
                "distinct = distinct ASTs that are well-formed (the model neither Undef nor out of fuel); non-trivial = prints something or ends in a runtime error",
        "input_distribution": dict(tags), "model_outcomes": dict(outcomes),
        "features": dict(feats.most_common(60)),
        "kinds_features": dict(sorted(kfeats.items())),
        "reuse_programs_where_mech_differs_from_ref": reuse_ref_differs,
        "samples": samples[:6],
        "disagreements": len(allbad) + len(cbad), "timing_s": timing,
    })

    budget = 60 if quick else 200
    for fam, sx, kind, why in allbad[:4]:
        m0, i0, _ = check_one(impl, fam, sx)

        def still_bad(s, fam=fam, kind=kind, m0=m0, i0=i0):
            try:
                m, i, b = check_one(impl, fam, s)
            except Exception:
                return False
            if fam == "kinds" and (m["ref"]["expect"] != m0["ref"]["expect"] or (i is None) != (i0 is None) or (i is not None and i["rc"] != i0["rc"])):
                return False                  # stay on the same kind of failure
            if fam != "reuse" and m["ref"]["expect"] == "unbound":
                return False
            if fam == "kinds" and i is not None and ("error:" in i["err"] and "Expected" in i["err"]):
                return False                  # a shrink step that no longer parses
            return any(k2 == kind for _, k2, _ in b)
        try:
            small = gen_c08k.shrink(sx, still_bad, budget=5 * budget) if fam == "kinds" else langrun.shrink(sx, still_bad, budget=budget)
        except Exception:
            small = sx
        m, i, b = check_one(impl, fam, small)
        # the property's own oracle on this input: does main agree with Ref?
        ref_why = langrun.compare(m["ref"], i) if i is not None else None
        payload = {"family": fam, "sexpr": small, "program": m["src"], "kind": kind, "why": why,
                   "ref": m["ref"]["expect"], "ref_stdout": m["ref"]["out"], "mech": m["mech"]["expect"], "mech_stdout": m["mech"]["out"],
                   "impl_stdout": i["out"] if i else None, "impl_rc": i["rc"] if i else None, "impl_stderr": (i["err"][-600:] if i else None),
                   "main_vs_ref": ref_why}
        text = {"ref": "main disagrees with the reference semantics on a %s (%s)" % (
                    "CbCall program (results / parameters / locals of every kind, every call exit)" if fam == "kinds" else "call-graph program", why),
                "mech": "main disagrees with the Mech model of find_variable / the call protocol (%s); main vs Ref: %s" % (why, ref_why or "equal"),
                "refine": why}[kind]
        rep.violation(kind, payload, text, no_failing_input=(ref_why is None))
    for k, why in cbad[:3]:
        def still_bad2(s, why=why):
            r, b = langrun.differential(impl, [s], fuel=1500, model_timeout=20)
            return bool(b) and b[0][1] == why and r[0]["model"]["expect"] != "unbound"
        try:
            small = langrun.shrink(core[k], still_bad2, budget=budget)
        except Exception:
            small = core[k]
        r, b = langrun.differential(impl, [small])
        m, i = r[0]["model"], r[0]["impl"]
        rep.violation("core", {"family": "core", "sexpr": small, "program": m["src"], "expected_stdout": m["out"], "expected_outcome": m["expect"],
                               "impl_stdout": i["out"] if i else None, "impl_rc": i["rc"] if i else None,
                               "impl_stderr": (i["err"][-600:] if i else None), "why": why},
                      "main disagrees with the reference semantics (%s; gen_core program)" % why)

    # known findings: replay each recorded program; the Mech must predict what main prints
    t_kf = time.time()
    for f in common.known_findings(PROP):
        ok, rc, o, e = replay_finding(impl, f)
        if not ok:
            rep.known(f["id"], f["what_fails"])
            sx = f["replay"].get("sexpr")
            if sx:
                m = model_run([sx], fuel=400)[0]
                why = langrun.compare(m["mech"], {"rc": rc, "out": o, "err": e})
                if why:
                    rep.violation("mech-finding", {"finding": f["id"], "family": "reuse", "sexpr": sx, "program": f["replay"]["program"], "impl_stdout": o, "impl_rc": rc,
                                                   "mech_stdout": m["mech"]["out"], "mech": m["mech"]["expect"], "expected_stdout": f["replay"]["expected_stdout"], "why": why},
                                  "main fails known finding %s differently from what the Mech model (and its _refuted witness) predicts (%s)" % (f["id"], why))
        else:
            rep.notes.append("known finding %s no longer reproduces (fixed?)" % f["id"])
    timing["known_findings"] = round(time.time() - t_kf, 1)
    rep.assumptions += [
        "programs on which the model reports Undef (signed 64-bit overflow of an intermediate) or runs out of fuel are not well-formed and are discarded (counted)",
        "lexical family: generated inside the side condition of dynamic_lookup_refines_lexical; reuse family: compared against Mech only (main is known to deviate from Ref there: known_findings/C08.json)",
        "core-language streams: println arguments contain no calls (finding C01-println-retry), all variables are long (narrow parameter / result types belong to C04); "
        "CbCall stream: calls appear in println arguments and conditions unless the callee can fail; it stays inside the name side condition and away from the "
        "recorded findings (array result assigned, method on another receiver running to its end inside a method, floating statics, statics / errors / string "
        "arguments through function pointers, reference results copied or handed back by methods)",
    ]


def replay(path):
    data = json.load(open(path))
    c = data["case"]
    impl = common.build_impl("plain")
    if "sexpr" in c and c.get("family") in ("lexical", "reuse", "kinds"):
        m, i, b = check_one(impl, c["family"], c["sexpr"])
        print(m["src"])
        print("Ref:  ", m["ref"]["expect"], repr(m["ref"]["out"]))
        print("Mech: ", m["mech"]["expect"], repr(m["mech"]["out"]))
        print("main: ", i["rc"] if i else None, repr(i["out"]) if i else None, (i["err"][-300:] if i else ""))
        for _, kind, why in b:
            print("DISAGREEMENT", kind, why)
        return 1 if b else 0
    if "sexpr" in c:
        r, b = langrun.differential(impl, [c["sexpr"]])
        print(r[0]["model"]["src"])
        print("reference:", r[0]["model"]["expect"], repr(r[0]["model"]["out"]))
        print("main:     ", r[0]["impl"]["rc"], repr(r[0]["impl"]["out"]), r[0]["impl"]["err"][-300:])
        return 1 if b else 0
    if "program" in c:
        rc, o, e = common.run_cb(impl, c["program"])
        print(c["program"]); print("main:", rc, repr(o), e[-300:])
        return 1
    print(json.dumps(c, indent=1)[:3000])
    return 1
